"""
C11 / f1: an item delimiter spelling with a LEADING blank is refused although
the same spelling with a trailing blank (and a literal character with a
leading blank) is accepted.
"""
import sys
import warnings

warnings.simplefilter("ignore")

from cutplace import errors, interface  # noqa: E402


def item_delimiter_for(value):
    """The item delimiter a CID with cell ``value`` ends up with or the InterfaceError."""
    cid = interface.Cid()
    try:
        cid.read(
            "demo_cid",
            [
                ["D", "Format", "Delimited"],
                ["D", "Item delimiter", value],
                ["F", "some_field"],
            ],
        )
    except errors.InterfaceError as error:
        return error
    return cid.data_format.item_delimiter


# (spelling, character it denotes)
SPELLINGS = [
    ("59", ";"),
    ("0x3b", ";"),
    ('";"', ";"),
    ("';'", ";"),
    ('"\\x3b"', ";"),
    ("Tab", "\t"),
    ('"\\t"', "\t"),
    ("9", "\t"),
]

problems = []
# Sanity: blanks around a literal character are ignored on both sides.
for value in (";", "; ", " ;", " ; "):
    result = item_delimiter_for(value)
    if result != ";":
        problems.append("literal %r -> %r" % (value, result))

for spelling, expected in SPELLINGS:
    plain = item_delimiter_for(spelling)
    trailing = item_delimiter_for(spelling + " ")
    leading = item_delimiter_for(" " + spelling)
    if plain != expected:
        problems.append("spelling %r -> %r instead of %r" % (spelling, plain, expected))
    trailing_accepted = not isinstance(trailing, Exception)
    leading_accepted = not isinstance(leading, Exception)
    if trailing_accepted != leading_accepted or (leading_accepted and leading != trailing):
        problems.append(
            "%r (trailing blank) -> %r but %r (leading blank) -> %s"
            % (spelling + " ", trailing, " " + spelling, leading)
        )

if problems:
    print("item delimiter spellings treat a leading blank differently from a trailing blank:")
    for problem in problems:
        print("  " + problem)
    sys.exit(1)
print("ok: blanks around item delimiter spellings are treated consistently")
sys.exit(0)
