"""
C19 / f1: the ANSI dialect (the default of SqlFactory and the only one used by
``cutplace --create``) declares every Integer field whose range needs more than
32 bits but at most 64 bits as plain ``int``.

All other dialects of the same module switch to ``bigint`` (DB2, Transact-SQL)
or ``number(n, 0)`` (PL/SQL) as soon as a limit exceeds sql.MAX_INTEGER
(2**31 - 1); the ANSI dialect only reacts beyond sql.MAX_BIGINT.
"""
import re
import sys
import warnings

warnings.simplefilter("ignore")

from cutplace import interface, sql  # noqa: E402

CASES = [
    (0, 2**31),
    (0, 2**32),
    (-(2**31) - 1, 0),
    (-(2**63), 2**63 - 1),
]


def capacity(column_type):
    """Range of values an ANSI SQL column of ``column_type`` can store."""
    match = re.match(r"^(\w+)(?:\((\d+)(?:, *(\d+))?\))?$", column_type)
    assert match is not None, column_type
    name = match.group(1).lower()
    if name == "smallint":
        return -(2**15), 2**15 - 1
    if name in ("int", "integer"):
        # Same assumption as sql.MAX_INTEGER and all the other dialects of cutplace.sql.
        return -(2**31), 2**31 - 1
    if name == "bigint":
        return -(2**63), 2**63 - 1
    if name in ("decimal", "numeric", "dec"):
        digits = int(match.group(2)) - int(match.group(3) or 0)
        return -(10**digits - 1), 10**digits - 1
    raise AssertionError("unexpected column type: %r" % column_type)


def main():
    problems = []
    for lower, upper in CASES:
        rule = "%d...%d" % (lower, upper)
        cid = interface.Cid()
        cid.read("demo", [["D", "Format", "delimited"], ["F", "amount", "", "", "", "Integer", rule]])
        statement = sql.SqlFactory(cid, "demo", sql.ANSI_SQL_DIALECT).create_table_statement()
        column_line = statement.split("\n")[1]
        match = re.match(r"^\s+amount (.+?)( not null)?$", column_line)
        assert match is not None, statement
        column_type = match.group(1)
        column_lower, column_upper = capacity(column_type)
        if not (column_lower <= lower and upper <= column_upper):
            problems.append(
                "Integer rule %s: ANSI column type is %r, which stores only %d...%d"
                % (rule, column_type, column_lower, column_upper)
            )
    if problems:
        print("DEFECT: ANSI dialect yields a 32 bit 'int' column for ranges that need 64 bits")
        for problem in problems:
            print("  " + problem)
        for dialect in (sql.DB2_SQL_DIALECT, sql.TRANSACT_SQL_DIALECT, sql.PL_SQL_DIALECT):
            cid = interface.Cid()
            cid.read("demo", [["D", "Format", "delimited"], ["F", "amount", "", "", "", "Integer", "0...%d" % 2**32]])
            print(
                "  for comparison, %s and 0...2**32: %s"
                % (dialect, sql.SqlFactory(cid, "demo", dialect).create_table_statement().split("\n")[1].strip())
            )
        return 1
    print("ok: ANSI column types can store both range limits")
    return 0


if __name__ == "__main__":
    sys.exit(main())
