"""
C04 / f2: data cannot be read at all from a text stream whose ``name``
attribute exists but is ``None`` (tempfile.SpooledTemporaryFile, or an
io.TextIOWrapper around one, as used for uploaded files): creating the Reader
fails with an AssertionError instead of accepting the valid row and reporting
the broken one as data error located in "<io>".
"""
import io
import sys
import tempfile
import warnings

warnings.simplefilter("ignore")

from cutplace import errors, interface, validio  # noqa: E402

CID_TEXT = """d,format,delimited
d,encoding,utf-8
f,id,,,,Integer
f,name,,,,Text
"""
DATA_TEXT = "1,abc\r\nx,def\r\n"  # row 1 is valid, row 2 has a broken 'id' in column 1


def spooled_text_stream():
    result = tempfile.SpooledTemporaryFile(mode="w+", newline="", encoding="utf-8")
    result.write(DATA_TEXT)
    result.seek(0)
    return result


def wrapped_spooled_binary_stream():
    binary_stream = tempfile.SpooledTemporaryFile(mode="w+b")
    binary_stream.write(DATA_TEXT.encode("utf-8"))
    binary_stream.seek(0)
    return io.TextIOWrapper(binary_stream, encoding="utf-8", newline="")


def main():
    problems = []
    for label, create_stream in (
        ("SpooledTemporaryFile('w+')", spooled_text_stream),
        ("TextIOWrapper(SpooledTemporaryFile('w+b'))", wrapped_spooled_binary_stream),
    ):
        cid = interface.create_cid_from_string(CID_TEXT)
        data_stream = create_stream()
        assert data_stream.name is None
        try:
            items = list(validio.rows(cid, data_stream, on_error="yield"))
        except AssertionError as error:
            problems.append("%s: reading fails with AssertionError(%s) before any row is judged" % (label, error))
            continue
        except Exception as error:
            problems.append("%s: reading fails with %s: %s" % (label, type(error).__name__, error))
            continue
        if len(items) != 2 or items[0] != ["1", "abc"] or not isinstance(items[1], errors.DataError):
            problems.append("%s: expected [accepted row, data error] but got: %r" % (label, items))
        else:
            error_text = str(items[1])
            if ("R2C1" not in error_text) or ("'id'" not in error_text):
                problems.append("%s: error must name row 2, column 1 and field 'id': %s" % (label, error_text))
            print("%s: ok: %s" % (label, error_text))
    if problems:
        print("DEFECT: rows of a text stream with name=None are neither accepted nor rejected")
        for problem in problems:
            print("  " + problem)
        return 1
    print("ok")
    return 0


if __name__ == "__main__":
    sys.exit(main())
