"""
C03 / f1: a length (or "allowed characters" range) that consists only of commas, for example ",", is accepted by the
CID but then rejects EVERY non-empty cell ("... must be within range: None"), although no limit has been declared.

Exit 1 = defect present, exit 0 = conforming (CID refused with an InterfaceError, or the cells are accepted).
"""
import io
import sys
import warnings

warnings.simplefilter("ignore")

from cutplace import errors, interface, validio  # noqa: E402

problems = []


def check(title, cid_text, data_text):
    try:
        cid = interface.create_cid_from_string(cid_text)
    except errors.InterfaceError as error:
        print("ok (CID refused): %s: %s" % (title, error))
        return
    results = list(validio.rows(cid, io.StringIO(data_text, newline=""), on_error="yield"))
    for result in results:
        if isinstance(result, Exception):
            problems.append("%s: CID accepted, but cell rejected: %s" % (title, result))
        else:
            print("ok (accepted): %s: %r" % (title, result))


# A Text field without rule: the only reasons to reject a non-empty cell are the length and the allowed characters.
check(
    "length ','",
    'd,format,delimited\nf,name,,,",",Text\n',
    "abc\nx\n",
)
check(
    "length ',' on a field that may be empty",
    'd,format,delimited\nf,name,,x,",",Text\n',
    "abc\n",
)
check(
    "allowed characters ','",
    'd,format,delimited\nd,allowed characters,","\nf,name,,,,Text\n',
    "abc\n",
)
check(
    "length ',' with fixed data (currently refused, which is fine)",
    'd,format,fixed\nf,name,,,",",Text\n',
    "abc\n",
)

if problems:
    print("DEFECT: a range consisting only of commas declares no limit at all but rejects every non-empty cell:")
    for problem in problems:
        print("  - " + problem)
    sys.exit(1)
print("conforming")
sys.exit(0)
