"""
C12 / f2: delimited data with line delimiter 'cr' written to an io.StringIO()
(the way the project's own tests use DelimitedRowWriter) cannot be read back
from that io.StringIO(): delimited_rows() / validio.Reader fail with
"new-line character seen in unquoted field" because they rely on the stream
to split the lines, and a plain io.StringIO only splits at line feeds.

Exit code 1 = defect present, 0 = behaviour conforms.
"""
import io
import sys
import warnings

warnings.simplefilter("ignore")

from cutplace import data, errors, interface, rowio, validio  # noqa: E402

TABLE = [["a", "b"], ["c", "d"], ["e\r", "f\ng"]]


def data_format_for(line_delimiter):
    result = data.DataFormat(data.FORMAT_DELIMITED)
    result.set_property(data.KEY_ENCODING, "utf-8")
    result.set_property(data.KEY_LINE_DELIMITER, line_delimiter)
    result.validate()
    return result


def main():
    defect_count = 0

    # 1. rowio level: write to io.StringIO(), rewind, read back.
    for line_delimiter in ("any", "lf", "crlf", "cr"):
        data_format = data_format_for(line_delimiter)
        stream = io.StringIO()
        with rowio.DelimitedRowWriter(stream, data_format) as writer:
            writer.write_rows(TABLE)
        written_text = stream.getvalue()
        stream.seek(0)
        try:
            rows_read = list(rowio.delimited_rows(stream, data_format))
        except errors.DataError as error:
            rows_read = "%s: %s" % (type(error).__name__, error)
        if rows_read != TABLE:
            defect_count += 1
            print("DEFECT: rowio, line delimiter %r: wrote %r as %r but read back: %s" % (line_delimiter, TABLE, written_text, rows_read))
        else:
            print("ok: rowio, line delimiter %r" % line_delimiter)

    # 2. validio level with a CID declaring line delimiter 'cr'.
    cid = interface.Cid()
    cid.read(
        "inline",
        [
            ["d", "format", "delimited"],
            ["d", "encoding", "utf-8"],
            ["d", "line delimiter", "cr"],
            ["f", "first", "", "x"],
            ["f", "second", "", "x"],
        ],
    )
    stream = io.StringIO()
    with validio.Writer(cid, stream) as writer:
        writer.write_rows(TABLE)
    stream.seek(0)
    try:
        rows_read = list(validio.rows(cid, stream))
    except errors.DataError as error:
        rows_read = "%s: %s" % (type(error).__name__, error)
    if rows_read != TABLE:
        defect_count += 1
        print("DEFECT: validio, line delimiter 'cr': wrote %r but read back: %s" % (TABLE, rows_read))
    else:
        print("ok: validio, line delimiter 'cr'")

    return 1 if defect_count else 0


if __name__ == "__main__":
    sys.exit(main())
