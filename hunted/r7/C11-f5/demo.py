"""
C11 / f5: the data format property "Allowed characters" accepts the quoted
three character text "..." (three dots) and takes it for the single character
U+2026 (horizontal ellipsis) instead of refusing it like any other quoted text
with more than one character.
"""
import io
import sys
import warnings

warnings.simplefilter("ignore")

from cutplace import errors, interface, validio  # noqa: E402


def read_cid(allowed_characters):
    cid = interface.Cid()
    cid.read(
        "demo_cid",
        [
            ["D", "Format", "Delimited"],
            ["D", "Encoding", "utf-8"],
            ["D", "Allowed characters", allowed_characters],
            ["F", "a"],
        ],
    )
    return cid


problems = []

# Sanity: other quoted texts with more than one character are refused.
for broken in ('"ab"', '".."', '"...."', "'.,.'"):
    try:
        cid = read_cid(broken)
        problems.append("allowed characters %s accepted as %s" % (broken, cid.data_format.allowed_characters.items))
    except errors.InterfaceError:
        pass

for broken in ('"..."', "'...'", '"a", "..."'):
    try:
        cid = read_cid(broken)
    except errors.InterfaceError as error:
        print("ok: allowed characters %s refused: %s" % (broken, error))
        continue
    details = "items=%r" % (cid.data_format.allowed_characters.items,)
    try:
        list(validio.rows(cid, io.StringIO("…\n", newline="")))
        details += "; data item '\\u2026' is accepted"
    except errors.DataError as error:
        details += "; data item '\\u2026' is refused"
    try:
        list(validio.rows(cid, io.StringIO(".\n", newline="")))
        details += "; data item '.' is accepted"
    except errors.DataError as error:
        details += "; data item '.' is refused"
    problems.append("allowed characters %s (3 characters between quotes) is accepted: %s" % (broken, details))

if problems:
    print("a quoted text of three dots is taken for the single character U+2026:")
    for problem in problems:
        print("  " + problem)
    sys.exit(1)
sys.exit(0)
