"""
C08: bookkeeping of IsUnique / DistinctCount checks carries over from one data
set to the next when the second data set is validated row by row with
BaseValidator.validate_row() (a descendant of cutplace.validio.BaseValidator,
or Reader.validate_row() called directly) instead of Reader.rows().

Exit code 1: outcome on a used CID differs from the outcome on a fresh CID.
Exit code 0: outcomes are the same.
"""
import io
import sys

from cutplace import errors, interface, validio

CID_TEXT = "\n".join(
    [
        "d,format,delimited",
        "d,item delimiter,;",
        "d,encoding,utf-8",
        "f,id,,,,Integer",
        "f,branch",
        "c,id_is_unique,IsUnique,id",
        "c,few_branches,DistinctCount,branch < 3",
        "",
    ]
)
FIRST_DATA_SET = "1;a\n2;b\n"
SECOND_DATA_SET = [["1", "c"], ["3", "d"]]


class ListValidator(validio.BaseValidator):
    """
    Validator for rows held in memory, written the way the documentation of
    BaseValidator asks for: set the location, advance the row.
    """

    def __init__(self, cid):
        super().__init__(cid)
        self._location = errors.Location("<list>", has_cell=True)

    def outcome(self, rows):
        result = []
        for row in rows:
            try:
                self.validate_row(row)
                result.append("accepted %s" % row)
            except errors.DataError as error:
                result.append("rejected %s: %s" % (row, error))
            self.location.advance_line()
        try:
            self.close()
            result.append("checks at end: ok")
        except errors.CheckError as error:
            result.append("checks at end: %s" % error)
        return result


def outcome_with_descendant(cid):
    return ListValidator(cid).outcome(SECOND_DATA_SET)


def outcome_with_reader_validate_row(cid):
    result = []
    reader = validio.Reader(cid, io.StringIO(""))
    for row in SECOND_DATA_SET:
        try:
            reader.validate_row(row)
            result.append("accepted %s" % row)
        except errors.DataError as error:
            result.append("rejected %s: %s" % (row, error))
        reader.location.advance_line()
    try:
        reader.close()
        result.append("checks at end: ok")
    except errors.CheckError as error:
        result.append("checks at end: %s" % error)
    return result


def main():
    exit_code = 0
    for name, outcome in (
        ("descendant of BaseValidator", outcome_with_descendant),
        ("Reader.validate_row()", outcome_with_reader_validate_row),
    ):
        fresh_cid = interface.create_cid_from_string(CID_TEXT)
        expected = outcome(fresh_cid)

        used_cid = interface.create_cid_from_string(CID_TEXT)
        # A complete, closed, error free earlier run on another data set sharing key 1.
        validio.validate(used_cid, io.StringIO(FIRST_DATA_SET))
        actual = outcome(used_cid)

        if actual != expected:
            exit_code = 1
            print("%s: outcome depends on what the CID was used for before" % name)
            print("  fresh CID: %s" % expected)
            print("  used CID : %s" % actual)
        else:
            print("%s: ok, same outcome on fresh and used CID" % name)
    return exit_code


if __name__ == "__main__":
    sys.exit(main())
