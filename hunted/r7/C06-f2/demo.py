"""
C06: a well formed Excel file in which one row has a date cell in January or
February 1900 (for example 1900-01-15) is no malformed container. The row
should be accepted or rejected like any other row and the rows after it must
still be read. Instead cutplace stops with "cannot read broken Excel file"
(DataFormatError) in all error modes, so the later rows are neither accepted
nor rejected and 'continue' / 'yield' cannot get past it.
"""
import datetime
import os
import sys
import tempfile

from cutplace import errors, interface, rowio, validio

CID_TEXT = "d,format,excel\nf,name,,,,Text,\nf,day,,,,Text,\n"

DATA_ROWS = [
    ("a", datetime.date(2020, 1, 2)),
    ("b", datetime.date(1900, 1, 15)),
    ("c", datetime.date(2021, 3, 4)),
    ("d", datetime.date(2022, 5, 6)),
]


def main():
    cid = interface.create_cid_from_string(CID_TEXT)
    problems = []
    with tempfile.TemporaryDirectory() as folder:
        data_path = os.path.join(folder, "early_date.xlsx")
        with rowio.XlsxRowWriter(data_path) as writer:
            date_format = writer.workbook.add_format({"num_format": "yyyy-mm-dd"})
            for row_index, (name, day) in enumerate(DATA_ROWS):
                writer.worksheet.write_string(row_index, 0, name)
                writer.worksheet.write_datetime(row_index, 1, day, date_format)

        results = {}
        for on_error in ("yield", "continue", "raise"):
            reader = validio.Reader(cid, data_path, on_error=on_error)
            items = []
            raised = None
            try:
                for item in reader.rows():
                    items.append(item)
            except errors.DataError as error:
                raised = error
            try:
                reader.close()
            except errors.CutplaceError:
                pass
            results[on_error] = (items, raised, reader.accepted_rows_count, reader.rejected_rows_count)

        data_row_count = len(DATA_ROWS)
        for on_error in ("yield", "continue"):
            items, raised, accepted, rejected = results[on_error]
            if isinstance(raised, errors.DataFormatError):
                problems.append(
                    "on_error=%r: the (well formed) file was given up with %s: %s; only %d of %d data rows were "
                    "produced, accepted=%r + rejected=%r != %d"
                    % (on_error, type(raised).__name__, raised, len(items), data_row_count, accepted, rejected,
                       data_row_count)
                )
            elif raised is not None:
                problems.append("on_error=%r: raised %r" % (on_error, raised))
            elif (accepted + rejected) != data_row_count:
                problems.append(
                    "on_error=%r: accepted=%r + rejected=%r != %d" % (on_error, accepted, rejected, data_row_count)
                )
        items, raised, _, _ = results["raise"]
        if isinstance(raised, errors.DataFormatError):
            problems.append("on_error='raise': %s: %s after rows %r" % (type(raised).__name__, raised, items))
        # The names of the rows after the early date must show up in 'continue' mode.
        names_seen = [item[0] for item in results["continue"][0]]
        for expected_name in ("a", "c", "d"):
            if expected_name not in names_seen:
                problems.append("on_error='continue': row %r is missing from the result %r" % (expected_name, names_seen))

    if problems:
        print("DEFECT: a date cell in early 1900 makes cutplace treat a valid Excel file as broken container:")
        for problem in problems:
            print("  " + problem)
        return 1
    print("ok: all %d rows are accounted for in every mode" % len(DATA_ROWS))
    return 0


if __name__ == "__main__":
    sys.exit(main())
