"""
C16 / f1: a pure time cell within the last half second of the day (for example 23:59:59.9, as produced by
=MOD(NOW(),1) or by any import of sub-second times) makes the whole Excel workbook unreadable instead of
being rendered as 'hh:mm:ss'.
"""
import os
import re
import sys
import tempfile
import zipfile

from cutplace import errors, rowio

NS_MAIN = "http://schemas.openxmlformats.org/spreadsheetml/2006/main"
NS_REL = "http://schemas.openxmlformats.org/officeDocument/2006/relationships"
NS_PKG = "http://schemas.openxmlformats.org/package/2006/relationships"
HEAD = '<?xml version="1.0" encoding="UTF-8" standalone="yes"?>'


def write_xlsx(path, time_serials):
    """Independent minimal xlsx producer: column A holds a text, column B a time cell (format hh:mm:ss)."""
    rows = "".join(
        '<row r="%d"><c r="A%d" t="inlineStr"><is><t>row%d</t></is></c><c r="B%d" s="1"><v>%s</v></c></row>'
        % (y, y, y, y, serial)
        for y, serial in enumerate(time_serials, 1)
    )
    parts = {
        "[Content_Types].xml": HEAD
        + '<Types xmlns="http://schemas.openxmlformats.org/package/2006/content-types">'
        '<Default Extension="rels" ContentType="application/vnd.openxmlformats-package.relationships+xml"/>'
        '<Default Extension="xml" ContentType="application/xml"/>'
        '<Override PartName="/xl/workbook.xml" ContentType="application/vnd.openxmlformats-officedocument.spreadsheetml.sheet.main+xml"/>'
        '<Override PartName="/xl/worksheets/sheet1.xml" ContentType="application/vnd.openxmlformats-officedocument.spreadsheetml.worksheet+xml"/>'
        '<Override PartName="/xl/styles.xml" ContentType="application/vnd.openxmlformats-officedocument.spreadsheetml.styles+xml"/>'
        "</Types>",
        "_rels/.rels": HEAD
        + '<Relationships xmlns="%s"><Relationship Id="rId1" Type="%s/officeDocument" Target="xl/workbook.xml"/></Relationships>'
        % (NS_PKG, NS_REL),
        "xl/_rels/workbook.xml.rels": HEAD
        + '<Relationships xmlns="%s">'
        '<Relationship Id="rId1" Type="%s/worksheet" Target="worksheets/sheet1.xml"/>'
        '<Relationship Id="rId2" Type="%s/styles" Target="styles.xml"/>'
        "</Relationships>" % (NS_PKG, NS_REL, NS_REL),
        "xl/workbook.xml": HEAD
        + '<workbook xmlns="%s" xmlns:r="%s"><sheets><sheet name="times" sheetId="1" r:id="rId1"/></sheets></workbook>'
        % (NS_MAIN, NS_REL),
        "xl/styles.xml": HEAD
        + '<styleSheet xmlns="%s">'
        '<numFmts count="1"><numFmt numFmtId="164" formatCode="hh:mm:ss"/></numFmts>'
        '<fonts count="1"><font><sz val="11"/><name val="Calibri"/></font></fonts>'
        '<fills count="1"><fill><patternFill patternType="none"/></fill></fills>'
        '<borders count="1"><border><left/><right/><top/><bottom/><diagonal/></border></borders>'
        '<cellStyleXfs count="1"><xf numFmtId="0" fontId="0" fillId="0" borderId="0"/></cellStyleXfs>'
        '<cellXfs count="2"><xf numFmtId="0" fontId="0" fillId="0" borderId="0" xfId="0"/>'
        '<xf numFmtId="164" fontId="0" fillId="0" borderId="0" xfId="0" applyNumberFormat="1"/></cellXfs>'
        "</styleSheet>" % NS_MAIN,
        "xl/worksheets/sheet1.xml": HEAD + '<worksheet xmlns="%s"><sheetData>%s</sheetData></worksheet>' % (NS_MAIN, rows),
    }
    with zipfile.ZipFile(path, "w", zipfile.ZIP_DEFLATED) as xlsx_zip:
        for name, content in parts.items():
            xlsx_zip.writestr(name, content)


def main():
    # 12:00:00, 23:59:59.4 (rounds down, works), 23:59:59.9 (the failing one).
    serials = ["0.5", repr(86399.4 / 86400), repr(86399.9 / 86400)]
    failed = False
    with tempfile.TemporaryDirectory() as folder:
        # Control: without the late time everything is fine.
        control_path = os.path.join(folder, "control.xlsx")
        write_xlsx(control_path, serials[:2])
        control_rows = list(rowio.excel_rows(control_path))
        print("control rows:", control_rows)
        if control_rows != [["row1", "12:00:00"], ["row2", "23:59:59"]]:
            print("unexpected control rows (demo itself is broken?)")
            return 2

        path = os.path.join(folder, "late_time.xlsx")
        write_xlsx(path, serials)
        try:
            rows = list(rowio.excel_rows(path))
        except errors.DataFormatError as error:
            print("DEFECT: workbook with the pure time 23:59:59.9 (serial %s) cannot be read at all: %s" % (serials[2], error))
            failed = True
        else:
            print("rows:", rows)
            for row in rows:
                if (len(row) != 2) or not re.match(r"^\d\d:\d\d:\d\d$", row[1]):
                    print("DEFECT: pure time is not rendered as hh:mm:ss: %r" % row)
                    failed = True
            if rows[:2] != control_rows:
                print("DEFECT: other rows changed: %r" % rows[:2])
                failed = True
    return 1 if failed else 0


if __name__ == "__main__":
    sys.exit(main())
