"""
C11 / f3: Header, Sheet and the item delimiter code accept number spellings
only Python can read (digit group underscores, and for the item delimiter
octal / binary literals) instead of refusing them: "Header: 1_0" silently
skips 10 rows.
"""
import io
import sys
import warnings

warnings.simplefilter("ignore")

from cutplace import errors, interface, validio  # noqa: E402


def read_cid(data_format_name, name, value):
    cid = interface.Cid()
    cid.read(
        "demo_cid",
        [
            ["D", "Format", data_format_name],
            ["D", name, value],
            ["F", "a"],
        ],
    )
    return cid


problems = []

# Header "1_0" is no non-negative integer anybody but Python can read.
try:
    cid = read_cid("Delimited", "Header", "1_0")
    rows = list(validio.rows(cid, io.StringIO("".join("r%d\n" % number for number in range(1, 13)), newline="")))
    problems.append(
        "Header '1_0' is accepted as %r; of 12 data rows only %r are read" % (cid.data_format.header, rows)
    )
except errors.InterfaceError as error:
    print("ok: Header '1_0' refused: %s" % error)

for data_format_name in ("Excel", "ODS"):
    try:
        cid = read_cid(data_format_name, "Sheet", "1_0")
        problems.append("%s: Sheet '1_0' is accepted as %r" % (data_format_name, cid.data_format.sheet))
    except errors.InterfaceError as error:
        print("ok: %s: Sheet '1_0' refused: %s" % (data_format_name, error))

# Documented item delimiter codes are decimal ("44") and hex ("0x2c").
for value in ("4_4", "0x2_c"):
    try:
        cid = read_cid("Delimited", "Item delimiter", value)
        problems.append("Item delimiter %r is accepted as %r" % (value, cid.data_format.item_delimiter))
    except errors.InterfaceError as error:
        print("ok: Item delimiter %r refused: %s" % (value, error))
# For information only (does not influence the exit code): octal and binary codes are not documented either.
for value in ("0o54", "0b101100"):
    try:
        cid = read_cid("Delimited", "Item delimiter", value)
        print("note: Item delimiter %r is accepted as %r" % (value, cid.data_format.item_delimiter))
    except errors.InterfaceError as error:
        print("note: Item delimiter %r refused: %s" % (value, error))

# Sanity: the documented spellings work.
assert read_cid("Delimited", "Header", "10").data_format.header == 10
assert read_cid("Delimited", "Item delimiter", "44").data_format.item_delimiter == ","
assert read_cid("Delimited", "Item delimiter", "0x2c").data_format.item_delimiter == ","

if problems:
    print("number spellings only Python can read are accepted as data format property values:")
    for problem in problems:
        print("  " + problem)
    sys.exit(1)
sys.exit(0)
