"""
C14 / f3: delimited CID with a blank as item delimiter and 'skip initial
space': the Writer accepts a row with an empty cell that is followed by
another cell and emits the empty cell as nothing at all, so two item
delimiters touch. Reading the output back under the same CID takes the second
blank for an initial space to skip and the row comes back with fewer items,
so it is rejected ("row must contain 3 fields but only has 2").
"""
import io
import sys
import warnings

warnings.simplefilter("ignore")

from cutplace import errors, interface, validio  # noqa: E402

CID_ROWS = [
    ["d", "format", "delimited"],
    ["d", "item delimiter", "32"],
    ["d", "skip initial space", "true"],
    ["d", "line delimiter", "lf"],
    ["f", "surname"],
    ["f", "middle_name", "", "X"],
    ["f", "first_name"],
]
ROWS = [["Doe", "F", "John"], ["Miller", "", "Jane"], ["Doe"], ["Smith", "", "Bob"]]
EXPECTED_ACCEPTED_ROWS = [ROWS[0], ROWS[1], ROWS[3]]

cid = interface.Cid()
cid.read("inline", CID_ROWS)

target = io.StringIO(newline="")
accepted = []
with validio.Writer(cid, target) as writer:
    for row in ROWS:
        try:
            writer.write_row(row)
            accepted.append(row)
        except errors.DataError:
            pass
text = target.getvalue()

if accepted != EXPECTED_ACCEPTED_ROWS:
    # A writer that refuses rows it cannot represent would conform, too, as long as the rest can be read back.
    print("note: accepted rows are %r" % accepted)

try:
    with validio.Reader(cid, io.StringIO(text, newline="")) as reader:
        rows_read = list(reader.rows())
except errors.DataError as error:
    print("C14 violated: the Writer accepted %r and wrote %r," % (accepted, text))
    print("  but reading this back under the same CID fails with %s: %s" % (type(error).__name__, error))
    sys.exit(1)
if rows_read != accepted:
    print("C14 violated: the Writer accepted %r and wrote %r, but the rows read back are %r" % (accepted, text, rows_read))
    sys.exit(1)
print("ok: %r reads back as %r" % (text, rows_read))
sys.exit(0)
