"""
C09: every check must have a rule naming only declared fields. The rule of a
DistinctCount check is only test-evaluated once with count=0, so an undeclared name in a
part of the expression that is not reached with count=0 is accepted.
"""
import io
import re
import sys
import warnings

warnings.simplefilter("ignore")

from cutplace import errors, interface

BASE = [["d", "format", "delimited"], ["f", "branch_id", "", "", "", "Text", ""]]


def outcome(rule):
    cid = interface.Cid()
    try:
        cid.read("cid.csv", BASE + [["c", "distinct branches", "DistinctCount", rule]])
    except errors.InterfaceError as error:
        return "rejected", str(error), None
    return "accepted", "", cid


# Reference: an undeclared name that is reached with count=0 is refused at the check row.
state, text, _ = outcome("branch_id < no_such_field")
assert state == "rejected" and re.search(r"\(R3C\d+\)", text), (state, text)

problems = []
for rule in [
    "branch_id < 1 or no_such_field > 3",
    "branch_id == 0 or branch_id < no_such_field",
    "branch_id > 0 and no_such_field < 5",
]:
    state, text, cid = outcome(rule)
    if state == "accepted":
        problems.append(rule)

if problems:
    print("CID accepted although the rule of the DistinctCount check names the undeclared field 'no_such_field':")
    for rule in problems:
        print("  " + rule)
    sys.exit(1)
print("ok: rules naming undeclared fields are rejected")
sys.exit(0)
