"""
A Decimal field of delimited data accepts cells that are no number written with the decimal
and thousands separator of the data format: blanks, tabs or line feeds around the number and
underscores between the digits.
"""
import io
import sys
import warnings
from decimal import Decimal

warnings.simplefilter("ignore")

from cutplace import errors, interface, validio  # noqa: E402

CID_TEXTS = {
    "dot": "d,format,delimited\nd,item delimiter,;\nf,price,,,,Decimal,0...100\n",
    "comma": (
        'd,format,delimited\nd,item delimiter,;\nd,decimal separator,","\nd,thousands separator,.\n'
        "f,price,,,,Decimal,0...100\n"
    ),
}
#: Cells that must be rejected (written for decimal separator dot).
BROKEN_CELLS = [" 1.5", "1.5 ", "\t1.5", "1.5\n", "\u00a01.5", "1_0.5", "1.2_5"]
#: Cells that must be accepted and the ``Decimal`` they denote (written for decimal separator dot).
VALID_CELLS = [("1.5", Decimal("1.5")), ("10.25", Decimal("10.25")), ("100", Decimal(100)), ("0.5", Decimal("0.5"))]


def main():
    problems = []
    for convention, cid_text in sorted(CID_TEXTS.items()):
        cid = interface.create_cid_from_string(cid_text)
        field_format = cid.field_format_for("price")

        def localized(cell):
            return cell if convention == "dot" else cell.replace(".", ",")

        for cell, expected in VALID_CELLS:
            cell = localized(cell)
            try:
                actual = field_format.validated(cell)
                if actual != expected:
                    problems.append("%s: cell %r is returned as %r instead of %r" % (convention, cell, actual, expected))
            except errors.FieldValueError as error:
                problems.append("%s: cell %r is rejected: %s" % (convention, cell, error))
        for cell in BROKEN_CELLS:
            cell = localized(cell)
            try:
                actual = field_format.validated(cell)
                problems.append("%s: cell %r is no decimal number but is accepted as %r" % (convention, cell, actual))
            except errors.FieldValueError:
                pass

        # The same using a reader on a delimited file.
        data_text = '"%s"\n%s\n' % (localized("1.5 "), localized("1_0.5"))
        with validio.Reader(cid, io.StringIO(data_text), on_error="yield") as reader:
            for row_or_error in reader.rows():
                if not isinstance(row_or_error, errors.DataError):
                    problems.append("%s: Reader accepts the row %r" % (convention, row_or_error))

    if problems:
        print("DEFECT: Decimal field with rule 0...100 of delimited data:")
        for problem in problems:
            print("  " + problem)
        return 1
    print("ok: only decimal numbers accepted")
    return 0


if __name__ == "__main__":
    sys.exit(main())
