"""
C16 / f2: after XlsxRowWriter.write_row() rejected a row (DataFormatError, for example because an item has more
than 32767 characters), the writer keeps the items of the rejected row that preceded the broken item and does not
reset its cell position, so the next accepted row is appended to the remains of the rejected row. The table that
was written without errors does not read back identically.
"""
import os
import sys
import tempfile

from cutplace import errors, rowio


def main():
    accepted_rows = []
    with tempfile.TemporaryDirectory() as folder:
        path = os.path.join(folder, "rejected_row.xlsx")
        with rowio.XlsxRowWriter(path) as writer:
            for row in (["1", "2", "3"], ["a", "x" * 32768, "c"], ["4", "5", "6"]):
                try:
                    writer.write_row(row)
                    accepted_rows.append(row)
                except errors.DataFormatError as error:
                    print("rejected row starting with %r: %s..." % (row[0], str(error)[:90]))
        read_rows = list(rowio.excel_rows(path))
    print("rows accepted by write_row():", accepted_rows)
    print("rows read back              :", read_rows)
    if read_rows != accepted_rows:
        print("DEFECT: the table written with XlsxRowWriter does not read back identically")
        return 1
    return 0


if __name__ == "__main__":
    sys.exit(main())
