"""
C05 / f2: the validation of the GUI (cutplace.gui.CutplaceFrame.validate)
reads all rows but never finishes the validation (no Reader.close()), so a
violated DistinctCount check is never reported.

The demo does not need a display: it calls CutplaceFrame.validate() with a
small stand-in for the frame that only collects the lines of the validation
report.
"""
import os
import shutil
import sys
import tempfile

from cutplace import errors, gui, validio

CID_TEXT = "\n".join(
    [
        "D,Format,Delimited",
        "D,Encoding,utf-8",
        'D,Item delimiter,","',
        "F,branch_id,,,,Text",
        "F,customer_id,,,,Text",
        "C,at most 2 distinct branches,DistinctCount,branch_id <= 2",
    ]
)
DATA_TEXT = "b1,1\r\nb2,2\r\nb3,3\r\nb4,4\r\n"


class _ReportText(object):
    def __init__(self):
        self.lines = []

    def config(self, **_):
        pass

    configure = config

    def insert(self, _index, text):
        self.lines.extend(text.splitlines())

    def see(self, _index):
        pass

    def delete(self, *_):
        self.lines = []

    def get(self, *_):
        return "\n".join(self.lines)


class _StatusText(object):
    def set(self, _text):
        pass


class _Master(object):
    def update(self):
        pass


class _FrameStandIn(object):
    def __init__(self, cid_path, data_path):
        self.cid_path = cid_path
        self.data_path = data_path
        self._validation_report_text = _ReportText()
        self._validation_status_text = _StatusText()
        self.master = _Master()

    def clear_validation_report_text(self):
        self._validation_report_text.delete()

    def _enable_usable_widgets(self):
        pass


def main():
    if not gui.has_tk:
        print("tkinter is not available, cannot examine the GUI")
        return 0
    folder = tempfile.mkdtemp(prefix="c05_f2_")
    try:
        cid_path = os.path.join(folder, "cid_branches.csv")
        data_path = os.path.join(folder, "branches.csv")
        with open(cid_path, "w", encoding="utf-8", newline="") as cid_file:
            cid_file.write(CID_TEXT)
        with open(data_path, "w", encoding="utf-8", newline="") as data_file:
            data_file.write(DATA_TEXT)

        # Reference: the API and the command line finish the validation and fail.
        try:
            validio.validate(cid_path, data_path)
            print("validio.validate() accepts the data, cannot demonstrate anything")
            return 0
        except errors.CheckError as error:
            print("validio.validate() fails as required: %s" % error)

        frame = _FrameStandIn(cid_path, data_path)
        gui.CutplaceFrame.validate(frame)
        report_lines = frame._validation_report_text.lines
        print("validation report of the GUI:")
        for line in report_lines:
            print("    " + line)
    finally:
        shutil.rmtree(folder, ignore_errors=True)

    if not any("ERROR" in line for line in report_lines):
        print(
            "DEFECT: the data have 4 distinct branch_id but the check requires 'branch_id <= 2'; "
            "the GUI validation reports no error at all because it never performs the checks at the end"
        )
        return 1
    print("ok")
    return 0


if __name__ == "__main__":
    sys.exit(main())
