"""
C05 / f1: a row that validio.Writer rejects AFTER the checks ran (the row
writer cannot encode it, DataFormatError) still registers its IsUnique key
and its DistinctCount value.
"""
import os
import shutil
import sys
import tempfile

from cutplace import errors, interface, validio

CID_TEXT = "\n".join(
    [
        "D,Format,Delimited",
        "D,Encoding,ascii",
        'D,Item delimiter,","',
        "F,id,,,,Text",
        "F,name,,,,Text",
        "C,id must be unique,IsUnique,id",
        "C,at most 1 distinct id,DistinctCount,id <= 1",
    ]
)


def main():
    problems = []
    cid = interface.create_cid_from_string(CID_TEXT)
    folder = tempfile.mkdtemp(prefix="c05_f1_")
    try:
        target_path = os.path.join(folder, "out.csv")
        writer = validio.Writer(cid, target_path)

        # Row 1: passes all fields and checks but cannot be written using ASCII -> rejected.
        try:
            writer.write_row(["1", "café"])
            print("note: first row was written, cannot demonstrate anything")
            return 0
        except errors.DataError as error:
            print("row ['1', 'caf\\xe9'] rejected (as expected): %s" % error)

        # Row 2: same key as the rejected row; no ACCEPTED row has this key so far.
        try:
            writer.write_row(["1", "cafe"])
            print("row ['1', 'cafe'] accepted")
        except errors.CheckError as error:
            problems.append(
                "row ['1', 'cafe'] is rejected as duplicate although no accepted row has id '1': %s" % error
            )

        # Row 3: another row rejected by the row writer, with a new id.
        try:
            writer.write_row(["2", "café"])
        except errors.DataError:
            pass

        # At most the id '1' reached the output (and possibly not even that one), so 'id <= 1' holds
        # for the accepted rows.
        try:
            writer.close()
            print("close() accepted the distinct count")
        except errors.CheckError as error:
            problems.append("close() fails although the accepted rows have at most 1 distinct id: %s" % error)
        with open(target_path, "r", encoding="ascii") as target_file:
            print("written data: %r" % target_file.read())
    finally:
        shutil.rmtree(folder, ignore_errors=True)

    if problems:
        for problem in problems:
            print("DEFECT: " + problem)
        return 1
    print("ok")
    return 0


if __name__ == "__main__":
    sys.exit(main())
