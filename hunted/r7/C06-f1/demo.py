"""
C06: a broken Excel archive (xlsx = ZIP) must stop reading with a
DataFormatError in every error mode. With a damaged "offset of central
directory" in the ZIP trailer, cutplace lets a plain OSError escape instead
(and the command line consequently reports exit code 3 "cannot read data
file" instead of a data error).
"""
import os
import struct
import sys
import tempfile

from cutplace import errors, interface, rowio, validio

CID_TEXT = "d,format,excel\nf,name,,,,Text,\nf,size,,,,Integer,0...99\n"


def main():
    cid = interface.create_cid_from_string(CID_TEXT)
    problems = []
    with tempfile.TemporaryDirectory() as folder:
        good_path = os.path.join(folder, "good.xlsx")
        with rowio.XlsxRowWriter(good_path) as writer:
            writer.write_rows([["a", "1"], ["b", "2"], ["c", "3"]])

        # Sanity check: the undamaged file has 3 accepted rows.
        reader = validio.Reader(cid, good_path, on_error="yield")
        good_rows = list(reader.rows())
        reader.close()
        assert good_rows == [["a", "1"], ["b", "2"], ["c", "3"]], good_rows

        with open(good_path, "rb") as good_file:
            good_bytes = good_file.read()
        eocd_index = good_bytes.rfind(b"PK\x05\x06")
        assert eocd_index >= 0
        (offset_of_central_directory,) = struct.unpack("<L", good_bytes[eocd_index + 16 : eocd_index + 20])

        for delta in (0x100, 0xFF00, 0x10000, 0x1000000):
            broken_bytes = (
                good_bytes[: eocd_index + 16]
                + struct.pack("<L", offset_of_central_directory + delta)
                + good_bytes[eocd_index + 20 :]
            )
            broken_path = os.path.join(folder, "broken_%x.xlsx" % delta)
            with open(broken_path, "wb") as broken_file:
                broken_file.write(broken_bytes)
            for on_error in ("yield", "continue", "raise"):
                reader = validio.Reader(cid, broken_path, on_error=on_error)
                items = []
                try:
                    for item in reader.rows():
                        items.append(item)
                    outcome = "no error at all, items=%r" % items
                    is_conforming = items == good_rows  # damage without effect would be fine
                except errors.DataFormatError as error:
                    outcome = "DataFormatError: %s" % error
                    is_conforming = True
                except Exception as error:
                    outcome = "%s: %s" % (type(error).__name__, error)
                    is_conforming = False
                finally:
                    try:
                        reader.close()
                    except errors.CutplaceError:
                        pass
                if not is_conforming:
                    problems.append(
                        "xlsx with offset of central directory increased by 0x%x, on_error=%r: expected "
                        "DataFormatError but got %s" % (delta, on_error, outcome)
                    )
    if problems:
        print("DEFECT: broken Excel archive does not end in a data-format error:")
        for problem in problems:
            print("  " + problem)
        return 1
    print("ok: broken Excel archive is reported as DataFormatError in every mode")
    return 0


if __name__ == "__main__":
    sys.exit(main())
