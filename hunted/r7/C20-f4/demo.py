"""
C20 / f4: a Reader can read its rows a second time (rows() starts again with
the first row and resets the checks) but when this happens after close(), the
second run can never be closed: close() silently does nothing, so no check is
asked for its end-of-data verdict or cleaned up and a failed check at the end
goes unnoticed.

The protocol says that for each data set every check is reset once before the
first row, ..., is asked for its end-of-data verdict once in declaration order
when the run is closed, after which every check is cleaned up.
"""
import os
import sys
import tempfile

from cutplace import checks, errors, interface, validio

CALLS = []


class F4RecordingCheck(checks.AbstractCheck):
    def __init__(self, description, rule, available_field_names, location_of_definition=None):
        super().__init__(description, rule, available_field_names, location_of_definition)
        self._row_count = 0

    def reset(self):
        CALLS.append("reset")
        self._row_count = 0

    def check_row(self, field_name_to_value_map, location):
        CALLS.append("row")
        self._row_count += 1

    def check_at_end(self, location):
        CALLS.append("end")
        if self._row_count < 3:
            raise errors.CheckError("data must contain at least 3 rows but have only %d" % self._row_count, location)

    def cleanup(self):
        CALLS.append("cleanup")


def run(reader):
    """Calls of the check for one validation of all rows using ``reader`` followed by close()."""
    del CALLS[:]
    error = None
    try:
        reader.validate_rows()
        reader.close()
    except errors.CheckError as check_error:
        error = check_error
    except (AssertionError, errors.CutplaceError, ValueError, RuntimeError) as refusal:
        # Refusing to use a closed Reader is a conforming way to deal with this.
        print("run refused: %s: %s" % (type(refusal).__name__, refusal))
        return None, refusal
    return list(CALLS), error


with tempfile.TemporaryDirectory() as folder:
    data_path = os.path.join(folder, "data_f4.csv")
    with open(data_path, "w", encoding="cp1252") as data_file:
        data_file.write("alice\nbob\n")
    cid = interface.create_cid_from_string("d,format,delimited\nf,name\nc,enough_rows,F4Recording,\n")
    reader = validio.Reader(cid, data_path)
    first_calls, first_error = run(reader)
    second_calls, second_error = run(reader)

expected_calls = ["reset", "row", "row", "end", "cleanup"]
print("1st run: calls=%r, error=%s" % (first_calls, first_error))
print("2nd run: calls=%r, error=%s" % (second_calls, second_error))
problems = []
if first_calls != expected_calls or first_error is None:
    problems.append("1st run must call %r and fail at the end" % expected_calls)
if second_calls is None:
    pass
elif second_calls != expected_calls:
    problems.append("2nd run on the same Reader: calls are %r but must be %r" % (second_calls, expected_calls))
elif second_error is None:
    problems.append("2nd run on the same Reader: close() must report the check that fails at the end (only 2 rows)")
if problems:
    print("DEFECT: a run started with rows() after close() cannot be closed")
    for problem in problems:
        print("  " + problem)
    sys.exit(1)
print("ok: every run of rows() can be closed")
sys.exit(0)
