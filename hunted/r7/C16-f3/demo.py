"""
C16 / f3: texts that contain the literal characters '_x005F' directly in front of something that is escaped in
xlsx (a control character such as carriage return, or another literal '_xHHHH_' sequence) are changed by a round
trip through XlsxRowWriter and excel_rows().
"""
import os
import sys
import tempfile

from cutplace import rowio


def main():
    table = [
        ["plain", "_x0041_", "_x005F_"],  # these work
        ["_x005F\r", "_x005F_x0041_", "a_x005F\x01b"],  # these do not
    ]
    with tempfile.TemporaryDirectory() as folder:
        path = os.path.join(folder, "escapes.xlsx")
        with rowio.XlsxRowWriter(path) as writer:
            writer.write_rows(table)
        read_table = list(rowio.excel_rows(path))
    failed = False
    for written_row, read_row in zip(table, read_table):
        for written_item, read_item in zip(written_row, read_row):
            if written_item != read_item:
                print("DEFECT: wrote %r but read back %r" % (written_item, read_item))
                failed = True
    if not failed and read_table != table:
        print("DEFECT: wrote %r but read back %r" % (table, read_table))
        failed = True
    if not failed:
        print("table reads back identically")
    return 1 if failed else 0


if __name__ == "__main__":
    sys.exit(main())
