"""
A Decimal field removes every thousands separator in front of the decimal separator no matter
where it is, so cells that are no number at all are accepted: a thousands separator at the
start, two of them in a row, one directly before the decimal separator or one within the
exponent.
"""
import io
import sys
import warnings
from decimal import Decimal

warnings.simplefilter("ignore")

from cutplace import errors, interface, validio  # noqa: E402

CID_TEXTS = {
    # decimal separator, thousands separator
    (".", ","): 'd,format,delimited\nd,item delimiter,;\nd,thousands separator,","\nf,price,,,,Decimal,0...99999999\n',
    (",", "."): (
        'd,format,delimited\nd,item delimiter,;\nd,decimal separator,","\nd,thousands separator,.\n'
        "f,price,,,,Decimal,0...99999999\n"
    ),
}
#: Cells that must be rejected; "D" is the decimal separator and "T" the thousands separator.
BROKEN_CELLS = ["T1D5", "TT1", "1TT000D5", "1TD5", "T", "1e0T1", "1TTTTT2", "T1T2T3T"]
#: Cells that must be accepted and the ``Decimal`` they denote.
VALID_CELLS = [("1T000D5", Decimal("1000.5")), ("12T345T678", Decimal(12345678)), ("1D5", Decimal("1.5")), ("7", 7)]


def main():
    problems = []
    for (decimal_separator, thousands_separator), cid_text in sorted(CID_TEXTS.items()):
        cid = interface.create_cid_from_string(cid_text)
        field_format = cid.field_format_for("price")
        convention = "decimal separator %r, thousands separator %r" % (decimal_separator, thousands_separator)

        def localized(cell):
            return cell.replace("D", decimal_separator).replace("T", thousands_separator)

        for cell, expected in VALID_CELLS:
            cell = localized(cell)
            try:
                actual = field_format.validated(cell)
                if actual != expected:
                    problems.append("%s: cell %r is returned as %r instead of %r" % (convention, cell, actual, expected))
            except errors.FieldValueError as error:
                problems.append("%s: cell %r is rejected: %s" % (convention, cell, error))
        for cell in BROKEN_CELLS:
            cell = localized(cell)
            try:
                actual = field_format.validated(cell)
                problems.append("%s: cell %r is no number but is accepted as %r" % (convention, cell, actual))
            except errors.FieldValueError:
                pass

        # The same using a reader on a delimited file.
        data_text = '"%s"\n"%s"\n' % (localized("T1D5"), localized("1TT000D5"))
        with validio.Reader(cid, io.StringIO(data_text), on_error="yield") as reader:
            for row_or_error in reader.rows():
                if not isinstance(row_or_error, errors.DataError):
                    problems.append("%s: Reader accepts the row %r" % (convention, row_or_error))

    if problems:
        print("DEFECT: Decimal field with rule 0...99999999 of delimited data:")
        for problem in problems:
            print("  " + problem)
        return 1
    print("ok: thousands separators only accepted between digits")
    return 0


if __name__ == "__main__":
    sys.exit(main())
