"""
C17 / f1: a text cell ending in " 00:00:00" in a DateTime field without time
place holders gets a different verdict under Format=Excel than the very same
text cell gets under Format=Delimited and Format=ODS.

The same one-column table of TEXT cells is stored as delimited text, as ODS
and as Excel (written with cutplace's own XlsxRowWriter as explicit string
cells). The three CIDs differ only in their Format property.

Exit code 1 = verdicts differ (defect present), 0 = all three formats agree.
"""
import io
import os
import shutil
import sys
import tempfile
import warnings
import zipfile
from xml.sax.saxutils import escape

warnings.simplefilter("ignore")

from cutplace import errors, interface, rowio, validio  # noqa: E402

CID_TEMPLATE = """d,Format,%s
d,Encoding,utf-8
 ,name,example,empty,length,type,rule
f,day,,,,DateTime,%s
"""

_ODS_NAMESPACES = (
    'xmlns:office="urn:oasis:names:tc:opendocument:xmlns:office:1.0" '
    'xmlns:table="urn:oasis:names:tc:opendocument:xmlns:table:1.0" '
    'xmlns:text="urn:oasis:names:tc:opendocument:xmlns:text:1.0"'
)


def write_delimited(path, table):
    import csv

    with io.open(path, "w", newline="", encoding="utf-8") as target:
        csv.writer(target).writerows(table)


def write_ods(path, table):
    rows_xml = ""
    for row in table:
        rows_xml += "<table:table-row>"
        for cell in row:
            rows_xml += '<table:table-cell office:value-type="string"><text:p>%s</text:p></table:table-cell>' % escape(
                cell
            )
        rows_xml += "</table:table-row>"
    content = (
        '<?xml version="1.0" encoding="UTF-8"?><office:document-content %s office:version="1.2">'
        '<office:body><office:spreadsheet><table:table table:name="Sheet1">%s</table:table>'
        "</office:spreadsheet></office:body></office:document-content>" % (_ODS_NAMESPACES, rows_xml)
    )
    with zipfile.ZipFile(path, "w") as ods_zip:
        ods_zip.writestr("mimetype", "application/vnd.oasis.opendocument.spreadsheet")
        ods_zip.writestr("content.xml", content.encode("utf-8"))


def write_excel(path, table):
    # XlsxRowWriter stores str items with write_string(), i.e. as text cells.
    with rowio.XlsxRowWriter(path) as writer:
        writer.write_rows(table)


STORAGES = (
    ("Delimited", "data.csv", write_delimited),
    ("ODS", "data.ods", write_ods),
    ("Excel", "data.xlsx", write_excel),
)


def verdicts(folder, rule, table):
    """Map format name -> list of per row verdicts ('accepted' or 'rejected')."""
    result = {}
    for format_name, data_name, write in STORAGES:
        data_path = os.path.join(folder, data_name)
        write(data_path, table)
        # Make sure all three storages really hold the same text cells.
        if format_name == "Delimited":
            stored = [row for row in rowio.auto_rows(data_path)]
        elif format_name == "ODS":
            stored = list(rowio.ods_rows(data_path))
        else:
            stored = list(rowio.excel_rows(data_path))
        assert stored == table, "storage %s must hold %r but holds %r" % (format_name, table, stored)
        cid = interface.create_cid_from_string(CID_TEMPLATE % (format_name, rule))
        row_verdicts = []
        with validio.Reader(cid, data_path, on_error="yield") as reader:
            for row_or_error in reader.rows():
                row_verdicts.append("rejected" if isinstance(row_or_error, errors.DataError) else "accepted")
        result[format_name] = row_verdicts
    return result


def main():
    folder = tempfile.mkdtemp(prefix="c17_f1_")
    failures = []
    try:
        # Direction 1: text that does NOT match the rule is accepted under Excel only.
        # Direction 2: text that DOES match the (date only) rule is rejected under Excel only.
        cases = [
            ("YYYY-MM-DD", [["2020-01-31"], ["2020-01-31 00:00:00"], ["2020-01-31 00:00:01"]]),
            ("DD.MM.YYYY", [["31.01.2020 00:00:00"]]),
            ("YYYY-MM-DD 00:00:00", [["2020-01-31 00:00:00"]]),
        ]
        for rule, table in cases:
            format_to_verdicts = verdicts(folder, rule, table)
            print("rule %r, text cells %r" % (rule, [row[0] for row in table]))
            for format_name, _, _ in STORAGES:
                print("  Format=%-9s -> %s" % (format_name, format_to_verdicts[format_name]))
            if len(set(tuple(v) for v in format_to_verdicts.values())) != 1:
                failures.append("rule %r: per row verdicts depend on the format: %r" % (rule, format_to_verdicts))

        # Same thing for the example column of the CID: CIDs that differ only in Format
        # do not load alike.
        load_outcomes = {}
        for format_name, _, _ in STORAGES:
            cid_text = (
                "d,Format,%s\nd,Encoding,utf-8\nf,day,2020-01-31 00:00:00,,,DateTime,YYYY-MM-DD\n" % format_name
            )
            try:
                interface.create_cid_from_string(cid_text)
                load_outcomes[format_name] = "loaded"
            except errors.InterfaceError as error:
                load_outcomes[format_name] = "InterfaceError"
        print("CID with example '2020-01-31 00:00:00' for DateTime rule YYYY-MM-DD: %r" % load_outcomes)
        if len(set(load_outcomes.values())) != 1:
            failures.append("CIDs differing only in Format do not load alike: %r" % load_outcomes)
    finally:
        shutil.rmtree(folder, ignore_errors=True)

    if failures:
        print("DEFECT: the storage format changes the verdict for the same text cells:")
        for failure in failures:
            print("  - " + failure)
        return 1
    print("OK: all formats agree")
    return 0


if __name__ == "__main__":
    sys.exit(main())
