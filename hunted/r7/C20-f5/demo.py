"""
C20 / f5: when a user-defined field format (or check) class is defined again
under the same name in the same module - for example by running a factory
function or a notebook cell again - while the earlier class object still
exists, a CID resolves the name to an arbitrary one of these classes. Which
one depends on the iteration order of a set of classes and changes from one
Cid() to the next, so a CID created after the redefinition can silently drive
a stale class.

The protocol says field formats and checks supplied by the user resolve by
class name exactly like built-ins: a built-in name always means the same
class. Acceptable outcomes after a redefinition are the most recent
definition or an error about clashing class names.
"""
import sys

from cutplace import checks, errors, fields, interface


def define_classes(generation):
    class F5VersionedFieldFormat(fields.AbstractFieldFormat):
        GENERATION = generation

        def validated_value(self, value):
            return value

    class F5VersionedCheck(checks.AbstractCheck):
        GENERATION = generation

    return F5VersionedFieldFormat, F5VersionedCheck


CID_TEXT = "d,format,delimited\nf,name,,,,F5Versioned\nc,some_check,F5Versioned,\n"
alive_classes = []  # earlier definitions still referenced, e.g. by CIDs built from them
resolved = []
problems = []
for generation in range(16):
    alive_classes.append(define_classes(generation))
    try:
        cid = interface.create_cid_from_string(CID_TEXT)
    except errors.CutplaceError as error:
        # Refusing clashing names is fine.
        resolved.append("error")
        continue
    field_generation = cid.field_formats[0].GENERATION
    check_generation = cid.check_for("some_check").GENERATION
    resolved.append((field_generation, check_generation))
    if field_generation != generation:
        problems.append(
            "after definition #%d of F5VersionedFieldFormat the CID uses definition #%d" % (generation, field_generation)
        )
    if check_generation != generation:
        problems.append(
            "after definition #%d of F5VersionedCheck the CID uses definition #%d" % (generation, check_generation)
        )

print("definitions (field format, check) used by the CIDs created after definition #0, #1, ...: %r" % resolved)
if problems:
    print("DEFECT: a redefined class name resolves to an arbitrary, possibly stale class")
    for problem in problems[:10]:
        print("  " + problem)
    sys.exit(1)
print("ok: class names resolve to the most recent definition (or clashes are refused)")
sys.exit(0)
