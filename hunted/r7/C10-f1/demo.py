"""
A corrupted Excel (xlsx) container must be reported as data error, but a
bit flip in the zip "end of central directory" record escapes as OSError.
"""
import os
import sys
import tempfile
import warnings

warnings.simplefilter("ignore")

from cutplace import errors, interface, rowio, validio

CID_ROWS = [
    ["d", "format", "excel"],
    ["f", "customer_id", "", "", "", "Integer", "0...99999"],
    ["f", "surname", "", "", "...60"],
]


def main():
    problems = []
    with tempfile.TemporaryDirectory() as folder:
        xlsx_path = os.path.join(folder, "customers.xlsx")
        with rowio.XlsxRowWriter(xlsx_path) as xlsx_writer:
            xlsx_writer.write_rows([["1", "Miller"], ["2", "Webster"]])

        cid = interface.Cid()
        cid.read("cid", CID_ROWS)

        # Sanity check: the intact file is valid.
        validio.validate(cid, xlsx_path)

        with open(xlsx_path, "rb") as xlsx_file:
            content = bytearray(xlsx_file.read())
        eocd_index = content.rfind(b"PK\x05\x06")
        assert eocd_index >= 0
        # Flip the top bit of the "offset of start of central directory" (bytes 16..19 of the record).
        content[eocd_index + 19] ^= 0x80
        broken_path = os.path.join(folder, "broken_customers.xlsx")
        with open(broken_path, "wb") as broken_file:
            broken_file.write(content)

        for description, action in [
            ("validio.validate(cid, broken.xlsx)", lambda: validio.validate(cid, broken_path)),
            ("list(rowio.excel_rows(broken.xlsx))", lambda: list(rowio.excel_rows(broken_path))),
            ("interface.Cid(broken.xlsx)", lambda: interface.Cid(broken_path)),
        ]:
            try:
                action()
                print("%s: accepted" % description)
            except (errors.DataError, errors.InterfaceError) as error:
                print("%s: ok, %s: %s" % (description, type(error).__name__, error))
            except Exception as error:
                problems.append(
                    "%s: bit flip in xlsx container raises %s instead of a cutplace data error: %s"
                    % (description, type(error).__name__, error)
                )
    for problem in problems:
        print("DEFECT: " + problem)
    return 1 if problems else 0


if __name__ == "__main__":
    sys.exit(main())
