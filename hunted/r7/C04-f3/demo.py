"""
C04 / f3: an Excel row whose numeric cell holds an integer number of 10**16 or
more is rejected by an Integer field whose range includes that number, because
rowio._excel_cell_value() turns the cell into exponent notation ('1e+16').
"""
import os
import sys
import tempfile
import warnings

warnings.simplefilter("ignore")

from cutplace import errors, interface, rowio, validio  # noqa: E402

CID_TEXT = """d,format,excel
f,amount,,,,Integer,0...99999999999999999999
"""
# All of these are integer numbers a numeric Excel cell (IEEE double) stores exactly.
NUMBERS = [7, 999999999999999, 9007199254740992, 10000000000000000, 20000000000000000, 10**19]


def main():
    work_folder = tempfile.mkdtemp(prefix="c04_f3_")
    data_path = os.path.join(work_folder, "amounts.xlsx")
    with rowio.XlsxRowWriter(data_path) as xlsx_writer:
        for number in NUMBERS:
            xlsx_writer.write_row([number])  # non str items are written as numeric cells

    cid = interface.create_cid_from_string(CID_TEXT)
    problems = []
    results = list(validio.rows(cid, data_path, on_error="yield"))
    if len(results) != len(NUMBERS):
        problems.append("expected %d rows but got %d: %r" % (len(NUMBERS), len(results), results))
    for number, result in zip(NUMBERS, results):
        if isinstance(result, errors.DataError):
            problems.append("row with numeric cell %d is within 0...99999999999999999999 but was rejected: %s" % (number, result))
        elif result != [str(number)]:
            problems.append("row with numeric cell %d was read as %r" % (number, result))
        else:
            print("accepted %r" % result)
    if problems:
        print("DEFECT: Excel rows with big integer numbers are rejected by an Integer field that allows them")
        for problem in problems:
            print("  " + problem)
        return 1
    print("ok")
    return 0


if __name__ == "__main__":
    sys.exit(main())
