"""
C09: a rejection is an InterfaceError whose text names the offending row. CIDs rejected
because two data format properties contradict each other (detected by
DataFormat.validate() at the end of Cid.read()) get an InterfaceError without any location.
"""
import io
import re
import sys
import warnings

warnings.simplefilter("ignore")

from cutplace import errors, interface

CASES = [
    # '.' is the default decimal separator, so this single row is the mistake.
    ("d,format,delimited\nd,thousands separator,.\nf,amount,,,,Decimal\n", (2,)),
    ("d,format,fixed\nd,decimal separator,\",\"\nd,thousands separator,\",\"\nf,amount,,,8,Decimal\n", (2, 3)),
    ("d,format,delimited\nd,item delimiter,\"\"\"\"\nf,name\n", (2,)),
    ("d,format,delimited\nd,quote character,;\nd,item delimiter,;\nf,name\n", (2, 3)),
    ("d,format,delimited\nd,item delimiter,lf\nf,name\n", (2,)),
]

problems = []
for cid_text, offending_rows in CASES:
    try:
        interface.create_cid_from_string(cid_text)
    except errors.InterfaceError as error:
        text = str(error)
        named_rows = [int(row) for row in re.findall(r"\(R(\d+)C\d+\)", text)]
        if not any(row in offending_rows for row in named_rows):
            problems.append((cid_text, text, error.location))
    else:
        print("unexpected: contradicting properties accepted:\n" + cid_text)
        sys.exit(0)  # a different matter than the one shown here

if problems:
    print("rejections that do not name the offending row (or any row at all):")
    for cid_text, text, location in problems:
        print("  CID: %r" % cid_text)
        print("    error text: %s" % text)
        print("    error.location: %r" % location)
    sys.exit(1)
print("ok: all rejections name the row of a contradicting property")
sys.exit(0)
