"""
C09: a field row with a malformed length (or Integer/Decimal rule) must be rejected at
that row. Range texts with a repeated ellipsis ("1...5...", "1......5", "...5...") are
accepted as if the additional ellipsis was not there.
"""
import re
import sys
import warnings

warnings.simplefilter("ignore")

from cutplace import errors, interface

MALFORMED = ["1...5...", "1......5", "...5...", "1......", "5......5"]


def outcome(rows):
    cid = interface.Cid()
    try:
        cid.read("cid.csv", rows)
    except errors.InterfaceError as error:
        return "rejected", str(error), None
    return "accepted", "", cid


problems = []

# Sanity: the documented spellings work and obvious garbage is rejected at the field row.
for good in ["1...5", "...5", "1...", "5"]:
    state, text, _ = outcome([["d", "format", "delimited"], ["f", "a", "", "", good, "Text", ""]])
    if state != "accepted":
        print("unexpected: well-formed length %r rejected: %s" % (good, text))
        sys.exit(0)  # not the defect this demo is about
state, text, _ = outcome([["d", "format", "delimited"], ["f", "a", "", "", "1...2...3", "Text", ""]])
assert state == "rejected" and re.search(r"\(R2C\d+\)", text), (state, text)

for bad in MALFORMED:
    for what, row in [
        ("length", ["f", "a", "", "", bad, "Text", ""]),
        ("Integer rule", ["f", "a", "", "", "", "Integer", bad]),
        ("Decimal rule", ["f", "a", "", "", "", "Decimal", bad]),
    ]:
        state, text, cid = outcome([["d", "format", "delimited"], row])
        if state == "accepted":
            field = cid.field_formats[0]
            parsed = field.length.items if what == "length" else field.valid_range.items
            problems.append("%s %r is accepted (parsed as %r)" % (what, bad, parsed))
        elif not re.search(r"\(R2C\d+\)", text):
            problems.append("%s %r is rejected but the text does not name row 2: %s" % (what, bad, text))

if problems:
    print("malformed range texts are accepted instead of being rejected at the field row:")
    for problem in problems:
        print("  " + problem)
    sys.exit(1)
print("ok: malformed range texts are rejected at their row")
sys.exit(0)
