"""
C13 / f1: fixed-width reading of a text stream whose ``name`` attribute is
falsy (``None`` for tempfile.SpooledTemporaryFile, ``0`` for ``open(0)``, i.e.
re-opened stdin) ends in an AssertionError instead of rows / a DataFormatError.

Exit code 1 = defect present, 0 = behaviour conforms to the statement.
"""
import sys
import tempfile
import warnings

warnings.simplefilter("ignore")

from cutplace import errors, interface, rowio, validio  # noqa: E402

FIELDS = [("a", 2), ("b", 1)]
CID_TEXT = "D,Format,Fixed\nD,Line delimiter,LF\nF,a,,,2\nF,b,,,1\n"


def spooled(text):
    # A perfectly ordinary text stream from the standard library; newline="" keeps CR / LF untouched.
    result = tempfile.SpooledTemporaryFile(mode="w+", newline="", encoding="utf-8")
    result.write(text)
    result.seek(0)
    return result


problems = []

# 1. Malformed input (short last record) read with rowio.fixed_rows(): must fail with DataFormatError.
try:
    rows = list(rowio.fixed_rows(spooled("abc\nde"), "utf-8", FIELDS, "\n"))
    problems.append("short record 'de' was accepted by fixed_rows(): %r" % rows)
except errors.DataFormatError:
    pass
except Exception as error:  # noqa: BLE001
    problems.append(
        "fixed_rows() on malformed input 'abc\\nde' raised %s(%s) instead of DataFormatError"
        % (type(error).__name__, error)
    )

# 2. Well-formed input read with validio.Reader: must be accepted and returned unchanged.
cid = interface.create_cid_from_string(CID_TEXT)
try:
    with validio.Reader(cid, spooled("abc\ndef\n")) as reader:
        rows = list(reader.rows())
    if rows != [["ab", "c"], ["de", "f"]]:
        problems.append("Reader returned %r for well-formed input 'abc\\ndef\\n'" % rows)
except Exception as error:  # noqa: BLE001
    problems.append(
        "Reader refused well-formed input 'abc\\ndef\\n' with %s(%s)" % (type(error).__name__, error)
    )

# 3. Malformed input read with validio.Reader: must fail with DataFormatError.
try:
    with validio.Reader(cid, spooled("abc\nde")) as reader:
        rows = list(reader.rows())
    problems.append("short record 'de' was accepted by Reader: %r" % rows)
except errors.DataFormatError:
    pass
except Exception as error:  # noqa: BLE001
    problems.append(
        "Reader on malformed input 'abc\\nde' raised %s(%s) instead of DataFormatError"
        % (type(error).__name__, error)
    )

if problems:
    print("stream used: tempfile.SpooledTemporaryFile(mode='w+', newline=''), its .name is %r" % spooled("").name)
    for problem in problems:
        print("DEFECT: " + problem)
    sys.exit(1)
print("ok: fixed-width reading of a stream with a falsy name behaves as specified")
sys.exit(0)
