"""
C19 / f2: SqlFactory.create_table_statement() raises TypeError as soon as a
field has a non text ``empty_value`` (for example ``0`` for an Integer field or
``Decimal('0')`` for a Decimal field), because it calls ``len()`` on it.

``empty_value`` is a documented constructor parameter of IntegerFieldFormat,
DecimalFieldFormat and DateTimeFieldFormat and is documented to have the "same
type as a typical result of validated()", i.e. an int for Integer fields.
"""
import decimal
import sys
import warnings

warnings.simplefilter("ignore")

from cutplace import data, fields, interface, sql  # noqa: E402


def main():
    problems = []
    data_format = data.DataFormat(data.FORMAT_DELIMITED)
    candidates = [
        ("Integer, empty_value=0", lambda: fields.IntegerFieldFormat("amount", True, "", "0...99", data_format, 0)),
        (
            "Decimal, empty_value=Decimal('0.00')",
            lambda: fields.DecimalFieldFormat("amount", True, "", "0...99.99", data_format, decimal.Decimal("0.00")),
        ),
    ]
    for description, create_field in candidates:
        for dialect in (sql.ANSI_SQL_DIALECT, sql.DB2_SQL_DIALECT, sql.TRANSACT_SQL_DIALECT, sql.PL_SQL_DIALECT):
            cid = interface.Cid()
            cid.read("demo", [["D", "Format", "delimited"], ["F", "customer_id", "", "", "", "Integer", "0...99999"]])
            field = create_field()
            cid.add_field_format(field)
            # The field works fine for validation:
            assert field.validated("") == field.empty_value
            assert field.validated("17") == 17
            try:
                statement = sql.SqlFactory(cid, "demo", dialect).create_table_statement()
            except Exception as error:
                problems.append("%s, %s: %s: %s" % (description, dialect, type(error).__name__, error))
                continue
            lines = statement.split("\n")
            column_lines = lines[1:-1]
            if (
                len(column_lines) != 2
                or not column_lines[0].strip().startswith("customer_id ")
                or not column_lines[1].strip().startswith("amount ")
                or " not null" not in column_lines[0]
                or " not null" in column_lines[1]
            ):
                problems.append("%s, %s: unexpected statement: %r" % (description, dialect, statement))
    if problems:
        print("DEFECT: no CREATE TABLE statement for a CID with a field that has a non text empty_value")
        for problem in problems:
            print("  " + problem)
        return 1
    print("ok: CREATE TABLE has one column per field")
    return 0


if __name__ == "__main__":
    sys.exit(main())
