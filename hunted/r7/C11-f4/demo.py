"""
C11 / f4: the documentation of the data format property "Thousands separator"
lists "comma (,), dot (.) and the space character" but a blank is refused.
"""
import io
import sys
import warnings

warnings.simplefilter("ignore")

from cutplace import errors, interface, validio  # noqa: E402

problems = []
for data_format_name, length in (("Delimited", ""), ("Fixed", "8")):
    cid = interface.Cid()
    try:
        cid.read(
            "demo_cid",
            [
                ["D", "Format", data_format_name],
                ["D", "Thousands separator", " "],
                ["F", "amount", "", "", length, "Decimal"],
            ],
        )
    except errors.InterfaceError as error:
        problems.append("%s: thousands separator ' ' is refused: %s" % (data_format_name, error))
        continue
    if cid.data_format.thousands_separator != " ":
        problems.append(
            "%s: thousands separator ' ' results in %r" % (data_format_name, cid.data_format.thousands_separator)
        )
        continue
    try:
        rows = list(validio.rows(cid, io.StringIO("12 345.5\n", newline="")))
        if rows != [["12 345.5"]]:
            problems.append("%s: rows=%r" % (data_format_name, rows))
    except errors.DataError as error:
        problems.append("%s: decimal '12 345.5' is refused with thousands separator ' ': %s" % (data_format_name, error))

if problems:
    print("the documented thousands separator 'space character' cannot be used:")
    for problem in problems:
        print("  " + problem)
    sys.exit(1)
print("ok: a blank can be used as thousands separator")
sys.exit(0)
