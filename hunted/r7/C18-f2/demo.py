"""
C18 / f2: a file name the operating system refuses (embedded NUL character,
lone surrogate) ends in exit code 4 ("something unexpected happened and the
program code must be fixed") instead of 3 (file cannot be read) or 2
(unusable arguments).
"""
import contextlib
import io
import logging
import os
import sys
import tempfile

from cutplace import applications

logging.disable(logging.CRITICAL)

CID_TEXT = "d,format,delimited\nf,id,,,,Integer,0...99\nf,name,,,1...5\n"


def exit_code(arguments):
    with contextlib.redirect_stderr(io.StringIO()), contextlib.redirect_stdout(io.StringIO()):
        try:
            return applications.main(["cutplace"] + arguments)
        except SystemExit as error:
            return error.code


def main():
    problems = []
    with tempfile.TemporaryDirectory() as folder:
        cid_path = os.path.join(folder, "cid.csv")
        accepted_path = os.path.join(folder, "accepted.csv")
        with open(cid_path, "w", encoding="utf-8") as cid_file:
            cid_file.write(CID_TEXT)
        with open(accepted_path, "w", encoding="cp1252") as data_file:
            data_file.write("1,a\n2,b\n")
        assert exit_code([cid_path, accepted_path]) == 0
        assert exit_code([cid_path, os.path.join(folder, "missing.csv")]) == 3

        cases = [
            ("data file name with NUL", [cid_path, os.path.join(folder, "no\0such.csv")]),
            ("data file name with NUL after an accepted file", [cid_path, accepted_path, os.path.join(folder, "no\0such.csv")]),
            ("data file name with lone surrogate", [cid_path, os.path.join(folder, "no\ud800such.csv")]),
            ("CID name with NUL", [os.path.join(folder, "no\0such_cid.csv"), accepted_path]),
        ]
        for description, arguments in cases:
            actual = exit_code(arguments)
            if actual not in (2, 3):
                problems.append(
                    "%s: exit code is %r but must be 3 (file cannot be read) or at least 2 (unusable arguments)"
                    % (description, actual)
                )
    if problems:
        print("a named file that cannot be read does not result in exit code 3:")
        for problem in problems:
            print("  " + problem)
        return 1
    print("ok: unreadable file names result in exit code 3 (or 2)")
    return 0


if __name__ == "__main__":
    sys.exit(main())
