"""
A DateTime field accepts values that do not have the layout of the rule: a blank in the rule
matches any run of white space (several blanks, tab, line feed) and a letter in the rule
matches the letter in any case.
"""
import io
import sys
import warnings

warnings.simplefilter("ignore")

from cutplace import errors, interface, validio  # noqa: E402

CID_TEXT = (
    "d,format,delimited\n"
    "d,item delimiter,;\n"
    "f,created,,,,DateTime,YYYY-MM-DD hh:mm\n"
    "f,modified,,,,DateTime,YYYY-MM-DDThh:mm:ss\n"
)
CASES = [
    # (field name, cell, year-month-day-hour-minute-second if the cell must be accepted else None)
    ("created", "2020-01-02 10:20", (2020, 1, 2, 10, 20, 0)),
    ("created", "2020-01-02  10:20", None),
    ("created", "2020-01-02   10:20", None),
    ("created", "2020-01-02\t10:20", None),
    ("created", "2020-01-02\n10:20", None),
    ("created", "2020-01-02 \t\n 10:20", None),
    ("created", "2020-01-02\u00a010:20", None),
    ("modified", "2020-01-02T10:20:30", (2020, 1, 2, 10, 20, 30)),
    ("modified", "2020-01-02t10:20:30", None),
]


def main():
    cid = interface.create_cid_from_string(CID_TEXT)
    problems = []
    for field_name, cell, expected in CASES:
        field_format = cid.field_format_for(field_name)
        try:
            actual = field_format.validated(cell)
            if expected is None:
                problems.append(
                    "field %r with rule %r accepts %r as %s"
                    % (field_name, field_format.rule, cell, tuple(actual[:6]))
                )
            elif tuple(actual[:6]) != expected:
                problems.append("field %r returns %r for %r" % (field_name, tuple(actual[:6]), cell))
        except errors.FieldValueError as error:
            if expected is not None:
                problems.append("field %r rejects %r: %s" % (field_name, cell, error))

    # The same using a reader on a delimited file.
    data_text = "2020-01-02\t10:20;2020-01-02T10:20:30\n" "2020-01-02 10:20;2020-01-02t10:20:30\n"
    with validio.Reader(cid, io.StringIO(data_text), on_error="yield") as reader:
        for row_or_error in reader.rows():
            if not isinstance(row_or_error, errors.DataError):
                problems.append("Reader accepts the row %r" % row_or_error)

    if problems:
        print("DEFECT: DateTime field accepts values that differ from the layout of the rule:")
        for problem in problems:
            print("  " + problem)
        return 1
    print("ok: separators have to appear as specified in the rule")
    return 0


if __name__ == "__main__":
    sys.exit(main())
