"""
C20 / f1: in fixed-width data a cell made of white space other than blanks
(for example no-break spaces or tabulators) is treated as empty, and other
white space around a value is removed before the value hook sees it.

The protocol says the value hook of a field is called for cells that are
non-empty after *blank*-stripping, contain only allowed characters and satisfy
the declared length.
"""
import io
import sys

from cutplace import errors, fields, interface, validio

CALLS = []


class F1RecordingFieldFormat(fields.AbstractFieldFormat):
    def __init__(self, field_name, is_allowed_to_be_empty, length, rule, data_format):
        super().__init__(field_name, is_allowed_to_be_empty, length, rule, data_format, empty_value="")

    def validated_value(self, value):
        CALLS.append(value)
        return value


def hook_calls(cid_text, cell):
    cid = interface.create_cid_from_string(cid_text)
    del CALLS[:]
    reader = validio.Reader(cid, io.StringIO(cell + "\n", newline=""), on_error="yield")
    results = list(reader.rows())
    reader.close()
    return list(CALLS), results


CID_TEMPLATE = "d,format,fixed\nd,line delimiter,lf\nf,code,,%s,3,F1Recording\n"
problems = []
for empty_flag in ("", "x"):
    for cell in ("\xa0\xa0\xa0", "\t\t\t", "a\xa0 ", "\xa0a "):
        expected_calls = [cell.strip(" ")]  # not empty after blank-stripping, no character limits, length 3
        calls, results = hook_calls(CID_TEMPLATE % empty_flag, cell)
        if calls != expected_calls:
            rejected = [str(result) for result in results if isinstance(result, errors.DataError)]
            problems.append(
                "empty flag %r, fixed cell %r: value hook calls are %r but must be %r%s"
                % (empty_flag, cell, calls, expected_calls, ("; row rejected: %s" % rejected) if rejected else "")
            )

if problems:
    print("DEFECT: white space other than blanks is stripped from fixed cells before the empty test and the value hook")
    for problem in problems:
        print("  " + problem)
    sys.exit(1)
print("ok: value hook sees all fixed cells that are not empty after blank-stripping")
sys.exit(0)
