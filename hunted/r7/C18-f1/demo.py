"""
C18 / f1: an option placed after the CID (or between data files) makes the
command exit with 2 ("unusable arguments") although the very same arguments
in another order are validated normally.
"""
import contextlib
import io
import logging
import os
import sys
import tempfile

from cutplace import applications, interface, validio

logging.disable(logging.CRITICAL)

CID_TEXT = "d,format,delimited\nf,id,,,,Integer,0...99\nf,name,,,1...5\nc,uniq,IsUnique,id\n"


def exit_code(arguments):
    with contextlib.redirect_stderr(io.StringIO()), contextlib.redirect_stdout(io.StringIO()):
        try:
            return applications.main(["cutplace"] + arguments)
        except SystemExit as error:
            return error.code


def main():
    problems = []
    with tempfile.TemporaryDirectory() as folder:
        cid_path = os.path.join(folder, "cid.csv")
        accepted_path = os.path.join(folder, "accepted.csv")
        rejected_path = os.path.join(folder, "rejected.csv")
        with open(cid_path, "w", encoding="utf-8") as cid_file:
            cid_file.write(CID_TEXT)
        with open(accepted_path, "w", encoding="cp1252") as data_file:
            data_file.write("1,a\n2,b\n")
        with open(rejected_path, "w", encoding="cp1252") as data_file:
            data_file.write("1,a\nx,b\n")

        # What the programmatic API says about the two files.
        validio.validate(interface.Cid(cid_path), accepted_path, validate_until=5)
        try:
            validio.validate(interface.Cid(cid_path), rejected_path, validate_until=5)
            raise AssertionError("the API must reject rejected.csv")
        except Exception as error:
            assert error.__class__.__name__ == "FieldValueError", error

        cases = [
            # (arguments, expected exit code)
            (["--until", "5", cid_path, accepted_path], 0),
            ([cid_path, accepted_path, "--until", "5"], 0),
            ([cid_path, "--until", "5", accepted_path], 0),
            ([cid_path, "-u", "5", accepted_path], 0),
            ([cid_path, "--until=5", accepted_path], 0),
            ([cid_path, "--log", "error", accepted_path], 0),
            ([cid_path, accepted_path, "--until", "5", accepted_path], 0),
            ([cid_path, "--until", "5", rejected_path], 1),
            ([cid_path, accepted_path, "--until", "5", rejected_path], 1),
        ]
        for arguments, expected in cases:
            actual = exit_code(arguments)
            shown = ["cutplace"] + [os.path.basename(item) for item in arguments]
            if actual != expected:
                problems.append("%s: exit code is %r but must be %r" % (" ".join(shown), actual, expected))
    if problems:
        print("exit code does not reflect the validation outcome when an option follows the CID:")
        for problem in problems:
            print("  " + problem)
        return 1
    print("ok: the position of the options does not change the exit code")
    return 0


if __name__ == "__main__":
    sys.exit(main())
