"""
C12 / f1: the CID loader accepts a delimited data format whose item delimiter
cannot be represented in the (default or declared) encoding. With such a
format no table with two or more columns can be written, so it cannot
round-trip through write and read.

Exit code 1 = defect present, 0 = behaviour conforms.
"""
import os
import sys
import tempfile
import warnings

warnings.simplefilter("ignore")

from cutplace import errors, interface, rowio  # noqa: E402

TABLE = [["a", "b"], ["", " "], ["x\r\ny", 'q"']]

# (encoding row or None for the default cp1252, item delimiter as written in the CID)
CASES = [
    (None, "0x80"),  # U+0080 is not part of cp1252 (the default encoding)
    (None, "0x81"),
    ("ascii", "€"),  # euro sign as delimiter, data are ASCII
    ("latin-1", "0x20ac"),
]


def loaded_data_format(encoding, item_delimiter):
    cid_rows = [["d", "format", "delimited"]]
    if encoding is not None:
        cid_rows.append(["d", "encoding", encoding])
    cid_rows.append(["d", "item delimiter", item_delimiter])
    cid_rows.append(["f", "first", "", "x"])
    cid_rows.append(["f", "second", "", "x"])
    cid = interface.Cid()
    cid.read("inline", cid_rows)
    return cid.data_format


def main():
    defect_count = 0
    work_folder = tempfile.mkdtemp(prefix="c12_f1_")
    for encoding, item_delimiter in CASES:
        description = "encoding=%r, item delimiter=%r" % (encoding or "cp1252 (default)", item_delimiter)
        try:
            data_format = loaded_data_format(encoding, item_delimiter)
        except errors.InterfaceError as error:
            # Conforming: the loader does not accept a format that cannot be written.
            print("ok: %s: rejected by the CID loader: %s" % (description, error))
            continue
        data_path = os.path.join(work_folder, "data.csv")
        try:
            with rowio.DelimitedRowWriter(data_path, data_format) as writer:
                writer.write_rows(TABLE)
            rows_read = list(rowio.delimited_rows(data_path, data_format))
        except errors.DataError as error:
            defect_count += 1
            print("DEFECT: %s: format accepted by the CID loader but the table cannot be written/read: %s" % (description, error))
            continue
        if rows_read != TABLE:
            defect_count += 1
            print("DEFECT: %s: wrote %r but read %r" % (description, TABLE, rows_read))
        else:
            print("ok: %s: round trip works" % description)
    if defect_count:
        print("%d accepted delimited data format(s) cannot round-trip a table" % defect_count)
        return 1
    return 0


if __name__ == "__main__":
    sys.exit(main())
