"""
C04 / f1: a data error for data read from a text stream whose ``name`` is not a
str (every stream opened from a file descriptor: os.fdopen(), open(fd),
tempfile.TemporaryFile(), subprocess pipes, socket.makefile()) cannot be
rendered: str(error) raises TypeError instead of naming the input and the row.
"""
import io
import os
import sys
import tempfile
import warnings

warnings.simplefilter("ignore")

from cutplace import errors, interface, validio  # noqa: E402

DELIMITED_CID = """d,format,delimited
d,encoding,utf-8
f,id,,,,Integer
f,name,,,,Text
"""
FIXED_CID = """d,format,fixed
d,encoding,utf-8
f,id,,,2,Integer
f,name,,,3,Text
"""

# (label, CID, data); row 1 is fine, row 2 is broken.
CASES = [
    ("delimited, unterminated quote in row 2", DELIMITED_CID, '1,abc\r\n2,"de\r\n'),
    ("fixed, incomplete record in row 2", FIXED_CID, "11abc\n22d"),
]


def main():
    problems = []
    work_folder = tempfile.mkdtemp(prefix="c04_f1_")
    for label, cid_text, data_text in CASES:
        cid = interface.create_cid_from_string(cid_text)
        data_path = os.path.join(work_folder, "data.txt")
        with io.open(data_path, "w", newline="", encoding="utf-8") as data_file:
            data_file.write(data_text)
        # A perfectly legal text stream; its ``name`` is the (int) file descriptor.
        data_stream = os.fdopen(os.open(data_path, os.O_RDONLY), "r", newline="", encoding="utf-8")
        assert isinstance(data_stream.name, int)
        try:
            accepted_rows = []
            try:
                for row in validio.rows(cid, data_stream):
                    accepted_rows.append(row)
                problems.append("%s: broken row 2 was not reported at all" % label)
            except errors.DataError as error:
                try:
                    error_text = str(error)
                except Exception as render_error:
                    problems.append(
                        "%s: %s was raised for row 2 but str(error) fails with %s: %s"
                        % (label, type(error).__name__, type(render_error).__name__, render_error)
                    )
                else:
                    if "2" not in error_text.split(":")[0]:
                        problems.append("%s: location does not name row 2: %r" % (label, error_text))
                    print("%s: ok: %s" % (label, error_text))
            if len(accepted_rows) != 1:
                problems.append("%s: row 1 must be accepted but got: %r" % (label, accepted_rows))
        finally:
            data_stream.close()
    if problems:
        print("DEFECT: data error does not name the input / row for a stream named by a file descriptor")
        for problem in problems:
            print("  " + problem)
        return 1
    print("ok")
    return 0


if __name__ == "__main__":
    sys.exit(main())
