"""
C03 / f2: the ODS reader does not apply the white space processing of OpenDocument (ODF 1.2 part 1, 6.1.2 "White
Space Characters") to the text of a cell: within <text:p>, leading and trailing white space has to be removed and
any sequence of blank, tabulator, carriage return and line feed has to be collapsed to a single blank (significant
blanks are spelled <text:s/>, which cutplace does resolve). Cutplace takes the raw XML character data instead.
Consequently

* a cell that is empty (<text:p> </text:p>, or <text:p> with only an indented line break, as a pretty printer
  produces it) is accepted by a field that must not be empty and rejected by an Integer field that may be empty,
* the length is checked against the number of raw XML characters instead of the number of characters of the cell.

Exit 1 = defect present, exit 0 = conforming.
"""
import os
import sys
import tempfile
import warnings
import zipfile

warnings.simplefilter("ignore")

from cutplace import interface, validio  # noqa: E402

_NAMESPACES = (
    'xmlns:office="urn:oasis:names:tc:opendocument:xmlns:office:1.0" '
    'xmlns:table="urn:oasis:names:tc:opendocument:xmlns:table:1.0" '
    'xmlns:text="urn:oasis:names:tc:opendocument:xmlns:text:1.0"'
)


def write_ods(path, rows):
    body = "".join(
        "<table:table-row>%s</table:table-row>"
        % "".join('<table:table-cell office:value-type="string">%s</table:table-cell>' % cell for cell in row)
        for row in rows
    )
    content = (
        '<?xml version="1.0" encoding="UTF-8"?>'
        '<office:document-content %s office:version="1.2"><office:body><office:spreadsheet>'
        '<table:table table:name="data">%s</table:table>'
        "</office:spreadsheet></office:body></office:document-content>" % (_NAMESPACES, body)
    )
    with zipfile.ZipFile(path, "w") as ods_zip:
        ods_zip.writestr("mimetype", "application/vnd.oasis.opendocument.spreadsheet")
        ods_zip.writestr("content.xml", content)


def outcome(cid_text, cell_xml):
    """True if a row with ``cell_xml`` as first cell is accepted."""
    cid = interface.create_cid_from_string(cid_text)
    with tempfile.TemporaryDirectory() as folder:
        ods_path = os.path.join(folder, "data.ods")
        write_ods(ods_path, [[cell_xml, "<text:p>x</text:p>"]])
        results = list(validio.rows(cid, ods_path, on_error="yield"))
    assert len(results) == 1, results
    return not isinstance(results[0], Exception), results[0]


MUST_NOT_BE_EMPTY = "d,format,ods\nf,name,,,,Text\nf,other,,,,Text\n"
INTEGER_MAY_BE_EMPTY = "d,format,ods\nf,size,,x,,Integer\nf,other,,,,Text\n"
TEXT_LENGTH_6 = "d,format,ods\nf,name,,,6,Text\nf,other,,,,Text\n"
TEXT_LENGTH_3 = "d,format,ods\nf,name,,,3,Text\nf,other,,,,Text\n"

# (title, CID, XML of the cell, expected to be accepted?)
CASES = [
    # Sanity: these work today and must keep working.
    ("empty paragraph, field must not be empty", MUST_NOT_BE_EMPTY, "<text:p/>", False),
    ("significant blank <text:s/>, field must not be empty", MUST_NOT_BE_EMPTY, "<text:p><text:s/></text:p>", True),
    # Cells that are empty according to ODF 6.1.2.
    ("<text:p> </text:p> is an empty cell, field must not be empty", MUST_NOT_BE_EMPTY, "<text:p> </text:p>", False),
    (
        "pretty printed empty paragraph is an empty cell, field must not be empty",
        MUST_NOT_BE_EMPTY,
        "<text:p>\n        </text:p>",
        False,
    ),
    ("<text:p> </text:p> is an empty cell, Integer field may be empty", INTEGER_MAY_BE_EMPTY, "<text:p> </text:p>", True),
    # The cell is 'a b' (3 characters), spelled with 4 collapsible blanks.
    ("'a b' spelled <text:p>a    b</text:p> has 3 characters, length 6", TEXT_LENGTH_6, "<text:p>a    b</text:p>", False),
    ("'a b' spelled <text:p>a    b</text:p> has 3 characters, length 3", TEXT_LENGTH_3, "<text:p>a    b</text:p>", True),
    # The cell is 'abc', its span is indented by a pretty printer.
    (
        "'abc' in an indented <text:span> has 3 characters, length 3",
        TEXT_LENGTH_3,
        "<text:p>\n          <text:span>abc</text:span>\n        </text:p>",
        True,
    ),
]

problems = []
for title, cid_text, cell_xml, expected_accepted in CASES:
    actual_accepted, result = outcome(cid_text, cell_xml)
    state = "ok" if actual_accepted == expected_accepted else "WRONG"
    print("%-5s %s: expected %s, got %s (%s)" % (
        state, title, "accept" if expected_accepted else "reject", "accept" if actual_accepted else "reject", result))
    if actual_accepted != expected_accepted:
        problems.append(title)

if problems:
    print("DEFECT: ODS cells are validated using the raw XML white space instead of the cell text (ODF 1.2, 6.1.2)")
    sys.exit(1)
print("conforming")
sys.exit(0)
