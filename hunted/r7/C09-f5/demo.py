"""
C09: blanks around a cell are a meaning-preserving rewrite that must stay accepted. The
value cells of several data format properties are compared verbatim, so a blank before or
after the value gets the CID rejected, unlike for 'format', 'header', 'encoding',
'item delimiter', 'sheet' and 'allowed characters'.
"""
import codecs
import sys
import warnings

warnings.simplefilter("ignore")

from cutplace import errors, interface

# (format, property name, value, attribute of DataFormat to compare)
CASES = [
    ("delimited", "line delimiter", "lf", "line_delimiter"),
    ("fixed", "line delimiter", "crlf", "line_delimiter"),
    ("delimited", "skip initial space", "true", "skip_initial_space"),
    ("delimited", "quoting", "all", "quoting"),
    ("delimited", "quote character", "'", "quote_character"),
    ("delimited", "escape character", "\\", "escape_character"),
    ("delimited", "decimal separator", ",", "decimal_separator"),
    ("delimited", "thousands separator", ",", "thousands_separator"),
    # These already cope with blanks and are here for comparison only.
    ("delimited", "header", "1", "header"),
    ("delimited", "encoding", "utf-8", "encoding"),
    ("delimited", "item delimiter", ";", "item_delimiter"),
    ("excel", "sheet", "2", "sheet"),
]


def load(rows):
    cid = interface.Cid()
    cid.read("cid.csv", rows)
    return cid


problems = []
for format_name, name, value, attribute in CASES:
    field_row = ["f", "a", "", "", "3" if format_name == "fixed" else "", "Text", ""]
    plain = load([["d", "format", format_name], ["d", name, value], field_row])
    expected = getattr(plain.data_format, attribute)
    for spelling in (" " + value, value + " ", " " + value + " "):
        rows = [[" d ", " Format ", " " + format_name + " "], [" d ", " " + name + " ", spelling], field_row]
        try:
            padded = load(rows)
        except errors.InterfaceError as error:
            problems.append("%s = %r: %s" % (name, spelling, error))
            continue
        actual = getattr(padded.data_format, attribute)
        if attribute == "encoding":
            # Codec names are normalized by Python itself.
            actual, expected = codecs.lookup(actual).name, codecs.lookup(expected).name
        if actual != expected:
            problems.append("%s = %r: accepted but %s is %r instead of %r" % (name, spelling, attribute, actual, expected))

if problems:
    print("CIDs that differ from an accepted CID only by blanks around a property value are rejected:")
    for problem in problems:
        print("  " + problem[:230])
    sys.exit(1)
print("ok: blanks around property values do not matter")
sys.exit(0)
