"""
Writing a row whose text cannot be encoded with the declared encoding must
end in a cutplace data error. With the (accepted) encoding "idna" the encoder
raises a plain UnicodeError instead of a UnicodeEncodeError, which the row
writers do not convert.
"""
import os
import sys
import tempfile
import warnings

warnings.simplefilter("ignore")

from cutplace import errors, interface, validio

CIDS = {
    "delimited": [["d", "format", "delimited"], ["d", "encoding", "idna"], ["f", "host"], ["f", "note"]],
    "fixed": [["d", "format", "fixed"], ["d", "encoding", "idna"], ["f", "host", "", "", "10"], ["f", "note", "", "", "4"]],
}
# Valid according to the CID (any text), but "a..b" has an empty label, which IDNA cannot encode.
ROW = ["a..b", "c"]


def main():
    problems = []
    with tempfile.TemporaryDirectory() as folder:
        for name, cid_rows in CIDS.items():
            cid = interface.Cid()
            cid.read("cid", cid_rows)  # The CID is accepted: "idna" is a text encoding.
            target_path = os.path.join(folder, name + ".txt")
            try:
                with validio.Writer(cid, target_path) as writer:
                    writer.write_row(ROW)
                print("%s: row written" % name)
            except errors.CutplaceError as error:
                print("%s: ok, %s: %s" % (name, type(error).__name__, error))
            except Exception as error:
                problems.append(
                    "%s Writer.write_row(%r) raises %s (%s) instead of a cutplace data error"
                    % (name, ROW, type(error).__name__, error)
                )
    for problem in problems:
        print("DEFECT: " + problem)
    return 1 if problems else 0


if __name__ == "__main__":
    sys.exit(main())
