"""
C14 / f2: validio.Writer(cid_or_path, target) cannot be bound to a CID by
path. Like Reader, its first parameter is ``cid_or_path`` and the common base
class loads the CID from the path, but Writer.__init__ then uses the path
itself as if it were the CID and ends in an AttributeError, so nothing can be
written at all.
"""
import io
import os
import sys
import tempfile
import warnings

warnings.simplefilter("ignore")

from cutplace import errors, validio  # noqa: E402

CID_TEXT = "d,format,delimited\nd,line delimiter,lf\nf,id,,,,Integer\nf,name\nc,id must be unique,IsUnique,id\n"
ROWS = [["1", "Anna"], ["x", "Bob"], ["1", "Carl"], ["2", "Dora"]]
EXPECTED_ROWS = [["1", "Anna"], ["2", "Dora"]]
EXPECTED_TEXT = "1,Anna\n2,Dora\n"

handle, cid_path = tempfile.mkstemp(suffix=".csv")
os.close(handle)
try:
    with io.open(cid_path, "w", encoding="utf-8") as cid_file:
        cid_file.write(CID_TEXT)

    # The same CID path is fine for reading.
    rows_read = list(validio.rows(cid_path, io.StringIO(EXPECTED_TEXT, newline="")))
    assert rows_read == EXPECTED_ROWS, "rows_read=%r" % rows_read

    target = io.StringIO(newline="")
    try:
        writer = validio.Writer(cid_path, target)
    except errors.CutplaceError:
        raise
    except Exception as error:
        print("C14 violated: cannot bind a Writer to the CID %r that Reader accepts:" % CID_TEXT)
        print("  validio.Writer(cid_path, target) raised %s: %s" % (type(error).__name__, error))
        sys.exit(1)
    accepted = []
    for row in ROWS:
        try:
            writer.write_row(row)
            accepted.append(row)
        except errors.DataError:
            pass
    writer.close()
    text = target.getvalue()
    if (accepted != EXPECTED_ROWS) or (text != EXPECTED_TEXT):
        print("C14 violated: accepted=%r, text=%r" % (accepted, text))
        sys.exit(1)
    rows_read = list(validio.rows(cid_path, io.StringIO(text, newline="")))
    if rows_read != EXPECTED_ROWS:
        print("C14 violated: rows read back are %r instead of %r" % (rows_read, EXPECTED_ROWS))
        sys.exit(1)
finally:
    os.remove(cid_path)
print("ok: Writer bound to a CID path writes the accepted rows only")
sys.exit(0)
