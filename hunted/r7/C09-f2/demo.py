"""
C09: an accepted CID must only contain examples their own field accepts. If the
'allowed characters' row follows the field rows, the example is never checked against it:
the CID is accepted although the field of the loaded CID rejects its own example.
"""
import sys
import warnings

warnings.simplefilter("ignore")

from cutplace import errors, interface

FIELD = ["f", "name", "Jürgen", "", "", "Text", ""]
ALLOWED = ["d", "allowed characters", "32...126"]


def load(rows):
    cid = interface.Cid()
    cid.read("cid.csv", rows)
    return cid


# Reference: with the property before the field the example is refused at the field row.
try:
    load([["d", "format", "delimited"], ALLOWED, FIELD])
    print("unexpected: example with a forbidden character accepted even in the usual order")
    sys.exit(1)
except errors.InterfaceError as error:
    assert "(R3C" in str(error), str(error)

try:
    cid = load([["d", "format", "delimited"], FIELD, ALLOWED])
except errors.InterfaceError as error:
    print("ok: CID rejected: %s" % error)
    sys.exit(0)

field = cid.field_formats[0]
try:
    field.validated(field.example)
except errors.FieldValueError as error:
    print("CID accepted, but field %r does not accept its own example %r:" % (field.field_name, field.example))
    print("  " + str(error))
    print("  (allowed characters of the accepted CID: %s)" % cid.data_format.allowed_characters)
    sys.exit(1)
print("ok: the field accepts its example")
sys.exit(0)
