"""
C15: a negative blank count (text:c) of a text:s element is silently accepted.

The ODS reader validates repeat counts: table:number-columns-repeated="-3" or
"0" and text:c="abc" are all refused with a DataFormatError. But
text:c="-3" - a negative count of repeated blanks, which ODF (text:c is a
nonNegativeInteger) does not allow - passes: " " * -3 is simply "" in Python,
so the cell 'a<text:s text:c="-3"/>b' is returned as 'ab' without any error.
"""
import os
import sys
import tempfile
import warnings
import zipfile

warnings.simplefilter("ignore")

from cutplace import errors, rowio  # noqa: E402

_CONTENT_TEMPLATE = (
    '<?xml version="1.0" encoding="UTF-8"?>'
    "<office:document-content"
    ' xmlns:office="urn:oasis:names:tc:opendocument:xmlns:office:1.0"'
    ' xmlns:table="urn:oasis:names:tc:opendocument:xmlns:table:1.0"'
    ' xmlns:text="urn:oasis:names:tc:opendocument:xmlns:text:1.0">'
    "<office:body><office:spreadsheet>"
    '<table:table table:name="Sheet1"><table:table-row>'
    '<table:table-cell office:value-type="string"><text:p>a<text:s text:c="%s"/>b</text:p></table:table-cell>'
    "</table:table-row></table:table>"
    "</office:spreadsheet></office:body></office:document-content>"
)


def read_with_blank_count(folder, count_text):
    ods_path = os.path.join(folder, "count.ods")
    with zipfile.ZipFile(ods_path, "w") as ods_zip:
        ods_zip.writestr("mimetype", "application/vnd.oasis.opendocument.spreadsheet")
        ods_zip.writestr("content.xml", (_CONTENT_TEMPLATE % count_text).encode("utf-8"))
    try:
        return list(rowio.ods_rows(ods_path, 1))
    except errors.DataFormatError as error:
        return "DataFormatError: %s" % error


def main():
    exit_code = 0
    with tempfile.TemporaryDirectory() as folder:
        # Sanity: a proper count works and a non numeric one is refused.
        good = read_with_blank_count(folder, "3")
        if good != [["a   b"]]:
            print("unexpected result for text:c='3': %r" % (good,))
            exit_code = 1
        broken = read_with_blank_count(folder, "abc")
        if not isinstance(broken, str):
            print("text:c='abc' must be refused but got rows: %r" % (broken,))
            exit_code = 1
        for negative_count in ("-3", "-1", " -2 "):
            result = read_with_blank_count(folder, negative_count)
            if isinstance(result, str):
                print("ok: text:c=%r refused: %s" % (negative_count, result))
            else:
                print(
                    "DEFECT: text:c=%r (negative repeat count of blanks) is silently accepted, rows read: %r; "
                    "expected a DataFormatError" % (negative_count, result)
                )
                exit_code = 1
    return exit_code


if __name__ == "__main__":
    sys.exit(main())
