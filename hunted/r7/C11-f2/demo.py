"""
C11 / f2: for delimited data the declared line delimiter is ignored when
reading: a CID that says "Line delimiter: LF" accepts data whose rows end with
CR or CRLF (and so on for every combination), while the same CID property for
fixed data is enforced.
"""
import io
import sys
import warnings

warnings.simplefilter("ignore")

from cutplace import errors, interface, validio  # noqa: E402

ACTUAL = {"lf": "\n", "cr": "\r", "crlf": "\r\n"}


def create_cid(data_format_name, line_delimiter_name):
    cid = interface.Cid()
    cid.read(
        "demo_cid",
        [
            ["D", "Format", data_format_name],
            ["D", "Line delimiter", line_delimiter_name],
            ["F", "a", "", "", "1"],
            ["F", "b", "", "", "1"],
        ],
    )
    return cid


def outcome(data_format_name, declared, actual_name):
    cid = create_cid(data_format_name, declared)
    line_end = ACTUAL[actual_name]
    if data_format_name == "Delimited":
        text = "x,y" + line_end + "u,v" + line_end
    else:
        text = "xy" + line_end + "uv" + line_end
    try:
        rows = list(validio.rows(cid, io.StringIO(text, newline="")))
    except errors.DataError as error:
        return "refused (%s)" % error
    return "accepted as %r" % rows


problems = []
for declared in ("lf", "cr", "crlf"):
    for actual_name in ("lf", "cr", "crlf"):
        must_accept = declared == actual_name
        for data_format_name in ("Fixed", "Delimited"):
            result = outcome(data_format_name, declared, actual_name)
            is_accepted = result.startswith("accepted")
            if is_accepted != must_accept:
                problems.append(
                    "%s data, CID says line delimiter %s, rows actually end with %s: %s"
                    % (data_format_name, declared.upper(), actual_name.upper(), result)
                )
# "Any" has to accept all of them.
for actual_name in ("lf", "cr", "crlf"):
    for data_format_name in ("Fixed", "Delimited"):
        result = outcome(data_format_name, "any", actual_name)
        if not result.startswith("accepted"):
            problems.append("%s data, line delimiter Any, actual %s: %s" % (data_format_name, actual_name, result))

if problems:
    print("the declared line delimiter does not mean what the CID says:")
    for problem in problems:
        print("  " + problem)
    sys.exit(1)
print("ok: only rows ending with the declared line delimiter are accepted")
sys.exit(0)
