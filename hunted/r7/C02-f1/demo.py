"""
An Excel number cell holding an integer of 1e16 or more is rejected by an Integer field
whose rule contains that integer.
"""
import os
import sys
import tempfile
import warnings

warnings.simplefilter("ignore")

from cutplace import errors, interface, rowio, validio  # noqa: E402

CID_TEXT = "d,format,excel\n" "f,big_id,,,,Integer,0...99999999999999999999\n"
VALUES = [5, 999999999999999, 10**15, 10**16, 3 * 10**16, 10**17, 10**19]


def main():
    cid = interface.create_cid_from_string(CID_TEXT)
    problems = []
    with tempfile.TemporaryDirectory() as folder:
        xlsx_path = os.path.join(folder, "big.xlsx")
        with rowio.XlsxRowWriter(xlsx_path) as xlsx_writer:
            for value in VALUES:
                # An int item is stored as number cell.
                xlsx_writer.write_row([value])
        raw_rows = list(rowio.excel_rows(xlsx_path))
        reader = validio.Reader(cid, xlsx_path, on_error="yield")
        results = list(reader.rows())
        reader.close()
    field_format = cid.field_format_for("big_id")
    for value, raw_row, result in zip(VALUES, raw_rows, results):
        if isinstance(result, errors.DataError):
            problems.append(
                "number cell %d (inside the rule 0...99999999999999999999) is read as %r and rejected: %s"
                % (value, raw_row[0], result)
            )
        else:
            native_value = field_format.validated(result[0])
            if native_value != value:
                problems.append("number cell %d is returned as %r" % (value, native_value))
    if problems:
        print("DEFECT: Integer field rejects integer cells of an Excel sheet:")
        for problem in problems:
            print("  " + problem)
        return 1
    print("ok: all integer cells accepted")
    return 0


if __name__ == "__main__":
    sys.exit(main())
