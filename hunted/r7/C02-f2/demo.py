"""
An Integer field of delimited data accepts cells that are no integer literal: blanks, tabs or
line feeds around the digits and underscores between the digits.
"""
import io
import sys
import warnings

warnings.simplefilter("ignore")

from cutplace import errors, interface, validio  # noqa: E402

CID_TEXT = "d,format,delimited\n" "d,item delimiter,;\n" "f,amount,,,,Integer,0...99\n"
#: Cells that are no integer literal and consequently must be rejected.
BROKEN_CELLS = [" 7", "7 ", "\t7", "7\n", "\u00a07", "1_0", "+1_2"]
#: Cells that must be accepted and the ``int`` they denote.
VALID_CELLS = [("7", 7), ("10", 10), ("99", 99), ("0", 0)]


def main():
    cid = interface.create_cid_from_string(CID_TEXT)
    field_format = cid.field_format_for("amount")
    problems = []
    for cell, expected in VALID_CELLS:
        try:
            actual = field_format.validated(cell)
            if actual != expected:
                problems.append("cell %r is returned as %r instead of %r" % (cell, actual, expected))
        except errors.FieldValueError as error:
            problems.append("cell %r is rejected: %s" % (cell, error))
    for cell in BROKEN_CELLS:
        try:
            actual = field_format.validated(cell)
            problems.append("cell %r is no integer literal but is accepted as %r" % (cell, actual))
        except errors.FieldValueError:
            pass

    # The same using a reader on a delimited file.
    data_text = '"7 "\n1_0\n'
    with validio.Reader(cid, io.StringIO(data_text), on_error="yield") as reader:
        for row_or_error in reader.rows():
            if not isinstance(row_or_error, errors.DataError):
                problems.append("Reader accepts the row %r" % row_or_error)

    if problems:
        print("DEFECT: Integer field with rule 0...99 of delimited data:")
        for problem in problems:
            print("  " + problem)
        return 1
    print("ok: only integer literals accepted")
    return 0


if __name__ == "__main__":
    sys.exit(main())
