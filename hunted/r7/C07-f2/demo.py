"""
C07: a header row (or a row after the validation limit) of delimited data that
contains text after a closing quote, for example the column title
  "id" (key),name
gets the whole data set rejected ("cannot parse delimited file"), although
header rows must be skipped "whatever they contain" and rows after the limit
must be returned unvalidated.
"""
import io
import logging
import os
import sys
import tempfile

from cutplace import applications, errors, interface, validio

logging.basicConfig(level=logging.CRITICAL)

CID_TEXT = "d,format,delimited\nd,header,%d\nd,encoding,utf-8\nf,id,,,,Integer\nf,name\n"
HEADER_DATA = '"id" (key),name\n1,a\n2,b\n'
AFTER_LIMIT_DATA = '1,a\n2,b\n"3" (?),c\n'


def run(folder):
    problems = []
    cid1 = interface.create_cid_from_string(CID_TEXT % 1)
    cid0 = interface.create_cid_from_string(CID_TEXT % 0)
    cid_path = os.path.join(folder, "cid.csv")
    data_path = os.path.join(folder, "data.csv")

    # Case A: the offending row is the header row.
    try:
        rows = list(validio.rows(cid1, io.StringIO(HEADER_DATA, newline="")))
        if rows != [["1", "a"], ["2", "b"]]:
            problems.append("A/rows(): unexpected rows %r" % rows)
    except errors.DataError as error:
        problems.append("A/rows(): header row was rejected: %s" % error)
    try:
        validio.validate(cid1, io.StringIO(HEADER_DATA, newline=""))
    except errors.DataError as error:
        problems.append("A/validate(): header row was rejected: %s" % error)
    with open(cid_path, "w", encoding="utf-8") as cid_file:
        cid_file.write(CID_TEXT % 1)
    with open(data_path, "w", encoding="utf-8", newline="") as data_file:
        data_file.write(HEADER_DATA)
    exit_code = applications.main(["cutplace", "--log", "critical", cid_path, data_path])
    if exit_code != 0:
        problems.append("A/command line: exit code %d instead of 0" % exit_code)

    # Case B: the offending row is row 3, the validation limit is 2.
    try:
        rows = list(validio.rows(cid0, io.StringIO(AFTER_LIMIT_DATA, newline=""), validate_until=2))
        if len(rows) != 3 or rows[:2] != [["1", "a"], ["2", "b"]] or rows[2][-1] != "c":
            problems.append("B/rows(validate_until=2): unexpected rows %r" % rows)
    except errors.DataError as error:
        problems.append("B/rows(validate_until=2): row 3 was rejected: %s" % error)
    with open(cid_path, "w", encoding="utf-8") as cid_file:
        cid_file.write(CID_TEXT % 0)
    with open(data_path, "w", encoding="utf-8", newline="") as data_file:
        data_file.write(AFTER_LIMIT_DATA)
    exit_code = applications.main(["cutplace", "--log", "critical", "--until", "2", cid_path, data_path])
    if exit_code != 0:
        problems.append("B/command line --until 2: exit code %d instead of 0" % exit_code)

    if problems:
        print("DEFECT: rows outside the validated range are rejected because of their content:")
        for problem in problems:
            print("  " + problem)
        return 1
    print("OK: header rows and rows after the limit are accepted whatever they contain")
    return 0


if __name__ == "__main__":
    with tempfile.TemporaryDirectory(prefix="c07f2_") as temp_folder:
        sys.exit(run(temp_folder))
