"""
A CID cell that is tokenized (length, rule or type of a field, rule of a
check, data format properties 'allowed characters' and 'item delimiter') and
that contains an indented line followed by a line with a NUL character makes
Python 3.12's tokenizer raise a SystemError that escapes Cid.read() and
results in exit code 4 on the command line.
"""
import csv
import logging
import os
import sys
import tempfile
import warnings

warnings.simplefilter("ignore")

from cutplace import applications, errors, interface, ranges

HOSTILE = " 5\n\x00"

CIDS = {
    "field length": [["d", "format", "delimited"], ["f", "surname", "", "", HOSTILE]],
    "allowed characters": [
        ["d", "format", "delimited"],
        ["d", "allowed characters", " 32...\n\x00"],
        ["f", "surname"],
    ],
    "item delimiter": [["d", "format", "delimited"], ["d", "item delimiter", " 59\n\x00"], ["f", "surname"]],
    "field rule": [["d", "format", "delimited"], ["f", "surname", "", "", "", "Choice", "a,\n b\n\x00c"]],
    "field type": [["d", "format", "delimited"], ["f", "surname", "", "", "", "Text\n x\n\x00y"]],
    "check rule": [["d", "format", "delimited"], ["f", "surname"], ["c", "unique", "IsUnique", "surname\n x\n\x00y"]],
}


def main():
    problems = []

    # 1. Programmatic API.
    for name, cid_rows in CIDS.items():
        try:
            cid = interface.Cid()
            cid.read("cid", cid_rows)
            print("%s: CID accepted" % name)
        except errors.CutplaceError as error:
            print("%s: ok, %s: %s" % (name, type(error).__name__, str(error)[:70]))
        except Exception as error:
            problems.append("Cid.read() with hostile %s raises %s instead of InterfaceError" % (name, type(error).__name__))
    try:
        ranges.Range(HOSTILE)
    except errors.CutplaceError:
        pass
    except Exception as error:
        problems.append("cutplace.Range(%r) raises %s instead of InterfaceError" % (HOSTILE, type(error).__name__))

    # 2. Command line with the CID stored as CSV.
    logging.disable(logging.CRITICAL)
    with tempfile.TemporaryDirectory() as folder:
        cid_path = os.path.join(folder, "cid.csv")
        data_path = os.path.join(folder, "data.csv")
        with open(cid_path, "w", newline="", encoding="utf-8") as cid_file:
            csv.writer(cid_file).writerows(CIDS["field length"])
        with open(data_path, "w", encoding="utf-8") as data_file:
            data_file.write("Miller\n")
        exit_code = applications.main(["cutplace", cid_path, data_path])
        print("command line exit code: %r" % exit_code)
        if exit_code == 4:
            problems.append("command line answers a hostile length cell in the CID with exit code 4")

    for problem in problems:
        print("DEFECT: " + problem)
    return 1 if problems else 0


if __name__ == "__main__":
    sys.exit(main())
