"""
C07: validate() cannot cope with a validation limit above sys.maxsize: it ends
in a ValueError of itertools.islice() instead of validating the rows up to
the limit, while rows(), Reader.validate_rows() and the command line accept
the very same limit.
"""
import io
import sys

from cutplace import errors, interface, validio

CID_TEXT = "d,format,delimited\nd,header,1\nf,id,,,,Integer\n"
GOOD_DATA = "id\n1\n2\n"
BAD_DATA = "id\n1\nx\n"  # row 3 is broken
LIMIT = sys.maxsize + 1


def outcome(function, *args, **kwargs):
    try:
        list(function(*args, **kwargs) or [])
        return "accepted"
    except errors.DataError:
        return "rejected"
    except Exception as error:
        return "%s: %s" % (type(error).__name__, error)


def main():
    cid = interface.create_cid_from_string(CID_TEXT)
    problems = []
    for api_name, api in (("rows", validio.rows), ("validate", validio.validate)):
        for data_name, data_text, expected in (("good data", GOOD_DATA, "accepted"), ("row 3 broken", BAD_DATA, "rejected")):
            actual = outcome(api, cid, io.StringIO(data_text), validate_until=LIMIT)
            if actual != expected:
                problems.append(
                    "%s(validate_until=%d) on %s: expected %s but got %s" % (api_name, LIMIT, data_name, expected, actual)
                )
    if problems:
        print("DEFECT: a limit of N must validate all rows with a number of at most N:")
        for problem in problems:
            print("  " + problem)
        return 1
    print("OK")
    return 0


if __name__ == "__main__":
    sys.exit(main())
