"""
C07: an Excel header row (or a row after the validation limit) that contains a
date/time formatted cell with a serial number xlrd cannot convert (for example
the duration 25:30:00 = 1.0625, or a date in January/February 1900) makes
cutplace reject the whole data set, although such rows must be neither
validated (header) nor rejected (after the limit).
"""
import logging
import os
import sys
import tempfile

from cutplace import applications, errors, interface, rowio, validio

logging.basicConfig(level=logging.CRITICAL)

CID_TEXT = "d,format,excel\nd,header,%d\nf,id,,,,Integer\nf,duration\n"


def write_xlsx(path, rows):
    """rows: list of (id_text, duration) where duration is a str or a float (written as [h]:mm:ss cell)."""
    writer = rowio.XlsxRowWriter(path)
    duration_format = writer.workbook.add_format({"num_format": "[h]:mm:ss"})
    for y, (id_text, duration) in enumerate(rows):
        writer.worksheet.write_string(y, 0, id_text)
        if isinstance(duration, str):
            writer.worksheet.write_string(y, 1, duration)
        else:
            writer.worksheet.write_number(y, 1, duration, duration_format)
    writer.close()


def main():
    with tempfile.TemporaryDirectory(prefix="c07f1_") as folder:
        return run(folder)


def run(folder):
    problems = []

    # Case A: the offending cell sits in the single header row.
    header_path = os.path.join(folder, "header.xlsx")
    write_xlsx(header_path, [("id", 1.0625), ("1", "a"), ("2", "b")])
    cid1 = interface.create_cid_from_string(CID_TEXT % 1)
    try:
        rows = list(validio.rows(cid1, header_path))
        if rows != [["1", "a"], ["2", "b"]]:
            problems.append("A/rows: unexpected rows %r" % rows)
    except errors.DataError as error:
        problems.append("A/rows(): header row was rejected: %s" % error)
    try:
        validio.validate(cid1, header_path)
    except errors.DataError as error:
        problems.append("A/validate(): header row was rejected: %s" % error)
    cid_path = os.path.join(folder, "cid.csv")
    with open(cid_path, "w", encoding="utf-8") as cid_file:
        cid_file.write(CID_TEXT % 1)
    exit_code = applications.main(["cutplace", "--log", "critical", cid_path, header_path])
    if exit_code != 0:
        problems.append("A/command line: exit code %d instead of 0" % exit_code)

    # Control: the same sheet with 12:00:00 (0.5) in the header works, so the file as such is fine.
    control_path = os.path.join(folder, "control.xlsx")
    write_xlsx(control_path, [("id", 0.5), ("1", "a"), ("2", "b")])
    assert list(validio.rows(cid1, control_path)) == [["1", "a"], ["2", "b"]]

    # Case B: the offending cell sits in row 3, the validation limit is 2.
    after_limit_path = os.path.join(folder, "after_limit.xlsx")
    write_xlsx(after_limit_path, [("1", "a"), ("2", "b"), ("3", 1.0625)])
    cid0 = interface.create_cid_from_string(CID_TEXT % 0)
    try:
        rows = list(validio.rows(cid0, after_limit_path, validate_until=2))
        if len(rows) != 3 or rows[:2] != [["1", "a"], ["2", "b"]] or rows[2][0] != "3":
            problems.append("B/rows: unexpected rows %r" % rows)
    except errors.DataError as error:
        problems.append("B/rows(validate_until=2): row 3 was rejected: %s" % error)
    try:
        validio.validate(cid0, after_limit_path, validate_until=2)
    except errors.DataError as error:
        problems.append("B/validate(validate_until=2): row 3 was rejected: %s" % error)
    with open(cid_path, "w", encoding="utf-8") as cid_file:
        cid_file.write(CID_TEXT % 0)
    exit_code = applications.main(["cutplace", "--log", "critical", "--until", "2", cid_path, after_limit_path])
    if exit_code != 0:
        problems.append("B/command line --until 2: exit code %d instead of 0" % exit_code)

    if problems:
        print("DEFECT: rows outside the validated range are rejected because of their content:")
        for problem in problems:
            print("  " + problem)
        return 1
    print("OK: header rows and rows after the limit are accepted whatever they contain")
    return 0


if __name__ == "__main__":
    sys.exit(main())
