"""
C20 / f2: when the run is closed, a check declared after a check that fails
at the end is never asked for its end-of-data verdict.

The protocol says that for each data set every check is asked for its
end-of-data verdict once, in declaration order, when the run is closed, after
which every check is cleaned up.
"""
import io
import sys

from cutplace import checks, errors, interface, validio

CALLS = []


class F2RecordingCheck(checks.AbstractCheck):
    def __init__(self, description, rule, available_field_names, location_of_definition=None):
        super().__init__(description, rule, available_field_names, location_of_definition)

    def reset(self):
        CALLS.append(("reset", self.description))

    def check_row(self, field_name_to_value_map, location):
        CALLS.append(("row", self.description))

    def check_at_end(self, location):
        CALLS.append(("end", self.description))
        if self.rule == "fail":
            raise errors.CheckError("%s failed at the end" % self.description, location)

    def cleanup(self):
        CALLS.append(("cleanup", self.description))


CID_TEXT = "\n".join(
    [
        "d,format,delimited",
        "f,name",
        "c,first,F2Recording,fail",
        "c,second,F2Recording,",
        "c,third,F2Recording,fail",
        "",
    ]
)
EXPECTED_END_CALLS = [("end", "first"), ("end", "second"), ("end", "third")]
EXPECTED_CLEANUP_CALLS = [("cleanup", "first"), ("cleanup", "second"), ("cleanup", "third")]


def closing_calls(title, run):
    cid = interface.create_cid_from_string(CID_TEXT)
    del CALLS[:]
    error = None
    try:
        run(cid)
    except errors.CheckError as check_error:
        error = check_error
    ends = [call for call in CALLS if call[0] == "end"]
    cleanups = [call for call in CALLS if call[0] == "cleanup"]
    problems = []
    if error is None:
        problems.append("%s: close() must report the failed check at the end" % title)
    if ends != EXPECTED_END_CALLS:
        problems.append("%s: end-of-data verdicts asked: %r but must be: %r" % (title, ends, EXPECTED_END_CALLS))
    if cleanups != EXPECTED_CLEANUP_CALLS:
        problems.append("%s: cleanups: %r but must be: %r" % (title, cleanups, EXPECTED_CLEANUP_CALLS))
    elif ends and CALLS.index(cleanups[0]) < CALLS.index(ends[-1]):
        problems.append("%s: cleanup must happen after all verdicts: %r" % (title, CALLS))
    return problems


def run_reader(cid):
    reader = validio.Reader(cid, io.StringIO("alice\nbob\n", newline=""))
    for _ in reader.rows():
        pass
    reader.close()


def run_writer(cid):
    writer = validio.Writer(cid, io.StringIO(newline=""))
    writer.write_row(["alice"])
    writer.write_row(["bob"])
    writer.close()


problems = closing_calls("Reader", run_reader) + closing_calls("Writer", run_writer)
if problems:
    print("DEFECT: checks declared after a check failing at the end are never asked for their end-of-data verdict")
    for problem in problems:
        print("  " + problem)
    sys.exit(1)
print("ok: every check is asked for its end-of-data verdict once in declaration order")
sys.exit(0)
