"""
C20 / f3: the validation of the graphical user interface (cutplace --gui,
cutplace.gui.CutplaceFrame.validate) reads all rows but never closes the run:
no check is ever asked for its end-of-data verdict and no check is cleaned up,
so failed checks at the end (for example DistinctCount) are never reported.

The protocol says that for each data set every check is asked for its
end-of-data verdict once when the run is closed, after which every check is
cleaned up.

The demo drives CutplaceFrame.validate() with a stand-in for the Tk widgets so
no display is needed.
"""
import os
import sys
import tempfile

from cutplace import checks, errors, gui

CALLS = []


class F3RecordingCheck(checks.AbstractCheck):
    def __init__(self, description, rule, available_field_names, location_of_definition=None):
        super().__init__(description, rule, available_field_names, location_of_definition)

    def reset(self):
        CALLS.append(("reset", self.description))

    def check_row(self, field_name_to_value_map, location):
        CALLS.append(("row", self.description))

    def check_at_end(self, location):
        CALLS.append(("end", self.description))
        raise errors.CheckError("F3-END-VERDICT-FAILED", location)

    def cleanup(self):
        CALLS.append(("cleanup", self.description))


class FakeText(object):
    def __init__(self):
        self.lines = []

    def config(self, **_):
        pass

    configure = config

    def insert(self, _, text):
        self.lines.append(text)

    def see(self, _):
        pass

    def delete(self, *_):
        pass

    def get(self, *_):
        return "".join(self.lines)


class FakeStatus(object):
    def set(self, _):
        pass


class FakeMaster(object):
    def update(self):
        pass


class FakeFrame(object):
    def __init__(self, cid_path, data_path):
        self.cid_path = cid_path
        self.data_path = data_path
        self.master = FakeMaster()
        self._validation_report_text = FakeText()
        self._validation_status_text = FakeStatus()

    def clear_validation_report_text(self):
        pass

    def _enable_usable_widgets(self):
        pass


if not gui.has_tk:
    print("cannot test: tkinter is not available, so cutplace.gui.CutplaceFrame does not exist")
    sys.exit(0)

with tempfile.TemporaryDirectory() as folder:
    cid_path = os.path.join(folder, "cid_f3.csv")
    data_path = os.path.join(folder, "data_f3.csv")
    with open(cid_path, "w", encoding="utf-8") as cid_file:
        cid_file.write(
            "d,format,delimited\n"
            "f,name\n"
            "c,recording,F3Recording,\n"
            "c,at_least_5_names,DistinctCount,name >= 5\n"
        )
    with open(data_path, "w", encoding="cp1252") as data_file:
        data_file.write("alice\nbob\n")
    frame = FakeFrame(cid_path, data_path)
    gui.CutplaceFrame.validate(frame)
    report = "".join(frame._validation_report_text.lines)

print("validation report of the GUI:")
for line in report.splitlines():
    print("  | " + line)
print("calls of the recording check: %r" % CALLS)
problems = []
if CALLS.count(("row", "recording")) != 2:
    problems.append("the check must see both rows")
if CALLS.count(("end", "recording")) != 1:
    problems.append(
        "the check must be asked for its end-of-data verdict once but was asked %d times"
        % CALLS.count(("end", "recording"))
    )
if CALLS.count(("cleanup", "recording")) != 1:
    problems.append("the check must be cleaned up once but was %d times" % CALLS.count(("cleanup", "recording")))
if "F3-END-VERDICT-FAILED" not in report:
    problems.append("the validation report must mention the check that failed at the end")
if problems:
    print("DEFECT: CutplaceFrame.validate() never closes the Reader")
    for problem in problems:
        print("  " + problem)
    sys.exit(1)
print("ok: the GUI closes the run")
sys.exit(0)
