"""
C14 / f1: a row the Writer rejects because it cannot be encoded (DataFormatError,
nothing emitted) has already been registered in the checks of the CID. The
next row with the same key - which is perfectly fine, as nothing with that key
has been emitted - is refused as duplicate, and the distinct count at close()
is judged on rows that are not in the output, so the output does not validate
again.
"""
import io
import os
import sys
import tempfile
import warnings

warnings.simplefilter("ignore")

from cutplace import errors, interface, validio  # noqa: E402

problems = []


def cid_from(rows):
    result = interface.Cid()
    result.read("inline", rows)
    return result


def written(cid, rows):
    """Tuple (accepted rows, rejected rows with error, error of close(), text written)."""
    handle, path = tempfile.mkstemp(suffix=".dat")
    os.close(handle)
    accepted = []
    rejected = []
    close_error = None
    try:
        writer = validio.Writer(cid, path)
        try:
            for row in rows:
                try:
                    writer.write_row(row)
                    accepted.append(row)
                except errors.DataError as error:
                    rejected.append((row, error))
        finally:
            try:
                writer.close()
            except errors.CheckError as error:
                close_error = error
        with io.open(path, "r", encoding=cid.data_format.encoding, newline="") as written_file:
            text = written_file.read()
    finally:
        os.remove(path)
    return accepted, rejected, close_error, text


def read_back(cid, text):
    with validio.Reader(cid, io.StringIO(text, newline="")) as reader:
        return list(reader.rows())


for data_format_rows, field_rows, pad in (
    ([["d", "format", "delimited"]], [["f", "id"], ["f", "name"]], None),
    ([["d", "format", "fixed"]], [["f", "id", "", "", "3"], ["f", "name", "", "", "8"]], (3, 8)),
):
    format_name = data_format_rows[0][2]
    # NOTE: The encoding is the default one (cp1252), which cannot store the Polish "L with stroke".

    # Symptom 1: IsUnique keeps the key of the row that was never written.
    cid = cid_from(data_format_rows + field_rows + [["c", "id must be unique", "IsUnique", "id"]])
    rows = [["1", "Łukasz"], ["1", "Lukasz"], ["2", "Anna"]]
    accepted, rejected, close_error, text = written(cid, rows)
    rejected_rows = [row for row, _ in rejected]
    if rows[0] not in rejected_rows:
        print("note (%s): the row that cannot be encoded has been accepted" % format_name)
    elif rows[1] in rejected_rows:
        error = [error for row, error in rejected if row == rows[1]][0]
        problems.append(
            "%s: row %r was rejected with %s: %s\n    although the only earlier row with id '1' (%r) had been rejected "
            "and nothing has been emitted for it; text written: %r"
            % (format_name, rows[1], type(error).__name__, error, rows[0], text)
        )

    # Symptom 2: DistinctCount at close() counts the row that was never written,
    # so close() passes but the output does not validate again.
    cid = cid_from(data_format_rows + field_rows + [["c", "at least 2 ids", "DistinctCount", "id >= 2"]])
    rows = [["1", "Anna"], ["2", "Łukasz"]]
    accepted, rejected, close_error, text = written(cid, rows)
    if [row for row, _ in rejected] == [rows[1]] and close_error is None:
        try:
            read_back(cid, text)
        except errors.DataError as error:
            problems.append(
                "%s: Writer accepted %r, rejected %r and close() reported no error, but reading the output %r back "
                "under the same CID fails with %s: %s" % (format_name, accepted, rows[1], text, type(error).__name__, error)
            )

if problems:
    print("C14 violated: rows rejected while writing them (cannot be encoded) still count for the checks")
    for problem in problems:
        print("  - " + problem)
    sys.exit(1)
print("ok: rows rejected because they cannot be encoded leave no trace in the checks")
sys.exit(0)
