"""
docs/writing-an-icd.rst, section "Ranges", documents u"Ü" as an escaped
text that is the "same as 220" - and ranges are the value of the data format
property "Allowed characters". The code refuses exactly this documented
spelling (and any other u"..." text) with an InterfaceError.
"""
import sys
import warnings

warnings.simplefilter("ignore")

from cutplace import data, errors, interface

DOCUMENTED = 'u"\\u00dc"'  # the 9 characters  u"Ü"  as shown in the documentation
PLAIN = '"\\u00dc"'

problems = []

# 1. Directly on the data format.
plain_format = data.DataFormat(data.FORMAT_DELIMITED)
plain_format.set_property(data.KEY_ALLOWED_CHARACTERS, PLAIN)
assert plain_format.allowed_characters.items == [(220, 220)], plain_format.allowed_characters.items

documented_format = data.DataFormat(data.FORMAT_DELIMITED)
try:
    documented_format.set_property(data.KEY_ALLOWED_CHARACTERS, DOCUMENTED)
    if documented_format.allowed_characters.items != [(220, 220)]:
        problems.append(
            "allowed characters %s must mean 220 but means %s" % (DOCUMENTED, documented_format.allowed_characters.items)
        )
except errors.InterfaceError as error:
    problems.append("set_property('allowed characters', %r) is refused: %s" % (DOCUMENTED, error))

# 2. The same in a complete CID (value cell quoted for CSV).
cid_text = "\n".join(
    [
        "D,Format,Delimited",
        "D,Encoding,UTF-8",
        'D,Allowed characters,"u""\\u00dc"""',
        "F,name",
    ]
)
try:
    cid = interface.create_cid_from_string(cid_text)
    if cid.data_format.allowed_characters.items != [(220, 220)]:
        problems.append("CID: allowed characters mean %s instead of 220" % cid.data_format.allowed_characters.items)
except errors.InterfaceError as error:
    problems.append("CID with documented Allowed characters %s is refused: %s" % (DOCUMENTED, error))

if problems:
    print('documented spelling u"\\u00dc" (docs/writing-an-icd.rst: same as 220) is not accepted:')
    for problem in problems:
        print("  - " + problem)
    sys.exit(1)
print("ok: documented spelling is accepted")
sys.exit(0)
