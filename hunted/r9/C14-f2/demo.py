"""
C14: the validating Writer accepts and writes values with characters that the
declared encoding can encode but not give back: shift_jis and euc_jp encode
U+00A5 (yen sign) as byte 0x5C, which decodes as a backslash; cp932 encodes
U+00A2 (cent sign) as 0x8191, which decodes as U+FFE0. Reading the output
back under the same CID returns other values than the written ones, rejects
rows the Writer accepted as distinct (IsUnique) and, where the backslash is
the escape character, even another number of items.

Exit code 1 = defect present, 0 = behaviour conforms (the Writer either
refuses such a row or the values read back are the written ones).
"""
import os
import sys
import tempfile
import warnings

warnings.simplefilter("ignore")

from cutplace import errors, interface, validio  # noqa: E402


def create_cid(encoding, escape_character, with_unique_check):
    cid = interface.Cid()
    rows = [
        ["d", "format", "delimited"],
        ["d", "encoding", encoding],
        ["d", "escape character", escape_character],
        ["f", "price", "", "", "1...10"],
        ["f", "note", "", "X", "0...10"],
    ]
    if with_unique_check:
        rows.append(["c", "price must be unique", "IsUnique", "price"])
    cid.read("inline_cid", rows)
    return cid


def check(title, encoding, escape_character, with_unique_check, rows_to_write, folder):
    problems = []
    cid = create_cid(encoding, escape_character, with_unique_check)
    target_path = os.path.join(folder, "out.csv")
    accepted_rows = []
    with validio.Writer(cid, target_path) as writer:
        for row in rows_to_write:
            try:
                writer.write_row(row)
                accepted_rows.append(row)
            except errors.DataError:
                pass
    read_items = list(
        validio.rows(create_cid(encoding, escape_character, with_unique_check), target_path, on_error="yield")
    )
    if read_items != accepted_rows:
        problems.append(
            "%s (encoding %s): Writer accepted %r but reading the output back gives %r"
            % (title, encoding, accepted_rows, [str(item) if isinstance(item, Exception) else item for item in read_items])
        )
    return problems


def main():
    problems = []
    with tempfile.TemporaryDirectory() as folder:
        problems.extend(check("values change", "shift_jis", '"', False, [["¥100", "x"]], folder))
        problems.extend(check("values change", "cp932", '"', False, [["¢100", "x"]], folder))
        problems.extend(
            check("distinct rows turn into duplicates", "shift_jis", '"', True, [["¥100", "a"], ["\\100", "b"]], folder)
        )
        problems.extend(
            check("item count changes with escape character backslash", "euc_jp", "\\", False, [["100¥", "x"]], folder)
        )
    if problems:
        print("DEFECT: output of the validating Writer does not read back as written:")
        for problem in problems:
            print("  - " + problem)
        return 1
    print("OK: everything the Writer accepted reads back unchanged")
    return 0


if __name__ == "__main__":
    sys.exit(main())
