"""
C06: a short fixed record must stop reading with a data-format error in every
error mode. fixed_rows() instead takes the characters of the line delimiter
as field data, so a record that is one character short is read as a complete
record and reading goes on in 'raise', 'continue' and 'yield' mode.
"""
import os
import sys
import tempfile

from cutplace import errors, interface, validio

CID_TEXT = "\n".join(
    [
        "D,Format,fixed",
        "D,Encoding,ascii",
        "D,Line delimiter,%s",
        "F,name,,,3",
        "F,flag,,,1",
    ]
)

# (line delimiter property, file content, description)
CASES = [
    # Record 2 is 'def' (3 characters) instead of 4; all records end with CR LF.
    ("any", b"abcX\r\ndef\r\nghiZ\r\n", "middle record one character short, CR LF file, line delimiter 'any'"),
    # The last record is 'ghi' (3 characters) instead of 4; all records end with LF.
    ("lf", b"abcX\ndefY\nghi\n", "last record one character short, LF file, line delimiter 'lf'"),
]


def outcome(cid, data_path, on_error):
    items = []
    raised = None
    reader = validio.Reader(cid, data_path, on_error=on_error)
    try:
        for item in reader.rows():
            items.append(item)
    except errors.DataError as error:
        raised = error
    finally:
        try:
            reader.close()
        except errors.CheckError:
            pass
    return items, raised


def main():
    problems = []
    folder = tempfile.mkdtemp(prefix="c06_f1_")
    for index, (line_delimiter, content, description) in enumerate(CASES):
        data_path = os.path.join(folder, "short_%d.txt" % index)
        with open(data_path, "wb") as data_file:
            data_file.write(content)
        for on_error in ("raise", "continue", "yield"):
            cid = interface.create_cid_from_string(CID_TEXT % line_delimiter)
            items, raised = outcome(cid, data_path, on_error)
            if not isinstance(raised, errors.DataFormatError):
                problems.append(
                    "%s; on_error=%r: expected DataFormatError for the short record but reading went on: "
                    "items=%r, raised=%r" % (description, on_error, items, raised)
                )
    for problem in problems:
        print(problem)
    if problems:
        print("DEFECT: a short fixed record does not stop reading with a data-format error")
        return 1
    print("OK: short fixed records stop reading with a data-format error in every mode")
    return 0


if __name__ == "__main__":
    sys.exit(main())
