"""
C14: after the validating Writer has rejected a row because of a character the
declared (stateful) encoding cannot represent, the NEXT accepted row is written
as garbage: the text encoder of the target file keeps the shift state of the
refused row, so the escape sequence that must introduce the Japanese text of
the next row is never written. Reading the output back under the same CID
returns different values (or fails).

Exit code 1 = defect present, 0 = behaviour conforms.
"""
import io
import os
import sys
import tempfile
import warnings

warnings.simplefilter("ignore")

from cutplace import errors, interface, validio  # noqa: E402


def create_cid(format_name, encoding):
    cid = interface.Cid()
    rows = [
        ["d", "format", format_name],
        ["d", "encoding", encoding],
        ["d", "line delimiter", "lf"],
        ["f", "name", "", "", "1...4" if format_name == "delimited" else "4"],
    ]
    cid.read("inline_cid", rows)
    return cid


def check(format_name, encoding, rows_to_write, folder):
    """List of problems found."""
    problems = []
    cid = create_cid(format_name, encoding)
    target_path = os.path.join(folder, "%s_%s.dat" % (format_name, encoding))
    accepted_rows = []
    rejected_rows = []
    with validio.Writer(cid, target_path) as writer:
        for row in rows_to_write:
            try:
                writer.write_row(row)
                accepted_rows.append(row)
            except errors.DataError:
                # Documented: "after a CutplaceError you can continue writing".
                rejected_rows.append(row)
    with io.open(target_path, "rb") as target_file:
        target_bytes = target_file.read()
    if format_name == "fixed":
        expected_rows = [[item.ljust(4) for item in row] for row in accepted_rows]
    else:
        expected_rows = accepted_rows
    # What the file must contain: exactly the accepted rows, properly encoded.
    expected_bytes = "".join("".join(row) + "\n" for row in expected_rows).encode(encoding)
    what = "%s/%s: wrote %r, Writer accepted %r and rejected %r" % (
        format_name,
        encoding,
        rows_to_write,
        accepted_rows,
        rejected_rows,
    )
    if target_bytes != expected_bytes:
        problems.append("%s; file contains %r instead of %r" % (what, target_bytes, expected_bytes))
    try:
        read_rows = list(validio.rows(create_cid(format_name, encoding), target_path))
    except errors.CutplaceError as error:
        problems.append("%s; reading the output back fails: %s" % (what, error))
    else:
        if read_rows != expected_rows:
            problems.append("%s; reading the output back returns %r instead of %r" % (what, read_rows, expected_rows))
    return problems


def main():
    problems = []
    with tempfile.TemporaryDirectory() as folder:
        # U+1F600 cannot be represented in ISO-2022-JP, so the first row is refused by the Writer
        # with a DataFormatError; the second row is fine and accepted.
        rows_to_write = [["日本\U0001F600"], ["日本"], ["ab"]]
        for format_name in ("delimited", "fixed"):
            for encoding in ("iso2022_jp", "hz"):
                problems.extend(check(format_name, encoding, rows_to_write, folder))
    if problems:
        print("DEFECT: rows accepted after a rejected row are written broken:")
        for problem in problems:
            print("  - " + problem)
        return 1
    print("OK: output contains exactly the accepted rows and reads back unchanged")
    return 0


if __name__ == "__main__":
    sys.exit(main())
