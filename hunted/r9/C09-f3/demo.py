"""
C09: the length of a field must be well formed; the CID reader refuses lengths with negative
limits ("-1", "-3...5", "...-1": "upper limit for length of field ... must be at least 0").
The test only looks at the overall lower / upper limit of the range, which is None as soon as
one part is open, so the same negative limit is accepted when another part is added:
"...-1, 3" or "...-2, 5...".
"""
import sys
import warnings

warnings.simplefilter("ignore")

from cutplace import errors, interface


def is_accepted(data_format, length):
    rows = [
        ["D", "Format", data_format],
        ["F", "some_field", "", "", length, "Text", ""],
    ]
    try:
        interface.Cid().read("cid.csv", rows)
        return True, None
    except errors.InterfaceError as error:
        return False, str(error)


failures = []
for data_format in ("Delimited", "Excel", "ODS"):
    for length in ("-1", "...-1", "-3...5"):
        accepted, message = is_accepted(data_format, length)
        if accepted or ("R2C" not in message):
            # Not the defect to show here, but the demo relies on it.
            failures.append("reference length %r for %s: accepted=%s, message=%s" % (length, data_format, accepted, message))
    for length in ("...-1, 3", "3, ...-1", "...-2, 5..."):
        accepted, message = is_accepted(data_format, length)
        if accepted:
            failures.append("format %s: length %r with a negative upper limit is accepted" % (data_format, length))
        elif "R2C" not in message:
            failures.append("format %s: length %r rejected without naming row 2: %s" % (data_format, length, message))

if failures:
    print("DEFECT: negative length limits slip through when the length has several parts:")
    for failure in failures:
        print("  " + failure)
    sys.exit(1)
sys.exit(0)
