"""
C12: a delimited format whose quote character the encoding cannot represent
is accepted by the CID loader, but tables cannot be written with it.
"""
import os
import sys
import tempfile
import warnings

warnings.simplefilter("ignore")

from cutplace import errors, interface, rowio


def main():
    cid = interface.Cid()
    try:
        cid.read(
            "inline",
            [
                ["d", "format", "delimited"],
                ["d", "encoding", "cp864"],
                ["d", "item delimiter", ","],
                ["d", "quote character", "%"],
                ["d", "escape character", '"'],
                ["d", "quoting", "all"],
                ["d", "line delimiter", "lf"],
                ["f", "a"],
                ["f", "b"],
            ],
        )
    except errors.InterfaceError as error:
        print("OK: the CID loader refuses the format: %s" % error)
        return 0
    data_format = cid.data_format
    table = [["a", "b"], ["c,d", ""]]
    folder = tempfile.mkdtemp()
    path = os.path.join(folder, "data.csv")
    try:
        with rowio.DelimitedRowWriter(path, data_format) as writer:
            writer.write_rows(table)
        back = list(rowio.delimited_rows(path, data_format))
    except Exception as error:
        print("DEFECT: format (encoding=cp864, quote character='%') was accepted by the CID loader,")
        print("  but the table %r cannot be written and read back:" % table)
        print("  %s: %s" % (type(error).__name__, error))
        return 1
    if back != table:
        print("DEFECT: wrote %r but read %r" % (table, back))
        return 1
    print("OK: table round-trips")
    return 0


if __name__ == "__main__":
    sys.exit(main())
