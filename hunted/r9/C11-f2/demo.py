"""
An item delimiter can be given "as decimal or hex code"; other values have to
be refused. Octal and binary Python literals are accepted nevertheless.
"""
import sys
import warnings

warnings.simplefilter("ignore")

from cutplace import data, errors, interface

problems = []
for value in ("0o54", "0O54", "0b101100", "0B101100"):
    data_format = data.DataFormat(data.FORMAT_DELIMITED)
    try:
        data_format.set_property(data.KEY_ITEM_DELIMITER, value)
        problems.append(
            "item delimiter %r is neither a decimal nor a hex code but is accepted as %r"
            % (value, data_format.item_delimiter)
        )
    except errors.InterfaceError:
        pass

# The documented spellings keep working.
for value in ("44", "0x2c", '","', ","):
    data_format = data.DataFormat(data.FORMAT_DELIMITED)
    data_format.set_property(data.KEY_ITEM_DELIMITER, value)
    assert data_format.item_delimiter == ",", value

# The same in a complete CID.
try:
    cid = interface.create_cid_from_string("D,Format,Delimited\nD,Item delimiter,0b111011\nF,a\nF,b")
    problems.append("CID with item delimiter 0b111011 is accepted, delimiter is %r" % cid.data_format.item_delimiter)
except errors.InterfaceError:
    pass

if problems:
    for problem in problems:
        print(problem)
    sys.exit(1)
print("ok: only decimal and hex codes are accepted")
sys.exit(0)
