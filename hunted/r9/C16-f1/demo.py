"""
C16: the Sheet property counts worksheets only, so a workbook whose first tab is a chart sheet
delivers the wrong sheet (or a false "not enough sheets" error).

The workbook built here has three sheets (tabs) in this order:
  1. "Chart1"  (a chart sheet)
  2. "First"   (a worksheet whose only cell says "First")
  3. "Second"  (a worksheet whose only cell says "Second")
A CID with "Sheet = 2" must read the second sheet, i.e. "First".
"""
import os
import sys
import tempfile
import zipfile

from cutplace import errors, interface, validio

NS = "http://schemas.openxmlformats.org/spreadsheetml/2006/main"
RNS = "http://schemas.openxmlformats.org/officeDocument/2006/relationships"
PKG = "http://schemas.openxmlformats.org/package/2006/relationships"
CT = "application/vnd.openxmlformats-officedocument.spreadsheetml."


def worksheet_xml(text):
    return (
        '<?xml version="1.0" encoding="UTF-8" standalone="yes"?>'
        '<worksheet xmlns="%s"><sheetData><row r="1"><c r="A1" t="inlineStr"><is><t>%s</t></is></c></row>'
        "</sheetData></worksheet>" % (NS, text)
    )


def build_workbook(path):
    with zipfile.ZipFile(path, "w", zipfile.ZIP_DEFLATED) as z:
        z.writestr(
            "[Content_Types].xml",
            '<?xml version="1.0" encoding="UTF-8" standalone="yes"?>'
            '<Types xmlns="http://schemas.openxmlformats.org/package/2006/content-types">'
            '<Default Extension="rels" ContentType="application/vnd.openxmlformats-package.relationships+xml"/>'
            '<Default Extension="xml" ContentType="application/xml"/>'
            '<Override PartName="/xl/workbook.xml" ContentType="%ssheet.main+xml"/>'
            '<Override PartName="/xl/chartsheets/sheet1.xml" ContentType="%schartsheet+xml"/>'
            '<Override PartName="/xl/worksheets/sheet1.xml" ContentType="%sworksheet+xml"/>'
            '<Override PartName="/xl/worksheets/sheet2.xml" ContentType="%sworksheet+xml"/>'
            "</Types>" % (CT, CT, CT, CT),
        )
        z.writestr(
            "_rels/.rels",
            '<?xml version="1.0" encoding="UTF-8" standalone="yes"?><Relationships xmlns="%s">'
            '<Relationship Id="rId1" Type="%s/officeDocument" Target="xl/workbook.xml"/></Relationships>' % (PKG, RNS),
        )
        z.writestr(
            "xl/workbook.xml",
            '<?xml version="1.0" encoding="UTF-8" standalone="yes"?>'
            '<workbook xmlns="%s" xmlns:r="%s"><sheets>'
            '<sheet name="Chart1" sheetId="1" r:id="rId1"/>'
            '<sheet name="First" sheetId="2" r:id="rId2"/>'
            '<sheet name="Second" sheetId="3" r:id="rId3"/>'
            "</sheets></workbook>" % (NS, RNS),
        )
        z.writestr(
            "xl/_rels/workbook.xml.rels",
            '<?xml version="1.0" encoding="UTF-8" standalone="yes"?><Relationships xmlns="%s">'
            '<Relationship Id="rId1" Type="%s/chartsheet" Target="chartsheets/sheet1.xml"/>'
            '<Relationship Id="rId2" Type="%s/worksheet" Target="worksheets/sheet1.xml"/>'
            '<Relationship Id="rId3" Type="%s/worksheet" Target="worksheets/sheet2.xml"/>'
            "</Relationships>" % (PKG, RNS, RNS, RNS),
        )
        z.writestr(
            "xl/chartsheets/sheet1.xml",
            '<?xml version="1.0" encoding="UTF-8" standalone="yes"?>'
            '<chartsheet xmlns="%s"><sheetViews><sheetView workbookViewId="0"/></sheetViews></chartsheet>' % NS,
        )
        z.writestr("xl/worksheets/sheet1.xml", worksheet_xml("First"))
        z.writestr("xl/worksheets/sheet2.xml", worksheet_xml("Second"))


def rows_for_sheet(path, sheet_text):
    cid = interface.Cid()
    cid.read("inline", [["D", "Format", "Excel"], ["D", "Sheet", sheet_text], ["F", "name"]])
    try:
        with validio.Reader(cid, path) as reader:
            return list(reader.rows())
    except errors.DataError as error:
        return "DataError: %s" % error


def main():
    folder = tempfile.mkdtemp(prefix="c16_f1_")
    path = os.path.join(folder, "chart_first.xlsx")
    build_workbook(path)
    problems = []
    # Sheet 2 of [Chart1, First, Second] is "First"; sheet 3 is "Second".
    for sheet_text, expected in (("2", [["First"]]), ("3", [["Second"]])):
        actual = rows_for_sheet(path, sheet_text)
        print("Sheet=%s -> %r" % (sheet_text, actual))
        if actual != expected:
            problems.append("Sheet=%s must read %r but got %r" % (sheet_text, expected, actual))
    if problems:
        print("DEFECT: workbook tabs are [Chart1 (chart sheet), First, Second]")
        for problem in problems:
            print("  " + problem)
        return 1
    print("ok")
    return 0


if __name__ == "__main__":
    sys.exit(main())
