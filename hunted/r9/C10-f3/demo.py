"""
C10: the names in the rule of a DistinctCount check are validated only at the
top level of the expression. Names used inside a lambda are missed, so for
example the builtin exit() can be reached and SystemExit (no cutplace error,
not even an Exception) escapes from validating the data.
"""
import io
import sys

from cutplace import errors, interface, validio

problems = []
CID_TEXT = "d,format,delimited\nf,a\nc,some_count,DistinctCount,a < 2 or (lambda: exit(4))()\n"
try:
    cid = interface.create_cid_from_string(CID_TEXT)
except errors.InterfaceError:
    # Refusing the name "exit" when reading the CID is what _validate_names_in_expression() is there for.
    cid = None
except BaseException as error:
    cid = None
    problems.append("reading CID: %s: %s" % (type(error).__name__, error))

if cid is not None:
    try:
        validio.validate(cid, io.StringIO("1\n2\n3\n", newline=""))
        problems.append("data have been accepted")
    except errors.CutplaceError:
        pass
    except BaseException as error:
        problems.append(
            "validating data: %s(%s) escaped from cutplace.validio.validate()" % (type(error).__name__, error)
        )

if problems:
    print("defect present:")
    for problem in problems:
        print("  " + problem)
    sys.exit(1)
print("ok: names inside nested scopes of count expressions are refused or reported as cutplace error")
sys.exit(0)
