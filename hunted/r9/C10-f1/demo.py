"""
C10: a no-break space (or another non-ASCII white space such as U+2028 or
U+3000) next to a field name in the rule of an IsUnique or DistinctCount check
ends in an AssertionError instead of an InterfaceError; the command line
answers with exit code 4.
"""
import io
import logging
import os
import sys
import tempfile

from cutplace import applications, errors, interface

NBSP = " "
CID_TEMPLATE = 'd,format,delimited\nf,a\nf,b\nc,some_check,%s,"%s"\n'
CASES = [
    ("IsUnique", "a," + NBSP + "b"),  # comma followed by a no-break space, typical for pasted text
    ("IsUnique", "a" + NBSP + ",b"),
    ("IsUnique", "a, b"),
    ("IsUnique", "a,　b"),
    ("DistinctCount", "b" + NBSP + "< 3"),
]

problems = []
for check_type, rule in CASES:
    cid_text = CID_TEMPLATE % (check_type, rule)
    try:
        interface.create_cid_from_string(cid_text)
    except errors.CutplaceError:
        pass  # an InterfaceError is what the statement asks for
    except BaseException as error:
        problems.append("API: %s rule %a raised %s" % (check_type, rule, type(error).__name__))

# Same thing using the command line.
with tempfile.TemporaryDirectory() as folder:
    cid_path = os.path.join(folder, "cid.csv")
    data_path = os.path.join(folder, "data.csv")
    with io.open(cid_path, "w", encoding="utf-8", newline="") as cid_file:
        cid_file.write(CID_TEMPLATE % CASES[0])
    with io.open(data_path, "w", encoding="cp1252", newline="") as data_file:
        data_file.write("1,2\n")
    logging.disable(logging.CRITICAL)
    try:
        exit_code = applications.main(["cutplace", cid_path, data_path])
    finally:
        logging.disable(logging.NOTSET)
    if exit_code == 4:
        problems.append("command line: exit code is 4 (internal error) for IsUnique rule %a" % CASES[0][1])

if problems:
    print("defect present:")
    for problem in problems:
        print("  " + problem)
    sys.exit(1)
print("ok: white space next to field names in check rules is reported as interface error")
sys.exit(0)
