"""
C19 / f1: the table name of the generated CREATE TABLE statement is never
quoted, even when it is a keyword of the chosen SQL dialect.

The statement requires that the CREATE TABLE statement "quotes names that are
keywords of the chosen dialect". Column names are quoted, the table name is
not, so a CID called "order" (for example ``cutplace --create order.xls``,
which derives the table name from the file name) yields
``create table order (`` - a statement no database accepts.

Exit code 1: defect present; 0: table name keyword is quoted (or refused).
"""
import re
import sys
import warnings

warnings.simplefilter("ignore")

from cutplace import errors, interface, sql  # noqa: E402


def main():
    cid = interface.Cid()
    cid.read(
        "order",
        [
            ["D", "Format", "delimited"],
            ["D", "Item delimiter", ","],
            # "order" is a keyword in all four dialects; as column name it is quoted.
            ["F", "order", "", "", "1...10", "Text"],
            ["F", "customer_id", "", "", "", "Integer", "0...99999"],
        ],
    )
    failures = []
    for dialect_name, dialect in sorted(sql.SQL_NAME_TO_DIALECT_MAP.items()):
        for table in ("order", "Select", "TABLE"):
            assert dialect.is_keyword(table), (dialect_name, table)
            try:
                statement = sql.SqlFactory(cid, table, dialect).create_table_statement()
            except errors.CutplaceError:
                # Refusing a keyword as table name would also be acceptable.
                continue
            first_line = statement.split("\n")[0]
            match = re.match(r"^create table (.+) \($", first_line)
            if match is None:
                failures.append("%s: cannot parse first line %r" % (dialect_name, first_line))
                continue
            table_in_sql = match.group(1)
            column_line = statement.split("\n")[1]
            if table_in_sql == table:
                failures.append(
                    "%s: table name %r is a keyword of the dialect but is not quoted: %r "
                    "(while the column of the same name is: %r)"
                    % (dialect_name, table, first_line, column_line.strip())
                )
    if failures:
        # Extra evidence, same check the project's own test suite uses for its statements.
        import sqlite3

        statement = sql.SqlFactory(cid, "order").create_table_statement()
        try:
            with sqlite3.connect(":memory:") as database:
                database.execute(statement)
        except sqlite3.Error as error:
            print("sqlite3 refuses the generated ANSI statement %r: %s" % (statement.split("\n")[0], error))
        print("DEFECT: keyword used as table name is not quoted in the CREATE TABLE statement")
        for failure in failures:
            print("  " + failure)
        return 1
    print("ok: table names that are keywords are quoted")
    return 0


if __name__ == "__main__":
    sys.exit(main())
