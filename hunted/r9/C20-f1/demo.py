"""
Field formats and checks from a plugin folder stop resolving by class name
once Python's garbage collector has run: interface.import_plugins() executes
each plugin module but keeps no reference to it (it is not even registered in
sys.modules), so the plugin classes only live in a reference cycle
(class -> method -> module globals -> class) and are merely weakly referenced by
AbstractFieldFormat.__subclasses__() / AbstractCheck.__subclasses__().
Built-in field formats and checks keep resolving, of course.
"""
import gc
import io
import os
import sys
import tempfile

from cutplace import errors, interface, validio

PLUGIN_SOURCE = '''
from cutplace import checks, errors, fields


class ColorFieldFormat(fields.AbstractFieldFormat):
    def __init__(self, field_name, is_allowed_to_be_empty, length, rule, data_format):
        super().__init__(field_name, is_allowed_to_be_empty, length, rule, data_format, empty_value="")

    def validated_value(self, value):
        if value not in ("red", "green", "blue"):
            raise errors.FieldValueError("color is %r but must be one of: red, green, blue" % value)
        return value


class AtMostRowsCheck(checks.AbstractCheck):
    def __init__(self, description, rule, available_field_names, location=None):
        super().__init__(description, rule, available_field_names, location)
        self._limit = int(rule)
        self.reset()

    def reset(self):
        self._count = 0

    def check_row(self, field_name_to_value_map, location):
        self._count += 1

    def check_at_end(self, location):
        if self._count > self._limit:
            raise errors.CheckError("too many rows", location)
'''

CID_TEXT = "\n".join(
    [
        "d,format,delimited",
        "f,item,,,,Text",
        "f,color,,,,Color",
        "c,few_rows,AtMostRows,10000",
        "c,item_is_unique,IsUnique,item",
    ]
)
DATA_TEXT = "tree,green\nsky,blue\n"


def main():
    with tempfile.TemporaryDirectory() as folder:
        plugins_folder = os.path.join(folder, "plugins")
        os.mkdir(plugins_folder)
        with open(os.path.join(plugins_folder, "myplugins.py"), "w", encoding="utf-8") as plugin_file:
            plugin_file.write(PLUGIN_SOURCE)
        cid_path = os.path.join(folder, "cid_colors.csv")
        with open(cid_path, "w", encoding="utf-8") as cid_file:
            cid_file.write(CID_TEXT)
        data_path = os.path.join(folder, "colors.csv")
        with open(data_path, "w", encoding="utf-8") as data_file:
            data_file.write(DATA_TEXT)

        interface.import_plugins(plugins_folder)

        # Some ordinary work between importing the plugins and using them: build the rows of a second,
        # bigger data file. Creating a few thousand lists is enough for Python's cyclic garbage
        # collector to run by itself (gc.collect() is never called here).
        more_rows = [["item%d" % number, ("red", "green", "blue")[number % 3]] for number in range(5000)]
        more_data_path = os.path.join(folder, "more_colors.csv")
        with open(more_data_path, "w", encoding="utf-8") as more_data_file:
            for row in more_rows:
                more_data_file.write(",".join(row) + "\n")

        # Nothing about the plugins changed, so "Color" and "AtMostRows" have to resolve the same way
        # the built-in "Text" and "IsUnique" do, no matter how often and when a CID is read.
        for run, path_to_validate in enumerate([data_path, more_data_path, data_path], 1):
            if run == 3:
                # Only in the unlikely case the garbage collector did not kick in by itself so far.
                gc.collect()
            try:
                validio.validate(cid_path, path_to_validate)
            except errors.InterfaceError as error:
                print("run %d: validate(cid_path, data_path) after import_plugins(plugins_folder) failed:" % run)
                print("  %s" % error)
                print(
                    "the classes from the plugin folder have been garbage collected because "
                    "import_plugins() keeps no reference to the modules it imported"
                )
                return 1
    print("plugin classes resolve by name in all runs")
    return 0


if __name__ == "__main__":
    sys.exit(main())
