"""
Choice / Constant: the quotes of a listed value are removed by cutting off
the first and last character of the Python token, so

* escape sequences are not resolved: "a\"b" lists the value  a\"b  (with the
  backslash) instead of  a"b,  so a value containing both kinds of quotes
  cannot be listed at all,
* triple quoted values keep two quotes on each side: \"\"\"red\"\"\" lists ""red"",
* prefixed strings keep a quote: u"x" lists  "x .
"""
import sys
import warnings

warnings.simplefilter("ignore")

from cutplace import data, errors, fields  # noqa: E402


def create_field(field_class, rule):
    data_format = data.DataFormat(data.FORMAT_DELIMITED)
    data_format.validate()
    return field_class("kind", False, "", rule, data_format)


def is_accepted(field, value):
    try:
        return field.validated(value) == value
    except errors.FieldValueError:
        return False


problems = []

# (class, rule as written in the CID, cell, must be accepted)
CASES = [
    # sanity checks
    (fields.ChoiceFieldFormat, '"red", "green"', "red", True),
    (fields.ChoiceFieldFormat, '"red", "green"', "Red", False),
    # a value containing both kinds of quotes needs an escape: 5' 10"
    (fields.ChoiceFieldFormat, '"5\' 10\\"", "6\'"', "5' 10\"", True),
    (fields.ChoiceFieldFormat, '"5\' 10\\"", "6\'"', "5' 10\\\"", False),
    (fields.ConstantFieldFormat, '"a\\"b"', 'a"b', True),
    (fields.ConstantFieldFormat, '"a\\"b"', 'a\\"b', False),
    # triple quoted Python strings
    (fields.ChoiceFieldFormat, '"""red""", """green"""', "red", True),
    (fields.ChoiceFieldFormat, '"""red""", """green"""', '""red""', False),
    (fields.ConstantFieldFormat, "'''abc'''", "abc", True),
]
for field_class, rule, value, must_accept in CASES:
    try:
        field = create_field(field_class, rule)
    except errors.InterfaceError:
        # Refusing a spelling when the field is declared is fine, nothing is accepted or rejected wrongly.
        continue
    accepted = is_accepted(field, value)
    if accepted != must_accept:
        listed = getattr(field, "choices", None)
        if listed is None:
            listed = [field._constant]
        problems.append(
            "%s with rule %s (understood as %r): cell %r %s"
            % (
                field_class.__name__,
                rule,
                listed,
                value,
                "is a listed value but was rejected" if must_accept else "is not a listed value but was accepted",
            )
        )

if problems:
    print("Quoted values of Choice and Constant rules are not converted to the text they denote:")
    for problem in problems:
        print("  " + problem)
    sys.exit(1)
print("ok")
sys.exit(0)
