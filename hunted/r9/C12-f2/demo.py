r"""
C12: with the accepted encoding 'raw_unicode_escape' cells containing a
backslash followed by 'u' or 'U' do not survive writing and reading.
"""
import os
import sys
import tempfile
import warnings

warnings.simplefilter("ignore")

from cutplace import errors, interface, rowio


def round_trip(format_rows, table):
    cid = interface.Cid()
    cid.read("inline", [["d", "format", "delimited"]] + format_rows + [["f", "a"]])
    data_format = cid.data_format
    folder = tempfile.mkdtemp()
    path = os.path.join(folder, "data.csv")
    try:
        with rowio.DelimitedRowWriter(path, data_format) as writer:
            writer.write_rows(table)
        return list(rowio.delimited_rows(path, data_format))
    except Exception as error:
        return "%s: %s" % (type(error).__name__, error)


def main():
    result = 0
    cases = [
        # Plain default format, only the encoding is set; the cell is 6 ASCII characters.
        ([["d", "encoding", "raw_unicode_escape"]], [["\\u0041", "x"]]),
        # Backslash as quote character (one of the 20 permitted), every cell is quoted.
        (
            [
                ["d", "encoding", "raw_unicode_escape"],
                ["d", "quote character", "\\"],
                ["d", "escape character", "\\"],
                ["d", "quoting", "all"],
            ],
            [["up", "down"]],
        ),
    ]
    for format_rows, table in cases:
        try:
            back = round_trip(format_rows, table)
        except errors.InterfaceError as error:
            print("OK: the CID loader refuses the format: %s" % error)
            continue
        if back != table:
            print("DEFECT: format %r was accepted by the CID loader;" % format_rows)
            print("  wrote: %r" % table)
            print("  read:  %r" % (back,))
            result = 1
        else:
            print("OK: %r round-trips" % table)
    return result


if __name__ == "__main__":
    sys.exit(main())
