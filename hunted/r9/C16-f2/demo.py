"""
C16: rows without items written with XlsxRowWriter vanish when they are at the end of the table
(or when the whole table consists of them), so the table does not read back with the same rows.

Known and tolerated here: rows are padded to the sheet's width when reading, so an empty row may come
back as [] or as a list of empty strings. What must not happen is that the number of rows changes.
"""
import os
import sys
import tempfile

from cutplace import rowio


def round_trip(path, table):
    with rowio.XlsxRowWriter(path) as writer:
        writer.write_rows(table)
    return list(rowio.excel_rows(path))


def same_modulo_padding(written, read):
    if len(written) != len(read):
        return False
    width = max([len(row) for row in written] or [0])
    for written_row, read_row in zip(written, read):
        padded_row = list(written_row) + [""] * (width - len(written_row))
        if read_row != padded_row and read_row != list(written_row):
            # For a sheet without any column an "empty" row may also be [''].
            if not (written_row == [] and all(item == "" for item in read_row)):
                return False
    return True


def main():
    folder = tempfile.mkdtemp(prefix="c16_f2_")
    path = os.path.join(folder, "rows.xlsx")
    problems = []
    tables = [
        [["a"], ["b"]],  # control
        [["a"], [], ["b"]],  # control: an empty row in the middle survives
        [["a"], []],
        [["a", "b"], [], []],
        [[]],
        [[], []],
    ]
    for table in tables:
        read = round_trip(path, table)
        verdict = "ok" if same_modulo_padding(table, read) else "DIFFERENT"
        print("%-24r -> %-28r %s" % (table, read, verdict))
        if verdict != "ok":
            problems.append("wrote %d row(s) %r but read back %d row(s) %r" % (len(table), table, len(read), read))
    if problems:
        print("DEFECT: a table written with the xlsx row writer does not read back identically")
        for problem in problems:
            print("  " + problem)
        return 1
    print("ok")
    return 0


if __name__ == "__main__":
    sys.exit(main())
