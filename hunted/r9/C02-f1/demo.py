"""
DateTime: a place holder that is followed by the first letter of a later
place holder is translated to a broken strptime format.

'MM' followed by 'm' (for example 'MMm' or 'MMmm') and 'YYYY' followed by 'Y'
are damaged because DateTimeFieldFormat replaces the place holders one after
another in the already translated text: 'MM' -> '%m', then the 'm' of '%m'
plus the next 'm' are taken for the place holder 'mm' -> '%%M'.
"""
import sys
import warnings

warnings.simplefilter("ignore")

from cutplace import data, errors, fields  # noqa: E402


def create_field(rule):
    data_format = data.DataFormat(data.FORMAT_DELIMITED)
    data_format.validate()
    return fields.DateTimeFieldFormat("moment", False, "", rule, data_format)


def outcome(field, value):
    try:
        return tuple(field.validated(value))[:6]
    except errors.FieldValueError as error:
        return "rejected: %s" % error


problems = []

# (rule, cell, must be accepted, expected (year, month, day, hour, minute, second))
CASES = [
    # sanity check: separators that are no letters work
    ("DD.MM. hh:mm", "12.03. 14:30", True, (1900, 3, 12, 14, 30, 0)),
    # month immediately followed by minutes
    ("MMmm", "0130", True, (1900, 1, 1, 0, 30, 0)),
    ("DD.MMmm", "12.0345", True, (1900, 3, 12, 0, 45, 0)),
    # unit letters after the numbers: 12 days, 3 months
    ("DDd MMm", "12d 03m", True, (1900, 3, 12, 0, 0, 0)),
    ("YYYYy MMm DDd", "2020y 02m 29d", True, (2020, 2, 29, 0, 0, 0)),
    # the same rules must refuse text that is no date at all
    ("DDd MMm", "12d %M", False, None),
    ("MMmm", "%Mm", False, None),
]
for rule, value, must_accept, expected in CASES:
    field = create_field(rule)
    actual = outcome(field, value)
    if must_accept:
        if actual != expected:
            problems.append(
                "rule %r (translated to %r): cell %r must be accepted as %r but: %s"
                % (rule, field.strptime_format, value, expected, actual)
            )
    elif not isinstance(actual, str):
        problems.append(
            "rule %r (translated to %r): cell %r is no date but was accepted as %r"
            % (rule, field.strptime_format, value, actual)
        )

if problems:
    print("DateTime place holders are translated in the already translated text:")
    for problem in problems:
        print("  " + problem)
    sys.exit(1)
print("ok")
sys.exit(0)
