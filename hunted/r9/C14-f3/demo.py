"""
C14: fixed-width data without line delimiter ('line delimiter: none') and one
of the JIS X 0213 / HKSCS encodings: the last character of the last accepted
row never reaches the file when it is one the encoder holds back because it
could combine with a following character (for example HIRAGANA LETTER KA,
U+304B). The Writer closes the text file it opened without ever telling the
encoder that the text has ended, so the output is one character short and
cannot be read back.

Exit code 1 = defect present, 0 = behaviour conforms.
"""
import io
import os
import sys
import tempfile
import warnings

warnings.simplefilter("ignore")

from cutplace import errors, interface, validio  # noqa: E402


def create_cid(encoding):
    cid = interface.Cid()
    cid.read(
        "inline_cid",
        [
            ["d", "format", "fixed"],
            ["d", "encoding", encoding],
            ["d", "line delimiter", "none"],
            ["f", "name", "", "", "3"],
        ],
    )
    return cid


def main():
    problems = []
    rows_to_write = [["abc"], ["たなか"]]
    with tempfile.TemporaryDirectory() as folder:
        for encoding in ("shift_jis_2004", "euc_jis_2004", "shift_jisx0213"):
            target_path = os.path.join(folder, "out_%s.dat" % encoding)
            with validio.Writer(create_cid(encoding), target_path) as writer:
                for row in rows_to_write:
                    writer.write_row(row)  # Both rows are accepted.
            with io.open(target_path, "rb") as target_file:
                target_bytes = target_file.read()
            expected_bytes = "".join(row[0] for row in rows_to_write).encode(encoding)
            if target_bytes != expected_bytes:
                problems.append(
                    "%s: Writer accepted %r but the file contains %r (%r) instead of %r"
                    % (encoding, rows_to_write, target_bytes, target_bytes.decode(encoding), expected_bytes)
                )
            try:
                read_rows = list(validio.rows(create_cid(encoding), target_path))
                if read_rows != rows_to_write:
                    problems.append("%s: reading back returns %r" % (encoding, read_rows))
            except errors.CutplaceError as error:
                problems.append("%s: reading the output back fails: %s" % (encoding, error))
    if problems:
        print("DEFECT: the last character of the last accepted row is missing in the output:")
        for problem in problems:
            print("  - " + problem)
        return 1
    print("OK: output contains all accepted rows and reads back unchanged")
    return 0


if __name__ == "__main__":
    sys.exit(main())
