"""
Integer with only a length: the range derived from the length assumes that a
number is written without leading zeros or plus sign. With a lower limit for
the length of 2 or more, numbers that are padded with zeros to reach that
length - the usual way to make a number fit a required length - are rejected
although their text has the declared length: length 3 refuses '007'.
"""
import re
import sys
import warnings

warnings.simplefilter("ignore")

from cutplace import data, errors, fields, interface, validio  # noqa: E402

problems = []


def create_field(length):
    data_format = data.DataFormat(data.FORMAT_DELIMITED)
    data_format.validate()
    return fields.IntegerFieldFormat("id", False, length, "", data_format)


def outcome(field, value):
    try:
        return field.validated(value)
    except errors.FieldValueError as error:
        return "rejected: %s" % error


def expected_outcome(lower, upper, value):
    """
    The statement: "with only a length given, any integer whose text fits that length".
    """
    is_integer = re.match(r"^[+-]?[0-9]+$", value) is not None
    if is_integer and (lower <= len(value)) and ((upper is None) or (len(value) <= upper)):
        return int(value)
    return None


CELLS = ["7", "07", "007", "0007", "-7", "-07", "+7", "+07", "42", "042", "0042", "123", "-12", "1234", "000", "00", "0"]
CELLS += ["7x", "0x7", "0.7"]
for length, lower, upper in [("3", 3, 3), ("2...3", 2, 3), ("2...", 2, None), ("4", 4, 4), ("1...3", 1, 3), ("...2", 0, 2)]:
    field = create_field(length)
    for cell in CELLS:
        expected = expected_outcome(lower, upper, cell)
        actual = outcome(field, cell)
        if expected is None:
            if not isinstance(actual, str):
                problems.append("length %r: cell %r must be rejected but was accepted as %r" % (length, cell, actual))
        elif actual != expected or isinstance(actual, bool) or not isinstance(actual, int):
            problems.append(
                "length %r (derived range %s): cell %r is an integer with %d characters and must be accepted as %d but: %s"
                % (length, field.valid_range, cell, len(cell), expected, actual)
            )

# The same using a CID and a reader.
cid = interface.Cid()
cid.read(
    "inline",
    [
        ["d", "format", "delimited"],
        ["f", "agent_id", "", "", "3", "Integer", ""],
    ],
)
with validio.Reader(cid, __import__("io").StringIO("123\n007\n"), on_error="yield") as reader:
    for row_or_error in reader.rows():
        if not isinstance(row_or_error, list):
            problems.append("reader with CID row 'F,agent_id,,,3,Integer': %s" % row_or_error)

if problems:
    print("Integer fields with a length but no rule reject integers whose text fits the length:")
    for problem in problems:
        print("  " + problem)
    sys.exit(1)
print("ok")
sys.exit(0)
