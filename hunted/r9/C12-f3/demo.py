r"""
C12: an item delimiter that the encoding can represent only lossy (the yen
sign under shift_jis or euc_jp becomes a backslash) is accepted by the CID
loader; the written items are not separated anymore when read back.
"""
import os
import sys
import tempfile
import warnings

warnings.simplefilter("ignore")

from cutplace import errors, interface, rowio


def main():
    result = 0
    for encoding, delimiter in (("shift_jis", "¥"), ("euc_jp", "‾"), ("cp932", "¢")):
        cid = interface.Cid()
        try:
            cid.read(
                "inline",
                [
                    ["d", "format", "delimited"],
                    ["d", "encoding", encoding],
                    ["d", "item delimiter", delimiter],
                    ["f", "a"],
                    ["f", "b"],
                ],
            )
        except errors.InterfaceError as error:
            print("OK: the CID loader refuses the format: %s" % error)
            continue
        data_format = cid.data_format
        table = [["a", "b"], ["c", "d"]]
        folder = tempfile.mkdtemp()
        path = os.path.join(folder, "data.csv")
        try:
            with rowio.DelimitedRowWriter(path, data_format) as writer:
                writer.write_rows(table)
            back = list(rowio.delimited_rows(path, data_format))
        except Exception as error:
            back = "%s: %s" % (type(error).__name__, error)
        if back != table:
            print(
                "DEFECT: format (encoding=%s, item delimiter=%r) was accepted by the CID loader;"
                % (encoding, delimiter)
            )
            print("  wrote: %r" % table)
            print("  read:  %r" % (back,))
            result = 1
        else:
            print("OK: %s with %r round-trips" % (encoding, delimiter))
    return result


if __name__ == "__main__":
    sys.exit(main())
