"""
C09: a check rule that contains a no-break space (or any other non-ASCII white space such as
U+3000 or U+2028) next to a field name must be rejected with an InterfaceError naming the row
of the check (or be accepted, if one regards the no-break space as a blank). Instead the CID
reader dies with a bare AssertionError that has no text and names no row.
"""
import sys
import warnings

warnings.simplefilter("ignore")

from cutplace import errors, interface

CASES = [
    ("IsUnique", "branch_id,\u00a0customer_id"),
    ("IsUnique", "branch_id\u00a0, customer_id"),
    ("DistinctCount", "branch_id\u00a0< 10"),
    ("IsUnique", "branch_id\u3000, customer_id"),
]

failures = []
for check_type, rule in CASES:
    rows = [
        ["D", "Format", "Delimited"],
        ["", "a comment row"],
        ["F", "branch_id"],
        ["F", "customer_id"],
        ["C", "some check", check_type, rule],
    ]
    cid = interface.Cid()
    try:
        cid.read("cid.csv", rows)
        # Accepting is fine in case the no-break space is treated like a blank.
        print("accepted: %s %r" % (check_type, rule))
    except errors.InterfaceError as error:
        if "R5C" in str(error):
            print("properly rejected: %s %r: %s" % (check_type, rule, error))
        else:
            failures.append("%s %r: InterfaceError does not name row 5: %s" % (check_type, rule, error))
    except Exception as error:
        failures.append(
            "%s %r: rejected with %s(%r) instead of an InterfaceError naming row 5"
            % (check_type, rule, type(error).__name__, str(error))
        )

if failures:
    print("DEFECT: check rule with no-break space crashes the CID reader:")
    for failure in failures:
        print("  " + failure)
    sys.exit(1)
sys.exit(0)
