"""
C19 / f2: for Integer ranges beyond bigint the decimal / number fallback is
sized as ``len(str(limit + 1))`` digits. For an upper limit of the form
99...9 (n nines) this is n + 1 digits although n digits are enough. At the
maximum precision of the dialect (DB2 decimal: 31 digits - the very number
cutplace/ranges.py quotes for DB2; Transact-SQL decimal and Oracle number:
38 digits) the result is a type that does not exist in the dialect
(``decimal(32)`` for DB2, ``decimal(39, 0)`` for Transact-SQL,
``number(39, 0)`` for PL/SQL) although ``decimal(31)`` / ``decimal(38, 0)`` /
``number(38, 0)`` exists and can store both range limits.

The same happens for an Integer field that only has a length (31 or 38
characters) and no rule, which is the natural CID for such a column.

Exit code 1: defect present; 0: every generated type exists in the dialect
and can store both limits.
"""
import re
import sys
import warnings

warnings.simplefilter("ignore")

from cutplace import interface, sql  # noqa: E402

#: Maximum precision of the exact numeric type with a scale in each dialect.
#: DB2: DECIMAL(p) with 1 <= p <= 31; SQL Server: decimal(p) with 1 <= p <= 38;
#: Oracle: NUMBER(p) with 1 <= p <= 38. ANSI leaves it to the implementation.
MAX_PRECISION = {sql.DB2: 31, sql.TRANSACT: 38, sql.PL: 38}

_TYPE_REGEX = re.compile(r"^    (\S+) (\w+)(?:\((\d+)(?:, (\d+))?\))?( not null)?,?$")


def column_types(rows, dialect):
    cid = interface.Cid()
    cid.read("big", [["D", "Format", "delimited"], ["D", "Item delimiter", ","]] + rows)
    statement = sql.SqlFactory(cid, "big", dialect).create_table_statement()
    result = []
    for line in statement.split("\n")[1:-1]:
        match = _TYPE_REGEX.match(line)
        assert match is not None, line
        precision = None if match.group(3) is None else int(match.group(3))
        scale = 0 if match.group(4) is None else int(match.group(4))
        result.append((line.strip().rstrip(","), match.group(2), precision, scale))
    return result


def main():
    failures = []
    for dialect_name, max_precision in sorted(MAX_PRECISION.items()):
        dialect = sql.SQL_NAME_TO_DIALECT_MAP[dialect_name]
        upper = 10**max_precision - 1  # 99...9, exactly max_precision digits
        cases = [
            ("rule 0...%d (%d digits)" % (upper, max_precision), ["F", "n", "", "", "", "Integer", "0...%d" % upper]),
            (
                "rule -%d...%d (%d digits)" % (upper, upper, max_precision),
                ["F", "n", "", "", "", "Integer", "-%d...%d" % (upper, upper)],
            ),
            ("length %d, no rule" % max_precision, ["F", "n", "", "", "%d" % max_precision, "Integer", ""]),
        ]
        for description, row in cases:
            ((column, type_name, precision, scale),) = column_types([row], dialect)
            if type_name not in ("decimal", "number"):
                failures.append("%s, %s: unexpected type: %s" % (dialect_name, description, column))
            elif precision is None or precision - scale < max_precision:
                failures.append("%s, %s: type cannot store %d: %s" % (dialect_name, description, upper, column))
            elif precision > max_precision:
                failures.append(
                    "%s, %s: generated column %r has precision %d but the dialect supports at most %d digits; "
                    "%s(%d) would store both limits"
                    % (dialect_name, description, column, precision, max_precision, type_name, max_precision)
                )
    if failures:
        print("DEFECT: Integer field with a bounded range gets a column type that does not exist in the dialect")
        for failure in failures:
            print("  " + failure)
        return 1
    print("ok: all generated decimal types exist in their dialect and can store both range limits")
    return 0


if __name__ == "__main__":
    sys.exit(main())
