"""
C09: a DistinctCount rule must name only declared fields (actually: only the field to count);
DistinctCountCheck._validate_names_in_expression() is there to refuse other names when the CID
is read, "because other names would be evaluated only once a part of the expression using them
is reached, which might be as late as after reading all the data". Names used inside a lambda
live in a nested code object and escape that validation, so the CID is accepted although its
rule names the undeclared field ``nope`` - and the rule blows up only at the end of the data.
"""
import io
import sys
import warnings

warnings.simplefilter("ignore")

from cutplace import errors, interface, validio

RULE = "customer_id < 1 or (lambda: nope)()"
rows = [
    ["D", "Format", "Delimited"],
    ["F", "customer_id"],
    ["C", "distinct customers", "DistinctCount", RULE],
]
# Reference: the same undeclared name outside of a lambda is refused at row 3.
reference_rows = [list(row) for row in rows]
reference_rows[2][3] = "customer_id < 1 or nope"
try:
    interface.Cid().read("cid.csv", reference_rows)
    print("unexpected: reference rule with undeclared name was accepted")
    sys.exit(1)
except errors.InterfaceError as error:
    assert "R3C" in str(error), str(error)
    print("reference rule properly rejected: %s" % error)

cid = interface.Cid()
try:
    cid.read("cid.csv", rows)
except errors.InterfaceError as error:
    if "R3C" in str(error):
        print("properly rejected: %s" % error)
        sys.exit(0)
    print("DEFECT: rejected without naming row 3: %s" % error)
    sys.exit(1)

print("DEFECT: CID accepted although the rule of the check in row 3 names undeclared field 'nope': %r" % RULE)
try:
    with validio.Reader(cid, io.StringIO("1\n2\n")) as reader:
        reader.validate_rows()
    print("  (validation of data passed)")
except Exception as error:
    print("  consequence - error only after all data have been read: %s: %s" % (type(error).__name__, error))
sys.exit(1)
