"""
C10: a DistinctCount rule whose expression results in a big integer (more than
4300 digits, for example "10 ** 5000") ends in a ValueError while building the
error message, both when the CID is read and at the end of the data.
"""
import io
import logging
import os
import sys
import tempfile

from cutplace import applications, errors, interface, validio

problems = []

# 1. While reading the CID.
CID_AT_LOAD = "d,format,delimited\nf,a\nc,some_count,DistinctCount,a + 10 ** 5000\n"
try:
    interface.create_cid_from_string(CID_AT_LOAD)
    problems.append("CID with a count expression resulting in 10 ** 5000 was accepted")
except errors.CutplaceError:
    pass
except BaseException as error:
    problems.append("API, reading CID: %s: %s" % (type(error).__name__, str(error)[:90]))

# 2. At the end of the data: the expression is fine for 0 distinct values (test while reading the CID).
CID_AT_END = "d,format,delimited\nf,a\nc,some_count,DistinctCount,a < 2 or 10 ** 5000\n"
try:
    cid = interface.create_cid_from_string(CID_AT_END)
    validio.validate(cid, io.StringIO("1\n2\n3\n", newline=""))
    problems.append("data with 3 distinct values have been accepted")
except errors.CutplaceError:
    pass
except BaseException as error:
    problems.append("API, validating data: %s: %s" % (type(error).__name__, str(error)[:90]))

# 3. Command line.
with tempfile.TemporaryDirectory() as folder:
    cid_path = os.path.join(folder, "cid.csv")
    data_path = os.path.join(folder, "data.csv")
    with io.open(cid_path, "w", encoding="utf-8", newline="") as cid_file:
        cid_file.write(CID_AT_END)
    with io.open(data_path, "w", encoding="cp1252", newline="") as data_file:
        data_file.write("1\n2\n3\n")
    logging.disable(logging.CRITICAL)
    try:
        exit_code = applications.main(["cutplace", cid_path, data_path])
    finally:
        logging.disable(logging.NOTSET)
    if exit_code == 4:
        problems.append("command line: exit code is 4 (internal error)")

if problems:
    print("defect present:")
    for problem in problems:
        print("  " + problem)
    sys.exit(1)
print("ok: big count expression results are reported as interface error")
sys.exit(0)
