"""
RegEx: the rule is compiled with re.MULTILINE, so '$' also matches in front of
a line break in the middle of a cell (and '^' after one). A rule that is
anchored with '$' to describe the whole value - like the e-mail example of the
documentation - accepts any multi line cell whose first line matches.
"""
import io
import re
import sys
import warnings

warnings.simplefilter("ignore")

from cutplace import data, errors, fields, interface, validio  # noqa: E402

EMAIL_RULE = r"^[A-Z0-9._%+-]+@[A-Z0-9.-]+\.[A-Z]{2,4}$"  # from docs/writing-an-icd.rst

problems = []


def create_field(rule):
    data_format = data.DataFormat(data.FORMAT_DELIMITED)
    data_format.validate()
    return fields.RegExFieldFormat("some", False, "", rule, data_format)


def is_accepted(field, value):
    try:
        return field.validated(value) == value
    except errors.FieldValueError:
        return False


# (rule, cell)
CASES = [
    (EMAIL_RULE, "some@example.com"),
    (EMAIL_RULE, "Some@Example.COM"),
    (EMAIL_RULE, "some@example.com, other@example.com"),
    (EMAIL_RULE, "some@example.com\nthis line is not an e-mail address"),
    (r"\d{5}$", "12345"),
    (r"\d{5}$", "123456"),
    (r"\d{5}$", "12345\n6"),
    (r"[a-z]+$", "abc\n123"),
]
for rule, value in CASES:
    # The statement: "a value the regular expression matches from its first character, ... ignoring case".
    must_accept = re.match(rule, value, re.IGNORECASE) is not None
    accepted = is_accepted(create_field(rule), value)
    if accepted != must_accept:
        problems.append(
            "rule %r, cell %r: re.match(rule, cell, re.IGNORECASE) %s but the field %s it"
            % (
                rule,
                value,
                "matches" if must_accept else "does not match",
                "accepts" if accepted else "rejects",
            )
        )

# The same with a complete CID and delimited data with a quoted cell spanning two lines.
cid = interface.Cid()
cid.read(
    "inline",
    [
        ["d", "format", "delimited"],
        ["d", "line delimiter", "lf"],
        ["f", "email", "some@example.com", "", "", "RegEx", EMAIL_RULE],
    ],
)
csv_text = 'some@example.com\n"other@example.com\n<script>not an e-mail</script>"\n'
with validio.Reader(cid, io.StringIO(csv_text), on_error="yield") as reader:
    results = list(reader.rows())
if (len(results) != 2) or not isinstance(results[0], list):
    problems.append("reader must accept the first row and see 2 rows but got: %r" % results)
elif isinstance(results[1], list):
    problems.append(
        "reader accepted the row %r although the cell does not end where the rule's '$' says it has to" % results[1]
    )

if problems:
    print("RegEx fields treat '$' as 'end of any line' instead of 'end of the value':")
    for problem in problems:
        print("  " + problem)
    sys.exit(1)
print("ok")
sys.exit(0)
