"""
A malformed item delimiter consisting of a backslash, a line break and then
some other spelling is accepted: the Python tokenizer silently joins the
continuation line, so the backslash and the line break vanish.
"""
import sys
import warnings

warnings.simplefilter("ignore")

from cutplace import data, errors, interface

problems = []
for value in ("\\\n,", "\\\ntab", "\\\n0x3b", "\\\n\\\n59", "'\\\n;'"):
    data_format = data.DataFormat(data.FORMAT_DELIMITED)
    try:
        data_format.set_property(data.KEY_ITEM_DELIMITER, value)
        problems.append(
            "malformed (two line) item delimiter %r is accepted as %r" % (value, data_format.item_delimiter)
        )
    except errors.InterfaceError:
        pass

# The same in a complete CID: the value cell contains: backslash, line feed, semicolon.
cid_text = 'D,Format,Delimited\nD,Item delimiter,"\\\n;"\nF,a\nF,b'
try:
    cid = interface.create_cid_from_string(cid_text)
    problems.append(
        "CID with item delimiter cell %r is accepted, delimiter is %r" % ("\\\n;", cid.data_format.item_delimiter)
    )
except errors.InterfaceError:
    pass

if problems:
    for problem in problems:
        print(problem)
    sys.exit(1)
print("ok: malformed item delimiters are refused")
sys.exit(0)
