"""
ODS: a repeat count that is padded with characters that are no XML white
space (NO-BREAK SPACE, NEXT LINE, LINE SEPARATOR, IDEOGRAPHIC SPACE) is not a
number in ODF / XML Schema terms (xsd:positiveInteger collapses only blank,
tab, CR and LF) and consequently must be refused with a DataFormatError.
cutplace.rowio.ods_rows() silently reads it as a number because
``_ods_count()`` checks it with the Unicode aware ``\\s`` and ``int()``.

Exit code 1: defect present, 0: behaviour conforms.
"""
import os
import sys
import tempfile
import zipfile

from cutplace import errors, rowio

_NS = (
    'xmlns:office="urn:oasis:names:tc:opendocument:xmlns:office:1.0" '
    'xmlns:table="urn:oasis:names:tc:opendocument:xmlns:table:1.0" '
    'xmlns:text="urn:oasis:names:tc:opendocument:xmlns:text:1.0"'
)


def _ods_path(folder, name, cell_xml):
    content = (
        '<?xml version="1.0" encoding="UTF-8"?>'
        "<office:document-content %s><office:body><office:spreadsheet>"
        '<table:table table:name="s1"><table:table-row>%s</table:table-row></table:table>'
        "</office:spreadsheet></office:body></office:document-content>" % (_NS, cell_xml)
    )
    result = os.path.join(folder, name)
    with zipfile.ZipFile(result, "w", zipfile.ZIP_DEFLATED) as ods_zip:
        ods_zip.writestr("mimetype", "application/vnd.oasis.opendocument.spreadsheet")
        ods_zip.writestr("content.xml", content.encode("utf-8"))
    return result


def _read(path):
    try:
        return list(rowio.ods_rows(path, 1))
    except errors.DataFormatError as error:
        return error


def main():
    problems = []
    with tempfile.TemporaryDirectory() as folder:
        # Sanity: plain XML white space is fine, letters are refused.
        rows = _read(
            _ods_path(folder, "ok.ods", '<table:table-cell table:number-columns-repeated=" 2 "><text:p>a</text:p></table:table-cell>')
        )
        if rows != [["a", "a"]]:
            print("unexpected result for a count padded with blanks: %r" % (rows,))
            return 1
        rows = _read(
            _ods_path(folder, "x.ods", '<table:table-cell table:number-columns-repeated="x2"><text:p>a</text:p></table:table-cell>')
        )
        if not isinstance(rows, errors.DataFormatError):
            print("unexpected result for count 'x2': %r" % (rows,))
            return 1

        broken_counts = [
            ("NO-BREAK SPACE + 2", "&#xA0;2"),
            ("2 + LINE SEPARATOR", "2&#x2028;"),
            ("IDEOGRAPHIC SPACE + 2 + NEXT LINE", "&#x3000;2&#x85;"),
        ]
        for index, (description, count_xml) in enumerate(broken_counts):
            cell_xml = (
                '<table:table-cell table:number-columns-repeated="%s"><text:p>a</text:p></table:table-cell>' % count_xml
            )
            result = _read(_ods_path(folder, "c%d.ods" % index, cell_xml))
            if not isinstance(result, errors.DataFormatError):
                problems.append(
                    "table:number-columns-repeated=%r (%s) is no number but was read as rows %r"
                    % (count_xml, description, result)
                )
            cell_xml = '<table:table-cell><text:p>a<text:s text:c="%s"/>b</text:p></table:table-cell>' % count_xml
            result = _read(_ods_path(folder, "s%d.ods" % index, cell_xml))
            if not isinstance(result, errors.DataFormatError):
                problems.append(
                    "text:c=%r (%s) is no number but was read as rows %r" % (count_xml, description, result)
                )
    for problem in problems:
        print(problem)
    if problems:
        print("expected: cutplace.errors.DataFormatError for each of these non-numeric counts")
        return 1
    print("ok: all non-numeric counts were refused with a DataFormatError")
    return 0


if __name__ == "__main__":
    sys.exit(main())
