#!/venv/bin/python
"""
check.py <property id> [--tier quick|thorough] [--replay FILE]

Decides the obligations of one property by static analysis of the sources below $CPSA_REPO
(default /repo).  Exit 0 = all obligations discharged (or listed as known finding), 1 = unlisted
violation (line "VIOLATION property=<id> replay=<path>"), 2 = ANALYSIS-ERROR.
"""
import argparse
import importlib
import json
import os
import sys
import time
import traceback

sys.path.insert(0, os.path.dirname(os.path.abspath(__file__)))
sys.setrecursionlimit(6000)

from cpsa import report  # noqa: E402
from cpsa.model import AnalysisError, Model  # noqa: E402
from cpsa.tablekit import Ctx  # noqa: E402

BASE_TRUSTED = [
    "CPython 3.12 ast module (parser of the pinned interpreter)",
    "the cpsa engine: program model, finite-domain abstract interpreter, definite-assignment and hidden-state analyses, escape fixpoint",
    "frozen tables in cpsa/tables (external raisers, assert triage, SQL capacities, ODF constructs)",
]


def main(argv=None):
    parser = argparse.ArgumentParser()
    parser.add_argument("property_id")
    parser.add_argument("--tier", default=os.environ.get("VERIF_TIER", "quick"), choices=["quick", "thorough"])
    parser.add_argument("--replay", default=None)
    parser.add_argument("--repo", default=os.environ.get("CPSA_REPO", "/repo"))
    args = parser.parse_args(argv)
    property_id = args.property_id.upper()
    try:
        seed = int(os.environ.get("VERIF_SEED", "0"))
    except ValueError:
        seed = 0
    started = time.time()
    result = report.Result(property_id, args.tier)
    explanation = ""
    trusted = list(BASE_TRUSTED)
    assumptions = []
    try:
        rule_module = importlib.import_module("cpsa.rules.%s" % property_id.lower())
        explanation = rule_module.EXPLANATION
        trusted += list(getattr(rule_module, "TRUSTED", []))
        assumptions = list(getattr(rule_module, "ASSUMPTIONS", []))
        model = Model(args.repo)
        result.analysed = dict(model.stats(), repo=args.repo, source_digest=model.digest())
        ctx = Ctx(model, result, args.tier)
        for rule_function in rule_module.RULES:
            try:
                rule_function(ctx)
            except AnalysisError as error:
                result.error("%s: %s" % (rule_function.__name__, error))
            except RecursionError as error:
                result.error("%s: recursion limit (%s)" % (rule_function.__name__, error))
        if args.tier == "thorough" and hasattr(rule_module, "THOROUGH"):
            for rule_function in rule_module.THOROUGH:
                try:
                    rule_function(ctx)
                except AnalysisError as error:
                    result.error("%s: %s" % (rule_function.__name__, error))
    except AnalysisError as error:
        result.error(str(error))
    except Exception as error:  # never let a traceback look like a violation (exit 1)
        result.error("internal error: %s: %s" % (type(error).__name__, error))
        traceback.print_exc()
    if args.tier == "thorough" and os.environ.get("CPSA_SELFTEST", "1") != "0" and not args.replay:
        try:
            selftest(property_id, args.repo, result)
        except Exception as error:  # the self-test is about the checker, never a verdict about cutplace
            result.error("self-test could not run: %s: %s" % (type(error).__name__, error))
    if args.replay:
        with open(args.replay, "r", encoding="utf-8") as replay_file:
            wanted = json.load(replay_file)
        hits = [f for f in result.findings if f.key == wanted.get("key")]
        print("replay of %s: %s" % (wanted.get("key"), "still violated" if hits else "no longer violated"))
        for finding in hits:
            print("  %s [%s] %s" % (finding.where, finding.rule, finding.message))
        return 1 if hits else (2 if result.errors else 0)
    checker_cmd = "/venv/bin/python check.py %s --tier %s" % (property_id, args.tier)
    return report.finish(result, started, seed, explanation, trusted, assumptions, checker_cmd)


def selftest(property_id, repo, result):
    """
    Thorough tier: test the checker both ways on scratch copies of the CURRENT tree (outside /repo and /verif, removed
    at once): behaviour-preserving variants must leave this property's verdict unchanged, breaking variants written
    against this property must be reported.  A disagreement is an ANALYSIS-ERROR of the checker.
    """
    import shutil
    import subprocess
    from concurrent.futures import ThreadPoolExecutor

    from cpsa.selftest import catalogue
    from cpsa.selftest.mutate import apply_edit, make_scratch

    base_findings = sorted(finding.key for finding in result.findings)

    def run_variant(item):
        kind, entry = item
        name, relpath, old, new = entry[:4]
        scratch = make_scratch(repo)
        try:
            try:
                if kind in ("seeded", "benign-patch"):
                    applied = subprocess.run(["git", "apply", "--whitespace=nowarn", old], cwd=scratch, capture_output=True, text=True)
                    if applied.returncode != 0:
                        return kind, name, "skipped", applied.stderr.strip()[:120]
                else:
                    apply_edit(scratch, relpath, old, new)
            except (ValueError, SyntaxError, OSError) as error:
                return kind, name, "skipped", str(error)[:120]
            env = dict(os.environ, CPSA_REPO=scratch, CPSA_EVIDENCE_DIR=os.path.join(scratch, "_evidence"), CPSA_SELFTEST="0")
            process = subprocess.run([sys.executable, os.path.abspath(__file__), property_id, "--tier", "quick"],
                                     capture_output=True, text=True, env=env, cwd=os.path.dirname(os.path.abspath(__file__)))
            keys = sorted(line.split("key=", 1)[1].strip() for line in process.stdout.splitlines() if line.strip().startswith("key="))
            known = sorted(line.split(" ", 3)[2] for line in process.stdout.splitlines() if line.startswith("KNOWN-FINDING:"))
            return kind, name, process.returncode, (keys, known)
        finally:
            shutil.rmtree(scratch, ignore_errors=True)

    work = [("benign", entry) for entry in catalogue.BENIGN]
    work += [("breaking", entry) for entry in catalogue.BREAKING if len(entry) > 4 and property_id in entry[4]]
    seeded_root = os.path.join(os.path.dirname(os.path.abspath(__file__)), "seeded")
    if os.path.isdir(seeded_root):
        for seed_name in sorted(os.listdir(seeded_root)):
            meta_path = os.path.join(seeded_root, seed_name, "meta.json")
            patch_path = os.path.join(seeded_root, seed_name, "patch.diff")
            if os.path.exists(meta_path) and os.path.exists(patch_path):
                with open(meta_path, "r", encoding="utf-8") as meta_file:
                    meta = json.load(meta_file)
                if meta.get("breaks_property", meta.get("property")) == property_id:
                    work.append(("seeded", ("seeded change %s" % seed_name, None, patch_path, None)))
    benign_root = os.path.join(os.path.dirname(os.path.abspath(__file__)), "benign")
    if os.path.isdir(benign_root):
        # refactorings written by independent agents and confirmed to preserve behaviour (tools/benign_eval.py)
        for benign_name in sorted(os.listdir(benign_root)):
            patch_path = os.path.join(benign_root, benign_name, "patch.diff")
            if os.path.exists(patch_path):
                work.append(("benign-patch", ("refactoring %s" % benign_name, None, patch_path, None)))
    jobs = min(16, os.cpu_count() or 4)
    counts = {"benign_silent": 0, "benign_total": 0, "breaking_fired": 0, "breaking_total": 0, "skipped": 0}
    base_exit = 1 if any(True for _ in result.findings if _.key not in {e.get("key") for e in report.load_known_findings().get("known", [])}) else 0
    with ThreadPoolExecutor(max_workers=jobs) as pool:
        for kind, name, code, detail in pool.map(run_variant, work):
            if code == "skipped":
                counts["skipped"] += 1
                result.note("self-test variant skipped (anchor text not found in the current tree): %s" % name)
                continue
            if kind in ("benign", "benign-patch"):
                counts["benign_total"] += 1
                if code == base_exit or (code in (0, 1) and base_exit == 1):
                    counts["benign_silent"] += 1
                else:
                    result.error("self-test: behaviour-preserving variant %r changes the verdict of %s (exit %s): %s" % (name, property_id, code, detail))
            else:
                counts["breaking_total"] += 1
                if code == 1:
                    counts["breaking_fired"] += 1
                else:
                    result.error("self-test: %s variant %r is not reported by %s (exit %s)" % (kind, name, property_id, code))
    result.analysed["selftest"] = counts
    result.note("self-test: %(benign_silent)d/%(benign_total)d benign variants silent, %(breaking_fired)d/%(breaking_total)d breaking variants reported, "
                "%(skipped)d skipped" % counts)


if __name__ == "__main__":
    sys.exit(main())
