#!/venv/bin/python
"""
check.py <property id> [--tier quick|thorough] [--replay FILE]

Decides the obligations of one property by static analysis of the sources below $CPSA_REPO
(default /repo).  Exit 0 = all obligations discharged (or listed as known finding), 1 = unlisted
violation (line "VIOLATION property=<id> replay=<path>"), 2 = ANALYSIS-ERROR.
"""
import argparse
import importlib
import json
import os
import sys
import time
import traceback

sys.path.insert(0, os.path.dirname(os.path.abspath(__file__)))
sys.setrecursionlimit(6000)

from cpsa import report  # noqa: E402
from cpsa.model import AnalysisError, Model  # noqa: E402
from cpsa.tablekit import Ctx  # noqa: E402

BASE_TRUSTED = [
    "CPython 3.12 ast module (parser of the pinned interpreter)",
    "the cpsa engine: program model, finite-domain abstract interpreter, CFG/dominators, escape fixpoint",
    "frozen tables in cpsa/tables (external raisers, assert triage, SQL capacities, ODF constructs)",
]


def main(argv=None):
    parser = argparse.ArgumentParser()
    parser.add_argument("property_id")
    parser.add_argument("--tier", default=os.environ.get("VERIF_TIER", "quick"), choices=["quick", "thorough"])
    parser.add_argument("--replay", default=None)
    parser.add_argument("--repo", default=os.environ.get("CPSA_REPO", "/repo"))
    args = parser.parse_args(argv)
    property_id = args.property_id.upper()
    try:
        seed = int(os.environ.get("VERIF_SEED", "0"))
    except ValueError:
        seed = 0
    started = time.time()
    result = report.Result(property_id, args.tier)
    explanation = ""
    trusted = list(BASE_TRUSTED)
    assumptions = []
    try:
        rule_module = importlib.import_module("cpsa.rules.%s" % property_id.lower())
        explanation = rule_module.EXPLANATION
        trusted += list(getattr(rule_module, "TRUSTED", []))
        assumptions = list(getattr(rule_module, "ASSUMPTIONS", []))
        model = Model(args.repo)
        result.analysed = dict(model.stats(), repo=args.repo, source_digest=model.digest())
        ctx = Ctx(model, result, args.tier)
        for rule_function in rule_module.RULES:
            try:
                rule_function(ctx)
            except AnalysisError as error:
                result.error("%s: %s" % (rule_function.__name__, error))
            except RecursionError as error:
                result.error("%s: recursion limit (%s)" % (rule_function.__name__, error))
        if args.tier == "thorough" and hasattr(rule_module, "THOROUGH"):
            for rule_function in rule_module.THOROUGH:
                try:
                    rule_function(ctx)
                except AnalysisError as error:
                    result.error("%s: %s" % (rule_function.__name__, error))
    except AnalysisError as error:
        result.error(str(error))
    except Exception as error:  # never let a traceback look like a violation (exit 1)
        result.error("internal error: %s: %s" % (type(error).__name__, error))
        traceback.print_exc()
    if args.replay:
        with open(args.replay, "r", encoding="utf-8") as replay_file:
            wanted = json.load(replay_file)
        hits = [f for f in result.findings if f.key == wanted.get("key")]
        print("replay of %s: %s" % (wanted.get("key"), "still violated" if hits else "no longer violated"))
        for finding in hits:
            print("  %s [%s] %s" % (finding.where, finding.rule, finding.message))
        return 1 if hits else (2 if result.errors else 0)
    checker_cmd = "/venv/bin/python check.py %s --tier %s" % (property_id, args.tier)
    return report.finish(result, started, seed, explanation, trusted, assumptions, checker_cmd)


if __name__ == "__main__":
    sys.exit(main())
