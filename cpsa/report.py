"""
M7 - findings, known-findings file, evidence files, exit codes.

Exit codes of a check run: 0 = every obligation discharged (or listed as known finding),
1 = at least one unlisted violation, 2 = ANALYSIS-ERROR (the checker could not decide).
"""
import json
import os
import time

VERIF_ROOT = os.path.dirname(os.path.dirname(os.path.abspath(__file__)))
KNOWN_FINDINGS_PATH = os.path.join(VERIF_ROOT, "known_findings.json")
EVIDENCE_DIR = os.environ.get("CPSA_EVIDENCE_DIR") or os.path.join(VERIF_ROOT, "evidence")
REPLAY_DIR = os.path.join(EVIDENCE_DIR, "replay")


class Finding:
    def __init__(self, rule, key, where, message, witness=None):
        self.rule = rule  # obligation id, e.g. "O1.3"
        self.key = key  # construct key without line numbers
        self.where = where  # file:line (function)
        self.message = message
        self.witness = witness

    def as_dict(self, property_id):
        return {
            "property": property_id,
            "rule": self.rule,
            "key": self.key,
            "where": self.where,
            "message": self.message,
            "witness": self.witness,
        }


class Obligation:
    def __init__(self, rule, what, ok, nontrivial=False, detail=None, cells=0):
        self.rule = rule
        self.what = what
        self.ok = ok
        self.nontrivial = nontrivial
        self.detail = detail
        self.cells = cells


class Result:
    """Collected outcome of all rules of one property."""

    def __init__(self, property_id, tier):
        self.property_id = property_id
        self.tier = tier
        self.obligations = []
        self.findings = []
        self.rule_instances = {}  # rule -> count
        self.rule_minimum = {}  # rule -> expected minimum
        self.notes = []
        self.analysed = {}
        self.errors = []  # analysis errors
        self.cells = 0
        self.samples = []
        self.distinct = set()

    # -- recording
    def ok(self, rule, what, nontrivial=True, detail=None, cells=0):
        self.obligations.append(Obligation(rule, what, True, nontrivial, detail, cells))
        self.rule_instances[rule] = self.rule_instances.get(rule, 0) + 1
        self.cells += cells
        if nontrivial:
            self.distinct.add((rule, what))
        if len(self.samples) < 12 or (detail is not None and len(self.samples) < 40 and cells):
            sample = {"rule": rule, "obligation": what, "verdict": "discharged"}
            if detail is not None:
                sample["detail"] = detail
            if len(self.samples) < 40:
                self.samples.append(sample)

    def fail(self, rule, what, key, where, message, witness=None, cells=0):
        self.obligations.append(Obligation(rule, what, False, True, message, cells))
        self.rule_instances[rule] = self.rule_instances.get(rule, 0) + 1
        self.cells += cells
        self.distinct.add((rule, what))
        self.findings.append(Finding(rule, key, where, message, witness))
        self.samples.insert(0, {"rule": rule, "obligation": what, "verdict": "VIOLATED", "detail": message})

    def minimum(self, rule, count):
        self.rule_minimum[rule] = count

    def note(self, text):
        self.notes.append(text)

    def error(self, text):
        self.errors.append(text)


def load_known_findings():
    if not os.path.exists(KNOWN_FINDINGS_PATH):
        return {"known": [], "fixed": []}
    with open(KNOWN_FINDINGS_PATH, "r", encoding="utf-8") as known_file:
        return json.load(known_file)


def finish(result, started, seed, explanation, trusted_base, assumptions, checker_cmd, out=print):
    """Print the verdict lines, write evidence, return the exit code."""
    property_id = result.property_id
    known = load_known_findings()
    known_keys = {}
    for entry in known.get("known", []):
        if entry.get("property") == property_id:
            known_keys[entry["key"]] = entry

    # vacuity guard: a rule that matched fewer instances than confirmed by hand fails the run
    for rule, minimum in sorted(result.rule_minimum.items()):
        actual = result.rule_instances.get(rule, 0)
        if actual < minimum:
            result.error("rule %s matched %d instance(s), expected at least %d" % (rule, actual, minimum))

    violations = []
    known_hits = []
    for finding in result.findings:
        if finding.key in known_keys:
            known_hits.append(finding)
        else:
            violations.append(finding)

    exit_code = 0
    os.makedirs(REPLAY_DIR, exist_ok=True)
    for finding in known_hits:
        out("KNOWN-FINDING: property=%s %s %s: %s" % (property_id, finding.key, finding.where, finding.message))
    for index, finding in enumerate(violations, 1):
        replay_path = os.path.join(REPLAY_DIR, "%s-%d.json" % (property_id, index))
        with open(replay_path, "w", encoding="utf-8") as replay_file:
            json.dump(finding.as_dict(property_id), replay_file, indent=1, default=str)
        out(
            "  %s [%s] %s\n    key=%s\n    %s"
            % (finding.where, finding.rule, finding.message, finding.key, _short(finding.witness))
        )
        out("VIOLATION property=%s replay=%s" % (property_id, replay_path))
        exit_code = 1
    for text in result.errors:
        out("ANALYSIS-ERROR property=%s %s" % (property_id, text))
    if result.errors:
        exit_code = 2

    total = len(result.obligations)
    discharged = sum(1 for o in result.obligations if o.ok)
    wall = time.time() - started
    evidence = {
        "property_id": property_id,
        "tier": result.tier,
        "seed": seed,
        "level": "other",
        "coverage": {
            "explanation": explanation,
            "obligations": total,
            "discharged": discharged,
            "known_findings": len(known_hits),
            "checker_cmd": checker_cmd,
            "trusted_base": trusted_base,
            "evaluations": max(1, total + result.cells),
            "distinct_nontrivial": max(len(result.distinct), 0),
            "rule": "one evaluation per obligation instance plus one per abstract cell of a decision table; "
            "distinct_nontrivial counts distinct (rule, instance) pairs whose discharge needed a witness "
            "(a table, a dominator path, a def-use chain, a folded constant)",
            "samples": result.samples[:40],
            "rule_instances": result.rule_instances,
            "rule_minimum_instances": result.rule_minimum,
            "abstract_cells": result.cells,
            "analysed": result.analysed,
            "notes": result.notes,
            "exhaustive": True,
        },
        "assumptions": assumptions,
        "wall_s": round(wall, 3),
        "violations": len(violations),
    }
    if exit_code == 2:
        evidence["coverage"]["analysis_errors"] = result.errors
    os.makedirs(EVIDENCE_DIR, exist_ok=True)
    with open(os.path.join(EVIDENCE_DIR, "%s.json" % property_id), "w", encoding="utf-8") as evidence_file:
        json.dump(evidence, evidence_file, indent=1, default=str)
    out(
        "%s %s: %d obligations, %d discharged, %d known finding(s), %d violation(s), %d abstract cells, %.2fs -> exit %d"
        % (property_id, result.tier, total, discharged, len(known_hits), len(violations), result.cells, wall, exit_code)
    )
    return exit_code


def _short(witness):
    text = json.dumps(witness, default=str) if witness is not None else ""
    return text if len(text) <= 600 else text[:600] + "..."
