"""
X-STATE - hidden run-time state at module level.

Every property of the catalogue is stated over inputs, configurations or histories of the PUBLIC objects (a CID, a reader,
a writer).  A module-level container that functions mutate while the program runs is state that none of these objects
owns: what a call returns then depends on which calls happened before in the same process.  The analysis finds every such
cell in the package and classifies it from the code:

  constant      never mutated by a function                                     (silent)
  import-time   mutated only by functions that are called from module level     (silent)
  write-only    mutated, but no function reads it                               (silent: cannot influence a result)
  memo          ``value = G.get(key)`` / ``G[key] = value`` in one function, where the cached value is computed from
                nothing but the key and without reading anything outside the process           (silent)
  memo with a key that omits an input of the cached value                       VIOLATION
  memo of something read from a file                                            VIOLATION (stale after the file changes)
  anything else that is read by a function                                      VIOLATION (shared between calls)

Aliases are followed one step (``buffer = _MODULE_LIST`` ... ``buffer[0] = x`` in the function or a nested function).
"""
import ast

from .model import dotted, walk_own

MUTATING_METHODS = {"append", "extend", "add", "update", "setdefault", "pop", "popitem", "clear", "insert", "remove", "discard",
                    "appendleft", "sort", "reverse", "__setitem__", "__delitem__"}
CONTAINER_CALLS = {"dict", "list", "set", "collections.defaultdict", "collections.OrderedDict", "collections.deque",
                   "collections.Counter", "defaultdict", "OrderedDict", "deque", "Counter", "bytearray", "weakref.WeakValueDictionary"}
# callees whose result depends on the world outside the process
OUTSIDE = {"open", "io.open", "zipfile.ZipFile", "xlrd.open_workbook", "ElementTree.parse", "xml.etree.ElementTree.parse",
           "os.listdir", "os.stat", "os.path.exists", "os.path.getmtime", "glob.glob", "input", "time.time", "os.environ.get",
           "os.getenv", "codecs.open"}
OUTSIDE_METHODS = {"read", "readline", "readlines", "getroot", "parse", "sheet_by_index", "sheets", "namelist"}


class Cell:
    def __init__(self, module, name, node):
        self.module = module
        self.name = name
        self.node = node
        self.writers = []  # (FuncInfo, ast node, description)
        self.readers = []  # (FuncInfo, ast node)
        self.kind = None
        self.reason = None

    def where(self):
        return "%s:%d (%s)" % (self.module.relpath, self.node.lineno, self.name)


def _is_container_expr(node):
    if isinstance(node, (ast.Dict, ast.List, ast.Set, ast.ListComp, ast.DictComp, ast.SetComp)):
        return True
    if isinstance(node, ast.Call) and dotted(node.func) in CONTAINER_CALLS:
        return True
    return False


def _functions_of(model, module):
    return [f for f in model.functions.values() if f.module is module]


def _outermost(func):
    while func.parent is not None:
        func = func.parent
    return func


def _local_stores(func_node):
    """Names a function binds itself (parameters, assignments, loop targets ...), minus those declared global."""
    names = set()
    declared_global = set()
    arguments = func_node.args
    for argument in arguments.posonlyargs + arguments.args + arguments.kwonlyargs:
        names.add(argument.arg)
    if arguments.vararg:
        names.add(arguments.vararg.arg)
    if arguments.kwarg:
        names.add(arguments.kwarg.arg)
    for node in walk_own(func_node):
        if isinstance(node, ast.Name) and isinstance(node.ctx, (ast.Store, ast.Del)):
            names.add(node.id)
        elif isinstance(node, ast.Global):
            declared_global.update(node.names)
        elif isinstance(node, ast.ExceptHandler) and node.name:
            names.add(node.name)
    return names - declared_global, declared_global


def find_cells(model):
    cells = {}
    for module in model.modules.values():
        if not module.name.startswith(model.PACKAGE):
            continue
        for statement in module.tree.body:
            targets = []
            value = None
            if isinstance(statement, ast.Assign):
                targets, value = statement.targets, statement.value
            elif isinstance(statement, ast.AnnAssign) and statement.value is not None:
                targets, value = [statement.target], statement.value
            for target in targets:
                if isinstance(target, ast.Name) and _is_container_expr(value):
                    cells[(module.name, target.id)] = Cell(module, target.id, statement)
    # names rebound through ``global`` in a function are cells whatever they hold
    for func in model.functions.values():
        if not func.module.name.startswith(model.PACKAGE):
            continue
        _, declared_global = _local_stores(func.node)
        for name in declared_global:
            stored = any(isinstance(n, ast.Name) and n.id == name and isinstance(n.ctx, ast.Store) for n in walk_own(func.node))
            if stored and (func.module.name, name) not in cells:
                anchor = next((s for s in func.module.tree.body if isinstance(s, ast.Assign) and any(
                    isinstance(t, ast.Name) and t.id == name for t in s.targets)), func.node)
                cells[(func.module.name, name)] = Cell(func.module, name, anchor)
    for func in model.functions.values():
        module = func.module
        if not module.name.startswith(model.PACKAGE):
            continue
        _scan_function(model, func, cells)
    return list(cells.values()) + _class_cells(model)


def _class_cells(model):
    """Containers assigned in a class body are shared by all instances unless a method rebinds ``self.NAME``."""
    result = []
    for cls in model.classes.values():
        if not cls.module.name.startswith(model.PACKAGE):
            continue
        for name, value in cls.class_assigns.items():
            if not _is_container_expr(value):
                continue
            cell = Cell(cls.module, "%s.%s" % (cls.name, name), value)
            family = [cls] + list(model.subclasses(cls))
            rebound = False
            for member in family:
                for method in member.methods.values():
                    for node in walk_own(method.node):
                        for target in (node.targets if isinstance(node, ast.Assign) else []):
                            if isinstance(target, ast.Attribute) and target.attr == name and isinstance(target.value, ast.Name) \
                                    and target.value.id == "self":
                                rebound = True
            if rebound:
                continue  # instance attribute of the same name: the class-level value is only a default
            owners = {"self", "cls", cls.name}
            for member in family:
                for method in member.methods.values():
                    written = set()
                    for node in walk_own(method.node):
                        targets = []
                        if isinstance(node, ast.Assign):
                            targets = node.targets
                        elif isinstance(node, ast.AugAssign):
                            targets = [node.target]
                        elif isinstance(node, ast.Delete):
                            targets = node.targets
                        for target in targets:
                            base = target
                            subscripted = False
                            while isinstance(base, ast.Subscript):
                                base, subscripted = base.value, True
                            if isinstance(base, ast.Attribute) and base.attr == name and isinstance(base.value, ast.Name) \
                                    and base.value.id in owners and (subscripted or isinstance(node, ast.AugAssign) or base.value.id != "self"):
                                cell.writers.append((method, node, "stores into it"))
                                written.add(id(base))
                        if isinstance(node, ast.Call) and isinstance(node.func, ast.Attribute) and node.func.attr in MUTATING_METHODS:
                            base = node.func.value
                            if isinstance(base, ast.Attribute) and base.attr == name and isinstance(base.value, ast.Name) and base.value.id in owners:
                                cell.writers.append((method, node, "calls .%s() on it" % node.func.attr))
                                written.add(id(base))
                    for node in walk_own(method.node):
                        if isinstance(node, ast.Attribute) and node.attr == name and isinstance(node.ctx, ast.Load) and id(node) not in written \
                                and isinstance(node.value, ast.Name) and node.value.id in owners:
                            cell.readers.append((method, node))
            result.append(cell)
    return result


def _visible_aliases(model, func, cells):
    """name -> Cell for names that denote a module-level cell inside ``func`` (directly, or as one-step alias made in this
    function or an enclosing one)."""
    chain = []
    current = func
    while current is not None:
        chain.append(current)
        current = current.parent
    visible = {}
    shadowed = set()
    for scope in reversed(chain):  # outermost first
        local, declared_global = _local_stores(scope.node)
        aliases = {}
        for node in walk_own(scope.node):
            if isinstance(node, ast.Assign) and len(node.targets) == 1 and isinstance(node.targets[0], ast.Name) and isinstance(node.value, ast.Name):
                source = node.value.id
                cell = visible.get(source)
                if cell is None and source not in shadowed and source not in local:
                    cell = cells.get((scope.module.name, source))
                if cell is not None:
                    stores = sum(1 for n in walk_own(scope.node) if isinstance(n, ast.Name) and n.id == node.targets[0].id
                                 and isinstance(n.ctx, ast.Store))
                    if stores == 1:
                        aliases[node.targets[0].id] = cell
        for name in local:
            if name not in aliases:
                shadowed.add(name)
                visible.pop(name, None)
        visible.update(aliases)
    local, declared_global = _local_stores(func.node)
    for (module_name, name), cell in cells.items():
        if module_name == func.module.name and name not in shadowed and name not in visible:
            visible[name] = cell
    # cells of other modules reached as module.NAME
    return visible


def _scan_function(model, func, cells):
    visible = _visible_aliases(model, func, cells)

    def cell_of(node):
        if isinstance(node, ast.Name):
            return visible.get(node.id)
        if isinstance(node, ast.Attribute) and isinstance(node.value, ast.Name):
            target = func.module.imports.get(node.value.id)
            if target and (target, node.attr) in cells:
                return cells[(target, node.attr)]
        return None

    written_nodes = set()
    for node in walk_own(func.node):
        targets = []
        if isinstance(node, ast.Assign):
            targets = node.targets
        elif isinstance(node, (ast.AugAssign, ast.AnnAssign)):
            targets = [node.target]
        elif isinstance(node, ast.Delete):
            targets = node.targets
        for target in targets:
            base = target
            subscripted = False
            while isinstance(base, ast.Subscript):
                base = base.value
                subscripted = True
            cell = cell_of(base)
            if cell is None:
                continue
            if subscripted or isinstance(node, ast.AugAssign):
                cell.writers.append((func, node, "stores into it"))
                written_nodes.add(id(base))
            elif isinstance(base, ast.Name) and base.id == cell.name and base.id in _local_stores(func.node)[1]:
                cell.writers.append((func, node, "rebinds it (global)"))
                written_nodes.add(id(base))
            elif isinstance(base, ast.Attribute):
                cell.writers.append((func, node, "rebinds it from another module"))
                written_nodes.add(id(base))
        if isinstance(node, ast.Call) and isinstance(node.func, ast.Attribute) and node.func.attr in MUTATING_METHODS:
            cell = cell_of(node.func.value)
            if cell is not None:
                cell.writers.append((func, node, "calls .%s() on it" % node.func.attr))
                written_nodes.add(id(node.func.value))
    for node in walk_own(func.node):
        if isinstance(node, (ast.Name, ast.Attribute)) and isinstance(getattr(node, "ctx", None), ast.Load) and id(node) not in written_nodes:
            cell = cell_of(node)
            if cell is not None:
                # the alias statement itself (buffer = G) is not a read of the contents
                cell.readers.append((func, node))


def _called_only_at_import(model, graph, writer_funcs):
    """True when the writers are private helpers that module-level code calls and no function body refers to: they run
    while the package is imported and never again.  A public function can be called by anybody at any time."""
    targets = {f.qualname for f in writer_funcs}
    outer = [f for f in writer_funcs if f.parent is None]
    if not outer or any(not f.name.startswith("_") or f.cls is not None for f in outer):
        return False
    called_at_module_level = False
    for func in outer:
        for statement in func.module.tree.body:
            if isinstance(statement, (ast.FunctionDef, ast.AsyncFunctionDef, ast.ClassDef)):
                continue
            for node in ast.walk(statement):
                if isinstance(node, ast.Name) and node.id == func.name and isinstance(node.ctx, ast.Load):
                    called_at_module_level = True
    if not called_at_module_level:
        return False
    for func in model.functions.values():
        for node in walk_own(func.node):
            if isinstance(node, ast.Call):
                for callee in graph.resolve_call(func, node):
                    if getattr(callee, "qualname", None) in targets and func.qualname not in targets:
                        return False
    # decorators / references as values: be conservative, a reference to the writer inside a function counts as a call
    for func in model.functions.values():
        for node in walk_own(func.node):
            if isinstance(node, ast.Name) and isinstance(node.ctx, ast.Load) and any(node.id == f.name for f in writer_funcs):
                if func.qualname not in targets:
                    return False
    return True


def _names_in(node):
    return {n.id for n in ast.walk(node) if isinstance(n, ast.Name)}


def _inputs_of(func, expression, cell_aliases):
    """Parameters / closure variables (of ``func`` and enclosing functions) the value of ``expression`` depends on, followed
    through the local assignments of ``func``; plus the outside-world callees met on the way."""
    definitions = {}
    for node in walk_own(func.node):
        targets = []
        value = None
        if isinstance(node, ast.Assign):
            targets, value = node.targets, node.value
        elif isinstance(node, ast.AugAssign):
            targets, value = [node.target], node.value
        elif isinstance(node, (ast.With, ast.AsyncWith)):
            for item in node.items:
                if item.optional_vars is not None:
                    for name in _names_in(item.optional_vars):
                        definitions.setdefault(name, []).append(item.context_expr)
        elif isinstance(node, (ast.For, ast.AsyncFor)):
            for name in _names_in(node.target):
                definitions.setdefault(name, []).append(node.iter)
        for target in targets:
            for name in _names_in(target):
                definitions.setdefault(name, []).append(value)
    # control dependence (round 11): a value assigned under ``if test:`` depends on what the test reads - a memo whose
    # value is chosen by ``if self._dialect.is_keyword(name)`` depends on the dialect although no assignment mentions it
    def controlled(statements, tests):
        for statement in statements:
            if isinstance(statement, (ast.FunctionDef, ast.AsyncFunctionDef, ast.ClassDef)):
                continue
            if isinstance(statement, (ast.Assign, ast.AugAssign)) and tests:
                for target in (statement.targets if isinstance(statement, ast.Assign) else [statement.target]):
                    for name in _names_in(target):
                        definitions.setdefault(name, []).extend(tests)
            if isinstance(statement, (ast.If, ast.While)):
                controlled(statement.body, tests + [statement.test])
                controlled(statement.orelse, tests + [statement.test])
            else:
                for field in ("body", "orelse", "finalbody"):
                    controlled(getattr(statement, field, []) or [], tests)
                for handler in getattr(statement, "handlers", []) or []:
                    controlled(handler.body, tests)

    controlled(func.node.body, [])
    local, _ = _local_stores(func.node)
    params = set()
    arguments = func.node.args
    for argument in arguments.posonlyargs + arguments.args + arguments.kwonlyargs:
        params.add(argument.arg)
    inputs = set()
    outside = []
    seen = set()
    stack = [expression]
    while stack:
        current = stack.pop()
        for node in ast.walk(current):
            if isinstance(node, ast.Call):
                name = dotted(node.func) or ""
                if name in OUTSIDE or name.split(".")[-1] in OUTSIDE_METHODS and isinstance(node.func, ast.Attribute):
                    outside.append(name)
            if isinstance(node, ast.Name) and isinstance(node.ctx, ast.Load):
                if node.id in cell_aliases:
                    continue
                if node.id in params:
                    inputs.add(node.id)
                elif node.id in definitions:
                    if node.id not in seen:
                        seen.add(node.id)
                        stack.extend(definitions[node.id])
                elif node.id not in local:
                    # closure variable of an enclosing function, or a module-level / builtin name
                    enclosing = func.parent
                    while enclosing is not None:
                        enclosing_local, _ = _local_stores(enclosing.node)
                        if node.id in enclosing_local:
                            inputs.add(node.id)
                            break
                        enclosing = enclosing.parent
    return inputs, outside


def _memo_verdict(cell, func):
    """(kind, reason) for a writer function that looks like a memo, or None when it does not."""
    stores = [node for f, node, how in cell.writers if f is func]
    if len(stores) != 1:
        return None
    store = stores[0]
    key = value = None
    aliases = {cell.name}
    if isinstance(store, ast.Assign) and len(store.targets) == 1 and isinstance(store.targets[0], ast.Subscript):
        key, value = store.targets[0].slice, store.value
    elif isinstance(store, ast.Call) and store.func.attr == "setdefault" and len(store.args) == 2:
        key, value = store.args
    if key is None:
        return None
    key_text = ast.unparse(key)
    looked_up = False
    for f, node in cell.readers:
        if f is not func:
            return None  # somebody else reads the container: not a private memo
    for node in walk_own(func.node):
        if isinstance(node, ast.Call) and isinstance(node.func, ast.Attribute) and node.func.attr == "get" and node.args \
                and ast.unparse(node.args[0]) == key_text:
            looked_up = True
        if isinstance(node, ast.Subscript) and isinstance(node.ctx, ast.Load) and ast.unparse(node.slice) == key_text:
            looked_up = True
        if isinstance(node, ast.Compare) and any(isinstance(op, (ast.In, ast.NotIn)) for op in node.ops) and ast.unparse(node.left) == key_text:
            looked_up = True
    if not looked_up:
        return None
    key_inputs, _ = _inputs_of(func, key, aliases)
    value_inputs, outside = _inputs_of(func, value, aliases)
    missing = sorted(value_inputs - key_inputs)
    if missing:
        return ("memo-key-incomplete", "the cached value depends on %s, which is not part of the key %s: two different requests share one entry"
                % (", ".join(missing), key_text))
    if outside:
        return ("memo-of-outside-data", "the cached value comes from %s: it is not read again when the data outside the process changes"
                % ", ".join(sorted(set(outside))))
    return ("memo", "value computed from the key %s only" % key_text)


def classify(model, graph=None):
    """List of classified cells."""
    if graph is None:
        from .escape import CallGraph

        graph = CallGraph(model)
    cells = find_cells(model)
    for cell in cells:
        if not cell.writers:
            cell.kind, cell.reason = "constant", "no function mutates it"
            continue
        writer_funcs = []
        for func, _, _ in cell.writers:
            if func not in writer_funcs:
                writer_funcs.append(func)
        closure = list(writer_funcs)
        for func in writer_funcs:
            outer = _outermost(func)
            if outer not in closure:
                closure.append(outer)
        if _called_only_at_import(model, graph, closure):
            cell.kind, cell.reason = "import-time", "only module-level code calls %s" % ", ".join(f.qualname.replace("cutplace.", "") for f in writer_funcs)
            continue
        content_readers = [(f, n) for f, n in cell.readers]
        if not content_readers:
            cell.kind, cell.reason = "write-only", "no function reads it"
            continue
        verdicts = [_memo_verdict(cell, func) for func in writer_funcs]
        if len(writer_funcs) == 1 and verdicts[0] is not None:
            cell.kind, cell.reason = verdicts[0]
            continue
        cell.kind = "shared"
        cell.reason = "%s %s and %s reads it: what a call does depends on the calls made before in this process" % (
            writer_funcs[0].qualname.replace("cutplace.", ""), cell.writers[0][2],
            sorted({f.qualname.replace("cutplace.", "") for f, _ in content_readers})[0])
    return cells + observer_cells(model)


# classes whose instances are validators without a life cycle: what a method answers is a function of the declaration
# (constructor arguments) and the arguments of the call, never of earlier calls
OBSERVER_ROOTS = ("cutplace.ranges.Range", "cutplace.fields.AbstractFieldFormat", "cutplace.sql.AnsiSqlDialect")


def _self_attribute_writes(func_node):
    """(attribute, node) for assignments / mutating calls on attributes of ``self`` in one method."""
    found = []
    for node in walk_own(func_node):
        targets = []
        if isinstance(node, ast.Assign):
            targets = node.targets
        elif isinstance(node, (ast.AugAssign, ast.AnnAssign)):
            targets = [node.target]
        elif isinstance(node, ast.Delete):
            targets = node.targets
        for target in targets:
            elements = target.elts if isinstance(target, (ast.Tuple, ast.List)) else [target]
            for element in elements:
                base = element
                while isinstance(base, ast.Subscript):
                    base = base.value
                if isinstance(base, ast.Attribute) and isinstance(base.value, ast.Name) and base.value.id == "self":
                    found.append((base.attr, node))
        if isinstance(node, ast.Call) and isinstance(node.func, ast.Attribute) and node.func.attr in MUTATING_METHODS:
            base = node.func.value
            if isinstance(base, ast.Attribute) and isinstance(base.value, ast.Name) and base.value.id == "self":
                found.append((base.attr, node))
    return found


def _constructor_phase_methods(model, cls):
    """Private methods of ``cls`` that are only ever called (as ``self.m(...)``) from ``__init__`` or from other such
    methods anywhere in the class family: helpers a constructor was split into."""
    family = [cls] + list(model.subclasses(cls)) + [c for c in model.classes.values() if cls in model.subclasses(c)]
    callers = {}  # method name -> set of caller method names
    for member in family:
        for caller_name, method in member.methods.items():
            for node in ast.walk(method.node):
                if isinstance(node, ast.Attribute) and isinstance(node.value, ast.Name) and node.value.id in ("self", "cls"):
                    callers.setdefault(node.attr, set()).add(caller_name)
                elif isinstance(node, ast.Attribute) and isinstance(node.value, ast.Call) and isinstance(node.value.func, ast.Name) \
                        and node.value.func.id == "super":
                    callers.setdefault(node.attr, set()).add(caller_name)
    phase = set()
    changed = True
    while changed:
        changed = False
        for name in cls.methods:
            if name in phase or not name.startswith("_") or name.startswith("__"):
                continue
            called_from = callers.get(name, set()) - {name}
            if called_from and all(caller == "__init__" or caller in phase for caller in called_from):
                phase.add(name)
                changed = True
    return phase


def observer_cells(model):
    """
    Instance attributes of observer classes that a method other than the constructor (or a property setter) writes.
    kind "lazy": written only under ``if self.x is None`` from attributes nobody writes after construction (a per-object
    memo); "write-only": never read; otherwise "shared": the answer of a call depends on earlier calls on the object.
    """
    cells = []
    seen_classes = []
    for root in OBSERVER_ROOTS:
        if root not in model.classes:
            continue
        for cls in [model.classes[root]] + list(model.subclasses(model.classes[root])):
            if cls not in seen_classes and cls.module.name.startswith(model.PACKAGE):
                seen_classes.append(cls)
    for cls in seen_classes:
        setters = {setter for _, setter in cls.properties.values() if setter is not None}
        written_late = {}
        constructor_phase = _constructor_phase_methods(model, cls)
        for name, method in cls.methods.items():
            if name == "__init__" or method in setters or name in constructor_phase:
                continue
            for attribute, node in _self_attribute_writes(method.node):
                written_late.setdefault(attribute, []).append((method, node))
        family = [cls] + [c for c in model.classes.values() if cls in getattr(c, "mro", [])] + list(model.subclasses(cls))
        for attribute, writes in sorted(written_late.items()):
            cell = Cell(cls.module, "%s.%s" % (cls.name, attribute), writes[0][1])
            cell.writers = [(method, node, "assigns it outside the constructor") for method, node in writes]
            for member in family:
                for method in member.methods.values():
                    for node in walk_own(method.node):
                        if isinstance(node, ast.Attribute) and node.attr == attribute and isinstance(node.ctx, ast.Load) \
                                and isinstance(node.value, ast.Name) and node.value.id == "self":
                            cell.readers.append((method, node))
            if not cell.readers:
                cell.kind, cell.reason = "write-only", "no method reads it"
            else:
                lazy = True
                for method, node in writes:
                    guard = model.parents.get(id(node))
                    guarded = isinstance(guard, ast.If) and ast.unparse(guard.test) in ("self.%s is None" % attribute, "not self.%s" % attribute) \
                        and node in guard.body
                    inputs = {n.attr for n in ast.walk(node.value if isinstance(node, ast.Assign) else node) if isinstance(n, ast.Attribute)
                              and isinstance(n.value, ast.Name) and n.value.id == "self"}
                    arguments = {a.arg for a in method.node.args.args[1:]}
                    uses_arguments = any(isinstance(n, ast.Name) and n.id in arguments for n in ast.walk(node.value if isinstance(node, ast.Assign) else node))
                    if not guarded or uses_arguments or (inputs - {attribute}) & set(written_late):
                        lazy = False
                if lazy:
                    cell.kind, cell.reason = "lazy", "computed once per object from what the constructor stored"
                else:
                    cell.kind = "shared"
                    cell.reason = "%s %s and %s reads it: what the object answers depends on the calls made on it before" % (
                        writes[0][0].qualname.replace("cutplace.", ""), "assigns it outside the constructor",
                        sorted({f.qualname.replace("cutplace.", "") for f, _ in cell.readers})[0])
            cells.append(cell)
    return cells


VIOLATING = {"memo-key-incomplete", "memo-of-outside-data", "shared"}
