"""
Helpers shared by the DECIDE rules: run a decision table through ``explore`` and compare each
cell with its oracle; build the small abstract object graphs (locations, CIDs, data formats).
"""
import ast

from . import absint
from .absint import AbsRaise, Obj, Undecided, exc_name, explore
from .model import AnalysisError


class Ctx:
    def __init__(self, model, result, tier):
        self.model = model
        self.res = result
        self.tier = tier

    @property
    def thorough(self):
        return self.tier == "thorough"


def where_of(model, qualname):
    info = model.func(qualname)
    return "%s (%s)" % (info.loc(), qualname.replace("cutplace.", ""))


def decide(ctx, rule, table, qualname, cell_fn, max_report=6, min_cells=1, key_name=None):
    """
    ``cell_fn(chooser)`` interprets one cell and returns ``(cell_key, actual, expected)`` or ``None``
    for a combination outside the table.  Every mismatch is one finding keyed by the cell.
    """
    cells = 0
    mismatches = {}
    sample = None
    for chooser, outcome in explore(lambda ch: _guard(cell_fn, ch)):
        if outcome is None:
            continue
        if isinstance(outcome, _CellError):
            raise AnalysisError(
                "table %s/%s undecided at choices %s: %s" % (rule, table, chooser.record(), outcome.error)
            )
        cell_key, actual, expected = outcome
        cells += 1
        if sample is None:
            sample = {"cell": str(cell_key), "outcome": _render(actual)}
        if _render(actual) != _render(expected):
            if str(cell_key) not in mismatches:
                mismatches[str(cell_key)] = (actual, expected, chooser.record())
    what = "%s decision table of %s" % (table, qualname.replace("cutplace.", ""))
    if cells < min_cells and not mismatches:
        # (a table that shrank AND has mismatching cells reports the mismatches: they are real whatever the size)
        raise AnalysisError("table %s/%s produced %d cells, expected at least %d" % (rule, table, cells, min_cells))
    if not mismatches:
        ctx.res.ok(rule, what, True, {"cells": cells, "sample": sample}, cells=cells)
    else:
        first = True
        for cell_key, (actual, expected, record) in list(mismatches.items())[:max_report]:
            ctx.res.fail(
                rule,
                what + " cell " + cell_key,
                "%s:%s:%s:%s" % (qualname.replace("cutplace.", ""), rule, key_name or table, cell_key),
                where_of(ctx.model, qualname),
                ("%s: cell %s: %s%.0s%s" if _render(expected) == "conforms" else "%s: cell %s gives %s but the property requires %s%s")
                % (table, cell_key, _render(actual), _render(expected),
                   "" if len(mismatches) <= max_report or not first else " (+%d more cells)" % (len(mismatches) - max_report)),
                {"choices": record, "actual": _render(actual), "expected": _render(expected)},
                cells=cells if first else 0,
            )
            first = False
    return cells, mismatches


def decide_kinds(ctx, rule, table, qualname, cell_fn, min_cells=1, key_name=None):
    """
    Like ``decide`` but ``cell_fn`` classifies a violating cell into a *kind* (``(cell_key, kind_or_None, detail)``);
    all cells of one kind are one finding, keyed by the kind, with the first cells as witness.
    """
    cells = 0
    kinds = {}
    sample = None
    for chooser, outcome in explore(lambda ch: _guard(cell_fn, ch)):
        if outcome is None:
            continue
        if isinstance(outcome, _CellError):
            raise AnalysisError("table %s/%s undecided at choices %s: %s" % (rule, table, chooser.record(), outcome.error))
        cell_key, kind, detail = outcome
        cells += 1
        if sample is None:
            sample = {"cell": str(cell_key), "verdict": kind or "conforms"}
        if kind is not None:
            entry = kinds.setdefault(kind, {"count": 0, "cells": []})
            entry["count"] += 1
            if len(entry["cells"]) < 5:
                entry["cells"].append("%s: %s" % (cell_key, detail))
    what = "%s decision table of %s" % (table, qualname.replace("cutplace.", ""))
    if cells < min_cells and not kinds:
        raise AnalysisError("table %s/%s produced %d cells, expected at least %d" % (rule, table, cells, min_cells))
    if not kinds:
        ctx.res.ok(rule, what, True, {"cells": cells, "sample": sample}, cells=cells)
    first = True
    for kind, entry in sorted(kinds.items()):
        ctx.res.fail(rule, what + ": " + kind, "%s:%s:%s:%s" % (qualname.replace("cutplace.", ""), rule, key_name or table, kind),
                     where_of(ctx.model, qualname), "%s: %s in %d of %d cells, e.g. %s" % (table, kind, entry["count"], cells, entry["cells"][0]),
                     {"cells": entry["cells"]}, cells=cells if first else 0)
        first = False
    return cells, kinds


class _CellError:
    def __init__(self, error):
        self.error = error


def _guard(cell_fn, chooser):
    try:
        return cell_fn(chooser)
    except Undecided as error:
        return _CellError(error)
    except RecursionError as error:
        return _CellError(error)


def _render(value):
    if isinstance(value, (list, tuple)):
        return "(" + ", ".join(_render(item) for item in value) + ")"
    if isinstance(value, dict):
        return "{" + ", ".join("%s: %s" % (_render(k), _render(v)) for k, v in sorted(value.items(), key=str)) + "}"
    if isinstance(value, Obj):
        return exc_name(value) if _is_exception(value) else repr(value)
    return repr(value) if not isinstance(value, str) else value


def _is_exception(obj):
    name = obj.cls_name
    return name.endswith("Error") or name.endswith("Exception") or "Error" in name


def outcome_of(interp_outcome):
    """Compact, comparable form of run_call's outcome."""
    kind = interp_outcome[0]
    if kind == "raise":
        return "raise " + exc_name(interp_outcome[1])
    return ("return", interp_outcome[1])


# ------------------------------------------------------------------------------ object builders
def new_location(model, label="loc", has_cell=True, line=0):
    cls = model.cls("cutplace.errors.Location")
    return Obj(
        cls,
        {
            "file_path": "<data>",
            "_line": line,
            "_column": 0,
            "_cell": 0,
            "_sheet": 0,
            "_has_column": False,
            "_has_cell": has_cell,
            "_has_sheet": False,
        },
        label=label,
    )


def is_copy_of(value, original):
    return isinstance(value, Obj) and getattr(value, "copied_from", None) is original


def stub(function):
    function._absint_stub = True
    return function


def find_calls(func_node, predicate):
    from .model import walk_own

    return [n for n in walk_own(func_node) if isinstance(n, ast.Call) and predicate(n)]


def init_literal_attrs(model, cls):
    """
    Attributes a class's ``__init__`` sets unconditionally to a literal (``self.x = 0`` / ``None`` / ``[]`` / ``{}``):
    tables that build the object by hand (because the interesting attributes are abstract) start from these, so that a
    new bookkeeping attribute is modelled with its real initial value instead of being unknown.
    """
    import ast

    init = model.lookup_method(cls, "__init__")
    result = {}
    if init is None:
        return result
    for statement in init.node.body:
        if isinstance(statement, ast.Assign) and len(statement.targets) == 1:
            target = statement.targets[0]
            if isinstance(target, ast.Attribute) and isinstance(target.value, ast.Name) and target.value.id == "self":
                value = statement.value
                if isinstance(value, ast.Constant):
                    result[target.attr] = value.value
                elif isinstance(value, (ast.List, ast.Tuple, ast.Set)) and not value.elts:
                    result[target.attr] = {ast.List: list, ast.Tuple: tuple, ast.Set: set}[type(value)]()
                elif isinstance(value, ast.Dict) and not value.keys:
                    result[target.attr] = {}
    return result
