"""
Triage of the value-dependent asserts reachable from the API entry points (DESIGN.md appendix A).

Key: (function qualified name without the package prefix, normalised condition).  Classes:
  internal - restates an invariant established by the repository's own code, independent of CID/data text
  guarded  - a dominating guard in the caller chain raises a cutplace error under the negated condition
  api      - contract on programmatic arguments (constants, call protocol), not on CID or data cells
  table    - decided by a DECIDE table of the checker (named in the reason); the table reports a violation itself
  input    - CID or data text can falsify it: AssertionError escapes (a finding)
An assert that is not ``x is None`` / ``x is not None`` / ``isinstance`` and is missing here is reported when its
condition depends on a parameter of its function.
"""

INTERNAL, GUARDED, API, TABLE, INPUT = "internal", "guarded", "api", "table", "input"

TRIAGE = {
    ("_tools.human_readable_list", "result"): (INTERNAL, "at least two items were joined"),
    ("_tools.is_comma_token", "some_token"): (INTERNAL, "tokens are non-empty tuples"),
    ("_tools.validated_python_name", "name"): (API, "callers pass a literal name"),
    ("applications.CutplaceApp.validate", "self.validate_until is None or self.validate_until >= 0"): (TABLE, "C18 O18.4: --until mapping"),
    ("applications.main", "argv"): (API, "argument vector"),
    ("applications.process", "argv"): (API, "argument vector"),
    ("checks.AbstractCheck.__init__", "description"): (GUARDED, "add_check_row refuses an empty description first"),
    ("checks.DistinctCountCheck.__init__", "line_where_field_name_ends == 1"): (INPUT, "F10f: a rule starting with a backslash-newline continuation puts the field name on line 2"),
    ("checks.DistinctCountCheck.__init__", "column_where_field_name_ends > 0"): (INTERNAL, "a NAME token is not empty"),
    ("data.DataFormat.__init__", "format_name == format_name.lower()"): (GUARDED, "add_data_format_row passes value.lower(); auto_rows a constant"),
    ("data.DataFormat._validated_bool", "key"): (API, "callers pass KEY_* constants"),
    ("data.DataFormat._validated_character", "result_code >= 0"): (INTERNAL, "ord(), the symbolic map and unsigned NUMBER tokens are non-negative"),
    ("data.DataFormat._validated_character", "key"): (API, "callers pass KEY_* constants"),
    ("data.DataFormat._validated_choice", "choices"): (API, "callers pass non-empty constant lists"),
    ("data.DataFormat._validated_choice", "key"): (API, "callers pass KEY_* constants"),
    ("data.DataFormat._validated_int_at_least_0", "key"): (API, "callers pass KEY_* constants"),
    ("data.DataFormat.set_property", "False"): (TABLE, "C11 O11.1 / C10: set_property table over every property name"),
    ("data.DataFormat.set_property", "value is not None or name in (KEY_ALLOWED_CHARACTERS, KEY_LINE_DELIMITER)"): (API, "CID cells are strings"),
    ("data.DataFormat.set_property", "name == name.lower()"): (GUARDED, "add_data_format_row passes name.lower()"),
    ("data.DataFormat.set_property", "not self.is_valid"): (API, "Cid.read validates after the last row"),
    ("data.DataFormat.validate", "name1 < name2"): (INTERNAL, "constants"),
    ("data.DataFormat.validate", "not self._is_valid"): (API, "validate once"),
    ("data.DataFormat.validate.check_distinct", "name1 < name2"): (INTERNAL, "constants"),
    ("errors.CutplaceError.__init__", "see_also_location and see_also_message or not see_also_location"): (INTERNAL, "callers pass both or none"),
    ("errors.CutplaceError.__init__", "message"): (INTERNAL, "messages are non-empty literals or formatted texts"),
    ("errors.Location.__init__", "file_path"): (API, "path or stream given by the caller"),
    ("errors.Location.advance_cell", "self._has_cell"): (INTERNAL, "cell-capable locations only (construction sites pass has_cell=True)"),
    ("errors.Location.advance_cell", "amount > 0"): (GUARDED, "ods_rows refuses a repeat count below 1 first; other callers use the default"),
    ("errors.Location.advance_column", "self._has_column"): (INTERNAL, "fixed_rows creates its location with has_column=True"),
    ("errors.Location.advance_column", "amount > 0"): (GUARDED, "field lengths are at least 1 (add_field_format_row)"),
    ("errors.Location.advance_line", "amount > 0"): (INTERNAL, "default or a positive line number"),
    ("errors.Location.set_cell", "self._has_cell"): (INTERNAL, "cell-capable locations only"),
    ("errors.Location.set_cell", "new_cell >= 0"): (INTERNAL, "constants and enumerate indices"),
    ("fields.AbstractFieldFormat.__init__", "is_allowed_to_be_empty in (False, True)"): (INTERNAL, "computed as a bool by add_field_format_row"),
    ("fields.AbstractFieldFormat.__init__", "field_name"): (GUARDED, "validated_field_name refuses an empty name"),
    ("fields.IntegerFieldFormat.__init__", "self.length.lower_limit == self.length.upper_limit"): (INPUT, "F10d: fixed format, Integer field with a length range; the fixed-length guards run after construction"),
    ("fields.field_name_index", "available_field_names"): (GUARDED, "AbstractCheck.__init__ raises without fields"),
    ("fields.field_name_index", "field_name_to_look_up == field_name_to_look_up.strip()"): (INPUT, "F86: the 3.12 tokenizer folds non-ASCII white space (NBSP, NEL, U+2028, U+3000) next to a name into the NAME token, so a check rule 'a,\u00a0b' falsifies it"),
    ("interface.Cid._create_check_class", "check_type"): (GUARDED, "check type + 'Check' must be a known class name"),
    ("interface.Cid._create_class", "type_name"): (INTERNAL, "literal"),
    ("interface.Cid._create_class", "class_name_appendix"): (INTERNAL, "literal"),
    ("interface.Cid._create_class", "class_qualifier"): (GUARDED, "'Text' or a validated python name"),
    ("interface.Cid._create_class", "name_to_class_map"): (INTERNAL, "built-in classes always exist"),
    ("interface.Cid._create_field_format_class", "field_type"): (GUARDED, "'Text' or a validated python name"),
    ("interface.Cid.add_check_row", "len(self.check_names) == len(self._check_name_to_check_map)"): (INTERNAL, "both updated together after the duplicate test"),
    ("interface.Cid.add_data_format_row", "len(row_data) >= 2"): (INTERNAL, "read pads and cuts every row to 6 cells"),
    ("interface.Cid.add_field_format", "field_name not in self._field_name_to_format_map"): (GUARDED, "duplicate name refused by add_field_format_row"),
    ("interface.Cid.add_field_format_row", "field_type"): (GUARDED, "'Text' or a validated python name"),
    ("interface.Cid.add_field_format_row", "field_name"): (GUARDED, "validated_field_name refuses an empty name"),
    ("interface.Cid.add_field_format_row", "len(self._field_name_to_index_map) == field_count"): (INTERNAL, "maps and lists are updated together"),
    ("interface.Cid.add_field_format_row", "len(self._field_name_to_format_map) == field_count"): (INTERNAL, "maps and lists are updated together"),
    ("interface.Cid.add_field_format_row", "len(self._field_formats) == field_count"): (INTERNAL, "maps and lists are updated together"),
    ("interface.field_names_and_lengths", "lower == upper"): (GUARDED, "add_field_format_row refuses lower_limit != upper_limit for fixed"),
    ("interface.field_names_and_lengths", "len(field_format.length.items) == 1"): (GUARDED, "two disjoint items cannot have equal overall limits"),
    ("interface.field_names_and_lengths", "fixed_cid.data_format.format == data.FORMAT_FIXED"): (GUARDED, "callers test the format"),
    ("ranges.DecimalRange.__init__", "self.scale >= self.precision"): (INTERNAL, "digit counts are clamped at 0"),
    ("ranges.DecimalRange.__init__", "self.precision >= 0"): (INTERNAL, "digit counts are clamped at 0"),
    ("ranges.DecimalRange.__init__", "ellipsis_found"): (TABLE, "C01 O1.5: upper is only set after the ellipsis"),
    ("ranges.DecimalRange.__init__", "default is None or default.strip() != ''"): (API, "constant defaults"),
    ("ranges.DecimalRange.validate", "name"): (API, "literal names"),
    ("ranges.Range.__init__", "ellipsis_found"): (TABLE, "C01 O1.5: upper is only set after the ellipsis"),
    ("ranges.Range.__init__", "default is None or default.strip() != ''"): (API, "constant defaults"),
    ("ranges.Range._item_contains", "item != (None, None)"): (TABLE, "C01 O1.5: (None, None) is never stored"),
    ("ranges.Range._item_contains", "len(item) == 2"): (INTERNAL, "items are pairs"),
    ("ranges.Range._items_overlap", "other != (None, None)"): (TABLE, "C01 O1.5"),
    ("ranges.Range._items_overlap", "len(other) == 2"): (INTERNAL, "items are pairs"),
    ("ranges.Range._items_overlap", "some != (None, None)"): (TABLE, "C01 O1.5"),
    ("ranges.Range._items_overlap", "len(some) == 2"): (INTERNAL, "items are pairs"),
    ("ranges.Range.validate", "name"): (API, "literal names"),
    ("ranges._decimal_as_text", "precision >= 0"): (INTERNAL, "digit counts are clamped at 0"),
    ("ranges.code_for_string_token", "right_quote in '\"\\''"): (INPUT, "F10e: a STRING token may carry a prefix / the closing quote of a prefixed literal"),
    ("ranges.code_for_string_token", "left_quote in '\"\\''"): (INPUT, "F10e: a STRING token may carry a prefix such as u, b, r, f"),
    ("ranges.code_for_string_token", "len(value) >= 2"): (INTERNAL, "a STRING token has at least its two quotes"),
    ("rowio.AbstractRowWriter.__init__", "data_format.is_valid"): (API, "validated CID"),
    ("rowio.DelimitedRowWriter.__init__", "data_format.is_valid"): (API, "validated CID"),
    ("rowio.DelimitedRowWriter.__init__", "data_format.format == data.FORMAT_DELIMITED"): (GUARDED, "Writer.__init__ dispatches on the format"),
    ("rowio.FixedRowWriter.__init__", "field_length >= 1"): (GUARDED, "add_field_format_row refuses fixed lengths below 1"),
    ("rowio.FixedRowWriter.__init__", "data_format.is_valid"): (API, "validated CID"),
    ("rowio.FixedRowWriter.__init__", "data_format.format == data.FORMAT_FIXED"): (GUARDED, "Writer.__init__ dispatches on the format"),
    ("rowio.FixedRowWriter.write_row", "actual_field_length == expected_field_length"): (API, "F25: rows handed to a writer are programmatic input; validated rows are padded first (C14 table)"),
    ("rowio.FixedRowWriter.write_row", "row_to_write_item_count == self._expected_row_item_count"): (API, "F25: writer input; validated rows have the right count"),
    ("rowio._as_delimited_keywords", "delimited_data_format.format == data.FORMAT_DELIMITED"): (GUARDED, "callers dispatch on the format"),
    ("rowio._as_delimited_keywords", "delimited_data_format.is_valid"): (API, "validated CID"),
    ("rowio._excel_cell_value", "len(cell_tuple) == 6"): (INTERNAL, "xlrd contract"),
    ("rowio.excel_rows", "sheet >= 1"): (TABLE, "C11 O11.2: the Sheet property is at least 1"),
    ("rowio.fixed_rows", "len(unread_character_after_line_delimiter) == 1"): (INTERNAL, "one-slot list"),
    ("rowio.fixed_rows", "line_delimiter in ('\\n', '\\r', 'any')"): (TABLE, "C11: line delimiter values come from the folded map"),
    ("rowio.fixed_rows", "line_delimiter in _VALID_FIXED_LINE_DELIMITERS"): (TABLE, "C11: line delimiter values come from the folded map"),
    ("rowio.fixed_rows", "length >= 1"): (GUARDED, "add_field_format_row refuses fixed lengths below 1"),
    ("rowio.fixed_rows._has_data_after_skipped_line_delimiter", "line_delimiter in ('\\n', '\\r', 'any')"): (TABLE, "C11 / C13 table"),
    ("rowio.fixed_rows._has_data_after_skipped_line_delimiter", "line_delimiter in _VALID_FIXED_LINE_DELIMITERS"): (TABLE, "C11 / C13 table"),
    ("rowio.ods_rows", "sheet >= 1"): (TABLE, "C11 O11.2: the Sheet property is at least 1"),
    ("sql.TransactSqlDialect.sql_type", "limit >= 0"): (INTERNAL, "sign-adjusted magnitudes"),
    ("sql.assert_is_valid_ansi_type", "ansi_type_item >= 0"): (INTERNAL, "magnitudes and digit counts"),
    ("sql.assert_is_valid_ansi_type", "False"): (INTERNAL, "type names are literals of the field formats"),
    ("sql.assert_is_valid_ansi_type", "tuple_count <= 2"): (INTERNAL, "literal tuples"),
    ("sql.assert_is_valid_ansi_type", "tuple_count <= 3"): (INTERNAL, "literal tuples"),
    ("sql.assert_is_valid_ansi_type", "tuple_count == 1"): (INTERNAL, "literal tuples"),
    ("sql.assert_is_valid_ansi_type", "tuple_count >= 1"): (INTERNAL, "literal tuples"),
    ("sql.assert_is_valid_dialect", "str(dialect) in (ANSI, DB2, TRANSACT, PL)"): (API, "dialect constants"),
    ("validio.BaseValidator.__init__", "self._cid.data_format.is_valid"): (API, "validated CID"),
    ("validio.Reader.__init__", "validate_until is None or validate_until >= 0"): (API, "C18 O18.4 decides the command line's value"),
    ("validio.Reader.__init__", "on_error in _VALID_ON_ERROR_CHOICES"): (API, "mode constant"),
    ("validio.Reader._raw_rows", "False"): (TABLE, "C17 O17.2: a branch for every valid format"),
    ("validio.Reader.rows", "self.on_error == 'continue'"): (API, "mode constant asserted by the constructor"),
    ("validio.Writer.__init__", "self.cid.data_format.is_valid"): (API, "validated CID"),
    ("validio.Writer._padded_fixed_row", "len(row) == len(self.cid.field_formats)"): (API, "F25: writer input; validated rows have the right count"),
    ("validio._create_field_map", "len(field_names) == len(field_values)"): (GUARDED, "validate_row compares the item count first"),
    ("validio._create_field_map", "field_values"): (GUARDED, "a CID has at least one field, the row as many items"),
    ("validio._create_field_map", "field_names"): (GUARDED, "Cid.read refuses a CID without fields"),
    ("validio.rows", "validate_until is None or validate_until >= 0"): (API, "programmatic argument"),
    ("validio.rows", "on_error in _VALID_ON_ERROR_CHOICES"): (API, "mode constant"),
    ("validio.validate", "validate_until is None or validate_until >= 0"): (API, "programmatic argument"),
}

# the nine ``assert value`` / ``assert color_name`` of the value hooks: decided by C03 O3.2 (hook only for non-empty cells)
HOOK_ASSERT_FUNCTIONS_SUFFIX = ".validated_value"

# asserts of the DataFormat property setters: decided by the set_property table (C11 O11.2, repeated by C10)
SETTER_SUFFIX = "@setter"

# structural-looking asserts that input can nevertheless falsify
INPUT_STRUCTURAL = {
    ("fields.IntegerFieldFormat.sql_ansi_type.sign_adjusted_limit", "limit is not None"):
        "--create with an Integer rule open on one side (e.g. '1...') ends in AssertionError / exit code 4",
}
