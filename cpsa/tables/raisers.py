"""
Frozen table of external raisers used by the exception-escape analysis (cpsa/escape.py).
Every line carries its reason.  "Exception*" = a parser-internal exception without a documented closed set.
"""
import ast

from ..model import dotted, walk_own

ANY = "Exception*"

# callee (fully qualified through the importing module) -> classes it may raise for *input-dependent* arguments
EXTERNAL = {
    # DistinctCount: the count expression is compiled to look at its names; NUL characters give ValueError
    "builtins.compile": ("builtins.SyntaxError", "builtins.ValueError"),
    "os.path.getsize": ("builtins.OSError",), "os.stat": ("builtins.OSError",),  # a path that does not exist
    # number / character conversion of CID or data text
    "builtins.int": ("builtins.ValueError",),  # int("x"), int("07", 0); int(float(...)) see lookup_external
    "builtins.float": ("builtins.ValueError",),  # float("x")
    "builtins.chr": ("builtins.ValueError", "builtins.OverflowError"),  # chr(0x110000), chr(10**30)
    "decimal.Decimal": ("decimal.InvalidOperation",),  # Decimal("x")
    # (?a)(?u)x: "ASCII and UNICODE flags are incompatible" is a ValueError
    "re.compile": ("re.error", "builtins.OverflowError", "builtins.ValueError"),  # RegEx / Pattern rules; a{99999999999}: "the repetition number is too large"
    # the Python tokenizer, consumed eagerly by _tools.generated_tokens: unterminated strings, stray brackets and
    # backslashes give TokenError; inconsistent indentation in multi-line cells gives IndentationError/TabError
    # CPython 3.12: a carriage return directly followed by a non-ASCII character makes the tokenizer decode half a
    # character: UnicodeDecodeError; the 3.12 tokenizer encodes the line as UTF-8, which a lone surrogate ('\ud800', a
    # legal Python str that the API can be given) refuses: UnicodeEncodeError
    # CPython 3.12.1: an indented line followed by a later line holding a NUL character (' 5\n\0') makes the C tokenizer
    # return "a result with an exception set": SystemError (a NUL elsewhere is a TokenError)
    "tokenize.generate_tokens": ("tokenize.TokenError", "builtins.SyntaxError", "builtins.UnicodeDecodeError", "builtins.UnicodeEncodeError",
                                 "builtins.SystemError"),
    # encoding property: unknown name -> LookupError; a name with an embedded NUL or a lone surrogate -> ValueError
    "codecs.lookup": ("builtins.LookupError", "builtins.ValueError"),
    # DateTime cells; a format with the same directive twice (rule DD.DD) makes _strptime compile a regex with a
    # repeated group name: re.error (CPython <= 3.12), not ValueError
    "time.strptime": ("builtins.ValueError", "re.error"),
    "builtins.eval": (ANY,),  # DistinctCount expression
    # files: a missing or unreadable file must stay an OSError (C18: exit code 3)
    # codecs.lookup() also knows codecs that are no text encodings (hex, base64, rot13, zlib ...): opening a text file
    # with one of them is a LookupError ("is not a text encoding") unless set_property refuses them (TEXT_ENCODING_GUARD)
    "io.open": ("builtins.OSError", "builtins.LookupError"),
    "builtins.open": ("builtins.OSError", "builtins.LookupError"),
    "zipfile.ZipFile": ("builtins.OSError", "zipfile.BadZipFile"),
    "xlrd.open_workbook": ("builtins.OSError", "xlrd.XLRDError", ANY),  # truncated xls/xlsx: BadZipFile, struct.error, IndexError ...
    "xlrd.xldate_as_tuple": (ANY,),  # XLDateError family
    "xml.etree.ElementTree.parse": (ANY,),  # ParseError and friends
    "xlsxwriter.Workbook": (),
    "glob.glob": (),
    # command line
    "argparse.ArgumentParser": (),
    # plugins: arbitrary code of the plugin module
    "importlib.machinery.SourceFileLoader": (),
}

# external callees that do not raise for the arguments this repository gives them - one reason each.  A callee that is in
# neither table stops the analysis (ANALYSIS-ERROR): nothing is assumed harmless by default.
NO_RAISE = {
    "builtins.any": "iteration only", "builtins.all": "iteration only", "builtins.dict": "from pairs / keywords",
    "builtins.enumerate": "lazy", "builtins.isinstance": "total", "builtins.len": "total on sized values",
    "builtins.list": "iteration only (a raising iterator is followed through its own call)", "builtins.tuple": "iteration only",
    "builtins.set": "elements are texts / tuples of texts (hashable)", "builtins.frozenset": "as builtins.set", "builtins.sorted": "elements are texts of one kind",
    "builtins.max": "always called with two arguments", "builtins.min": "always called with two arguments",
    "builtins.next": "only next(<token stream>) and next(x, default): token loops stop at the end marker the tokenizer always "
                     "delivers - decided by the token-sequence tables (C01 O1.5, C02 O2.8/O2.9, C09 O9.7, C11 O11.3), where a "
                     "StopIteration is a reported outcome; any other next(x) raises StopIteration (lookup_external)",
    "builtins.ord": "every call is dominated by a len(...) == 1 test or iterates the characters of a text (C01 O1.6, C11 O11.3)",
    "builtins.iter": "of texts, lists and iterators (iterables)", "builtins.range": "integer arguments", "builtins.repr": "total", "builtins.str": "total", "builtins.sum": "of integers",
    "builtins.super": "total", "builtins.type": "total", "builtins.zip": "lazy", "builtins.getattr": "with default or a known name",
    "builtins.hasattr": "total", "decimal.Decimal.scaleb": "of the constant Decimal(1) with a small integer exponent", "builtins.setattr": "the property setters it runs are followed by the analysis itself (escape._setattr_setters)", "builtins.bool": "total", "builtins.print": "diagnostics",
    "builtins.EnvironmentError": "constructor", "builtins.NameError": "constructor", "builtins.NotImplementedError": "constructor",
    "builtins.ValueError": "constructor", "builtins.AssertionError": "constructor", "builtins.OSError": "constructor",
    "builtins.object.__init__": "total", "builtins.Exception.__init__": "total",
    "contextlib.closing": "wrapper", "copy.copy": "shallow copy of a Location / DataFormat",
    "csv.reader": "dialect keywords come from _as_delimited_keywords on a validated data format: single characters, a csv "
                  "quoting constant, booleans (C12 O12.1/O12.2); reading errors are raised while iterating (LAZY_ITERATORS)",
    "csv.writer": "same dialect keywords as csv.reader (C12 O12.1)",
    "datetime.datetime": "arguments are the tuple xlrd.xldate_as_tuple returned (validated by xlrd)",
    "datetime.time": "arguments are the tuple xlrd.xldate_as_tuple returned (validated by xlrd)",
    "fnmatch.translate": "total on texts", "keyword.iskeyword": "total",
    "importlib.util.module_from_spec": "plugin loading: arbitrary plugin code is outside the property (ASSUMPTIONS)",
    "importlib.util.spec_from_loader": "plugin loading", "inspect.getsourcefile": "plugin loading, diagnostics only",
    "io.BytesIO": "argument is the bytes object read from the archive", "io.StringIO": "row buffer / text given by the caller",
    "re.match": "constant pattern", "re.search": "constant pattern", "re.fullmatch": "constant pattern", "glob.escape": "total on texts",
    "itertools.chain": "lazy concatenation", "itertools.islice": "limit is asserted to be >= 0 by validate() / Reader (API contract)",
    "logging.basicConfig": "set-up", "logging.getLogger": "set-up",
    "os.makedirs": "writes: only the --create / plugin helpers, not reading a CID or data",
    "os.path.abspath": "path text", "os.path.basename": "path text", "os.path.join": "path texts", "os.path.splitext": "path text",
    "os.path.dirname": "path text", "os.path.exists": "total", "os.path.isfile": "total", "os.path.isdir": "total", "pathlib.Path": "path text",
    "sys.exc_info": "total", "sys.exit": "SystemExit is the purpose", "traceback.extract_stack": "diagnostics",
    "tokenize.ISEOF": "total", "tokenize.TokenError": "constructor", "xlrd.error_text_from_code.get": "dict look-up with default",
}

# parameter / attribute names whose class is known by convention in this repository (used only when local type
# inference finds no constructor; an unknown name falls back to class-hierarchy analysis by method name)
NAME_HINTS = {
    "data_format": "cutplace.data.DataFormat", "delimited_data_format": "cutplace.data.DataFormat",
    "_data_format": "cutplace.data.DataFormat", "delimited_format": "cutplace.data.DataFormat",
    "cid": "cutplace.interface.Cid", "_cid": "cutplace.interface.Cid", "fixed_cid": "cutplace.interface.Cid",
    "cid_reader": "cutplace.interface.Cid", "cid_or_path": "cutplace.interface.Cid", "new_cid": "cutplace.interface.Cid",
    "location": "cutplace.errors.Location", "_location": "cutplace.errors.Location", "new_location": "cutplace.errors.Location",
    "error_location": "cutplace.errors.Location", "see_also_location": "cutplace.errors.Location",
    "location_of_definition": "cutplace.errors.Location",
    "field_format": "cutplace.fields.AbstractFieldFormat", "field_to_validate": "cutplace.fields.AbstractFieldFormat",
    "field": "cutplace.fields.AbstractFieldFormat",
    "check": "cutplace.checks.AbstractCheck", "check_to_add": "cutplace.checks.AbstractCheck",
    "length_range": "cutplace.ranges.Range", "valid_character_range": "cutplace.ranges.Range", "length": "cutplace.ranges.Range",
    "valid_range": "cutplace.ranges.Range", "allowed_characters": "cutplace.ranges.Range",
    "reader": "cutplace.validio.Reader", "cutplace_app": "cutplace.applications.CutplaceApp",
    "error": "cutplace.errors.CutplaceError",
}
ELEMENT_HINTS = {
    "field_formats": "cutplace.fields.AbstractFieldFormat", "_field_formats": "cutplace.fields.AbstractFieldFormat",
    "check_map": "cutplace.checks.AbstractCheck", "_check_name_to_check_map": "cutplace.checks.AbstractCheck",
}

# method names on receivers that do not resolve to a repository class; keys "receiver.method" take precedence
METHODS = {
    "decode": ("builtins.UnicodeDecodeError",),  # bytes.decode("unicode_escape") of a quoted limit such as "\x"
    "index": ("builtins.ValueError",),  # list.index
    "quantize": ("decimal.InvalidOperation",),  # Decimal.quantize: a result of more than 28 digits (context precision)
    "parser.parse_args": ("builtins.SystemExit",), "parser.parse_intermixed_args": ("builtins.SystemExit",),
    "parser.error": ("builtins.SystemExit",),  # ArgumentParser.error
    "loader.exec_module": (ANY,),  # plugin code
    "sheet_by_index": (ANY,),  # xlrd: IndexError for a missing sheet
    "cell": (ANY,),  # xlrd
    # csv.Error of a writer needs QUOTE_NONE or doublequote off without escapechar: _as_delimited_keywords never builds that
    # text written to a file is encoded: most codecs raise UnicodeEncodeError, some (idna, punycode) a plain UnicodeError
    "writerow": ("builtins.UnicodeError",),
    "write": ("builtins.UnicodeError",),
    "write_string": (),
}

# .read(...) depends on the receiver: a text stream decodes (UnicodeDecodeError), a zip archive member may be corrupt
READ_RECEIVERS = {
    # a decoder can also raise the base class: "UTF-16 stream does not start with BOM" is a plain UnicodeError
    "fixed_file": ("builtins.UnicodeError",),
    "zip_archive": (ANY,),
}

# iterators that raise while being iterated, not when they are created
LAZY_ITERATORS = {
    "cutplace._compat.csv_reader": ("csv.Error", "builtins.UnicodeError"),
    "csv.reader": ("csv.Error", "builtins.UnicodeError"),
}

# methods resolved by class-hierarchy analysis on their (distinctive) name when the receiver type is unknown
CHA_METHOD_NAMES = {
    "validated", "validated_value", "validate_characters", "validate_empty", "validate_length",
    "check_row", "check_at_end", "reset", "cleanup", "validate_row", "validate_rows", "prepend_message",
    "advance_line", "advance_cell", "set_cell", "advance_column", "advance_sheet", "sql_ansi_type", "sql_type",
    "is_keyword", "add_field_format", "add_check", "add_data_format_row", "add_field_format_row", "add_check_row",
    "set_cid_from_path", "set_options", "create_table_statement", "sql_fields", "set_property",
}

# explicit ``x.__init__(...)`` after ``cls.__new__`` in interface.py: constructors of all subclasses
REFLECTIVE_CONSTRUCTORS = {
    ("cutplace.interface.Cid.add_field_format_row", "field_format"): "cutplace.fields.AbstractFieldFormat",
    ("cutplace.interface.Cid.add_check_row", "check"): "cutplace.checks.AbstractCheck",
}


TOKEN_STREAM_SOURCES = ("generated_tokens", "tokenize_without_space", "generate_tokens")


def _is_token_stream(call, func):
    """next(name) where ``name`` is assigned, in the same function, only from one of the tokenizer functions."""
    if func is None or len(call.args) != 1 or not isinstance(call.args[0], ast.Name):
        return False
    name = call.args[0].id
    sources = []
    for node in ast.walk(func.node):
        if isinstance(node, ast.Assign) and any(isinstance(target, ast.Name) and target.id == name for target in node.targets):
            sources.append(node.value)
        elif isinstance(node, (ast.For, ast.comprehension)) and any(isinstance(t, ast.Name) and t.id == name for t in ast.walk(node.target)):
            return False
    if not sources:
        return False
    for value in sources:
        callee = dotted(value.func) if isinstance(value, ast.Call) else None
        if callee is None or callee.split(".")[-1] not in TOKEN_STREAM_SOURCES:
            return False
    return True


def _is_float_result(argument, func):
    """``float(...)`` itself, or a local name that is bound to the result of float(...) somewhere in the function."""
    def made_by_float(node):
        return isinstance(node, ast.Call) and isinstance(node.func, ast.Name) and node.func.id == "float"

    if made_by_float(argument):
        return True
    if isinstance(argument, ast.Name) and func is not None:
        for node in ast.walk(func.node):
            if isinstance(node, ast.Assign) and made_by_float(node.value) and any(isinstance(t, ast.Name) and t.id == argument.id for t in node.targets):
                return True
    return False


def lookup_external(name, call, func=None):
    if name == "builtins.next":
        # with a default nothing is raised; on a token stream the end marker comes first (token-sequence tables); anything
        # else runs off the end of its iterator - inside a generator that surfaces as RuntimeError
        if len(call.args) >= 2 or _is_token_stream(call, func):
            return ()
        return ("builtins.StopIteration",)
    classes = EXTERNAL.get(name)
    if classes is None:
        return ()
    # a call whose arguments are all literals cannot fail on input
    if call.args and all(isinstance(argument, ast.Constant) for argument in call.args) and not call.keywords:
        return ()
    if name == "builtins.int" and not call.args:
        return ()
    if name == "builtins.int" and _is_float_result(call.args[0], func):
        return classes + ("builtins.OverflowError",)  # int(float("inf")); int(float("nan")) is a ValueError
    if name in ("io.open", "builtins.open"):
        encoding = next((keyword.value for keyword in call.keywords if keyword.arg == "encoding"), None)
        if encoding is None or isinstance(encoding, ast.Constant):
            classes = tuple(cls for cls in classes if cls != "builtins.LookupError")  # a literal encoding is a text encoding
    return classes


def lookup_method(name, call, func):
    if name == "read":
        receiver = dotted(call.func.value) if isinstance(call.func, ast.Attribute) else None
        return READ_RECEIVERS.get(receiver, ())
    receiver = dotted(call.func.value) if isinstance(call.func, ast.Attribute) else None
    if receiver is not None and "%s.%s" % (receiver, name) in METHODS:
        return METHODS["%s.%s" % (receiver, name)]
    if name == "writerow" and _writes_to_memory_buffer(call, func):
        return ()  # a csv writer attached to an io.StringIO cannot hit an encoding error
    classes = METHODS.get(name, ())
    if name == "index" and isinstance(call.func, ast.Attribute) and isinstance(call.func.value, ast.Constant):
        return ()
    return classes


_CONSTANT_MAPPINGS = {}


def is_constant_mapping(model, module, name):
    """Does ``name`` (possibly ``module.NAME``) denote a module-level dict constant of the repository?"""
    key = (module.name, name)
    if key in _CONSTANT_MAPPINGS:
        return _CONSTANT_MAPPINGS[key]
    result = False
    parts = name.split(".")
    target_module = module
    constant = parts[-1]
    if len(parts) == 2 and parts[0] in module.imports:
        target_module = model.modules.get(module.imports[parts[0]])
    elif len(parts) == 1 and parts[0] in module.imports:
        imported = module.imports[parts[0]]
        module_name, _, constant = imported.rpartition(".")
        target_module = model.modules.get(module_name)
    elif len(parts) != 1:
        target_module = None
    if target_module is not None and constant in target_module.assigns:
        value = target_module.assigns[constant][-1]
        result = isinstance(value, ast.Dict) or (
            isinstance(value, ast.Call) and isinstance(value.func, ast.Name) and value.func.id == "dict")
    _CONSTANT_MAPPINGS[key] = result
    return result


def decimal_from_text_names(func):
    """Local names that hold a decimal.Decimal converted from a non-literal (i.e. from cell text), plus aliases."""
    names = set()
    for node in walk_own(func.node):
        if isinstance(node, ast.Assign) and isinstance(node.value, ast.Call) and dotted(node.value.func) == "decimal.Decimal":
            if node.value.args and not isinstance(node.value.args[0], ast.Constant):
                for target in node.targets:
                    if isinstance(target, ast.Name):
                        names.add(target.id)
    if names:
        # the "already a Decimal" alias: ``value_as_decimal = value``
        for node in walk_own(func.node):
            if isinstance(node, ast.Assign) and isinstance(node.value, ast.Name):
                for target in node.targets:
                    if isinstance(target, ast.Name) and target.id in names:
                        pass
    return names


def finiteness_guarded(func, name, lineno):
    """
    A guard ``if <name>.is_nan() / not <name>.is_finite(): raise ...`` DOMINATES the comparison when it is a statement
    of a block that encloses the comparison (or of the function body) and stands before the statement leading to it.
    """
    parents = {}
    for parent in ast.walk(func.node):
        for child in ast.iter_child_nodes(parent):
            parents[id(child)] = parent
    target = None
    for node in walk_own(func.node):
        if isinstance(node, ast.Compare) and node.lineno == lineno:
            target = node
            break
    if target is None:
        return False
    current = target
    while current is not None and current is not func.node:
        parent = parents.get(id(current))
        if parent is None:
            break
        for field in ("body", "orelse", "finalbody"):
            block = getattr(parent, field, None)
            if isinstance(block, list) and current in block:
                for statement in block[: block.index(current)]:
                    if isinstance(statement, ast.If):
                        test = ast.unparse(statement.test)
                        if ("%s.is_finite()" % name in test or "%s.is_nan()" % name in test) and statement.body \
                                and isinstance(statement.body[-1], ast.Raise) and not statement.orelse:
                            return True
        current = parent
    return False


def _writes_to_memory_buffer(call, func):
    """``self.<writer>.writerow(..)`` where <writer> was built on ``self.<buffer>`` and <buffer> is an ``io.StringIO(...)``."""
    receiver = call.func.value if isinstance(call.func, ast.Attribute) else None
    if not (isinstance(receiver, ast.Attribute) and isinstance(receiver.value, ast.Name) and receiver.value.id == "self"):
        return False
    owner = func
    while owner is not None and owner.cls is None:
        owner = owner.parent
    if owner is None:
        return False
    assignments = {}
    for method in owner.cls.methods.values():
        for node in walk_own(method.node):
            if isinstance(node, ast.Assign) and isinstance(node.value, ast.Call):
                for target in node.targets:
                    if isinstance(target, ast.Attribute) and isinstance(target.value, ast.Name) and target.value.id == "self":
                        assignments.setdefault(target.attr, []).append(node.value)
    builders = assignments.get(receiver.attr, [])
    if len(builders) != 1 or not builders[0].args:
        return False
    stream = builders[0].args[0]
    if not (isinstance(stream, ast.Attribute) and isinstance(stream.value, ast.Name) and stream.value.id == "self"):
        return False
    sources = assignments.get(stream.attr, [])
    if len(sources) != 1:
        return False
    if dotted(sources[0].func) in ("io.StringIO", "StringIO"):
        return True
    # a sink of the module's own: a class whose write() only stores what it is given (no call at all in its body)
    sink_name = dotted(sources[0].func)
    sink = func.module.classes.get(sink_name) if sink_name else None
    if sink is not None and "write" in sink.methods:
        return not any(isinstance(node, ast.Call) for node in walk_own(sink.methods["write"].node))
    return False
