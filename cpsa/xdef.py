"""
X-DEF - definite assignment: a read of a local name on a path where it may be unassigned is an UnboundLocalError.

Structured forward analysis over the syntax tree.  To avoid the classic false report of path-insensitive dataflow,
``if`` statements whose test is a plain local boolean (``if has_rule:`` / ``if not has_rule:``) that is assigned exactly
once are *correlated*: the analysis is repeated for every valuation of these guard variables and such an ``if`` takes the
branch the valuation says.  Everything else joins by intersection; loops may run zero times; a handler starts from the
state at the entry of its ``try``.
"""
import ast
import itertools

from .model import walk_own

UNREACHABLE = None


def _local_names(func_node):
    arguments = func_node.args
    params = {a.arg for a in arguments.posonlyargs + arguments.args + arguments.kwonlyargs}
    if arguments.vararg:
        params.add(arguments.vararg.arg)
    if arguments.kwarg:
        params.add(arguments.kwarg.arg)
    assigned = set()
    declared_elsewhere = set()
    for node in walk_own(func_node):
        if isinstance(node, ast.Name) and isinstance(node.ctx, (ast.Store, ast.Del)):
            assigned.add(node.id)
        elif isinstance(node, ast.ExceptHandler) and node.name:
            assigned.add(node.name)
        elif isinstance(node, (ast.Global, ast.Nonlocal)):
            declared_elsewhere.update(node.names)
        elif isinstance(node, (ast.Import, ast.ImportFrom)):
            for alias in node.names:
                assigned.add((alias.asname or alias.name).split(".")[0])
    for node in ast.iter_child_nodes(func_node):
        pass
    for statement in ast.walk(func_node):
        if isinstance(statement, (ast.FunctionDef, ast.ClassDef)) and statement is not func_node:
            assigned.add(statement.name)
    return params, (assigned - declared_elsewhere) | params


def _guard_variables(func_node):
    """Local names assigned exactly once (at function level) and used as a bare ``if`` test."""
    counts = {}
    for node in walk_own(func_node):
        if isinstance(node, ast.Name) and isinstance(node.ctx, ast.Store):
            counts[node.id] = counts.get(node.id, 0) + 1
    guards = set()
    for node in walk_own(func_node):
        if isinstance(node, ast.If):
            test = node.test
            if isinstance(test, ast.UnaryOp) and isinstance(test.op, ast.Not):
                test = test.operand
            if isinstance(test, ast.Name) and counts.get(test.id, 0) == 1:
                guards.add(test.id)
    return sorted(guards)


class _Analysis:
    def __init__(self, func_node, valuation, locals_):
        self.func_node = func_node
        self.valuation = valuation
        self.locals = locals_
        self.reports = []  # (name, lineno)
        self.known_true = []  # texts of enclosing ``if`` tests whose operands are not assigned inside that branch

    # expression reads ------------------------------------------------------------------------------------------
    def reads(self, node, state):
        if node is None or state is UNREACHABLE:
            return
        stack = [node]
        while stack:
            current = stack.pop()
            if isinstance(current, (ast.Lambda, ast.FunctionDef, ast.ClassDef)):
                continue
            if isinstance(current, (ast.ListComp, ast.SetComp, ast.GeneratorExp, ast.DictComp)):
                # the first iterable is evaluated in the enclosing scope; targets are local to the comprehension
                bound = set()
                for comp in current.generators:
                    for name in ast.walk(comp.target):
                        if isinstance(name, ast.Name):
                            bound.add(name.id)
                for inner in ast.walk(current):
                    if isinstance(inner, ast.Name) and isinstance(inner.ctx, ast.Load) and inner.id not in bound:
                        self.check(inner, state)
                continue
            if isinstance(current, ast.Name) and isinstance(current.ctx, ast.Load):
                self.check(current, state)
            stack.extend(ast.iter_child_nodes(current))

    def check(self, name_node, state):
        if name_node.id in self.locals and name_node.id not in state:
            self.reports.append((name_node.id, name_node.lineno))

    # statements --------------------------------------------------------------------------------------------------
    def block(self, statements, state):
        for statement in statements:
            if state is UNREACHABLE:
                return UNREACHABLE
            state = self.statement(statement, state)
        return state

    @staticmethod
    def join(a, b):
        if a is UNREACHABLE:
            return b
        if b is UNREACHABLE:
            return a
        return a & b

    def targets(self, target, state):
        names = set()
        for node in ast.walk(target):
            if isinstance(node, ast.Name) and isinstance(node.ctx, ast.Store):
                names.add(node.id)
            elif isinstance(node, ast.Name) and isinstance(node.ctx, ast.Load):
                self.check(node, state)
        return names

    def statement(self, node, state):
        if isinstance(node, (ast.FunctionDef, ast.ClassDef)):
            return state | {node.name}
        if isinstance(node, ast.Assign):
            self.reads(node.value, state)
            new = set()
            for target in node.targets:
                new |= self.targets(target, state)
            return state | new
        if isinstance(node, ast.AnnAssign):
            self.reads(node.value, state)
            return state | (self.targets(node.target, state) if node.value is not None else set())
        if isinstance(node, ast.AugAssign):
            self.reads(node.value, state)
            if isinstance(node.target, ast.Name):
                if node.target.id in self.locals and node.target.id not in state:
                    self.reports.append((node.target.id, node.lineno))
                return state | {node.target.id}
            self.reads(node.target, state)
            return state
        if isinstance(node, ast.If):
            self.reads(node.test, state)
            test = node.test
            negated = False
            if isinstance(test, ast.UnaryOp) and isinstance(test.op, ast.Not):
                test, negated = test.operand, True
            if isinstance(test, ast.Name) and test.id in self.valuation:
                value = self.valuation[test.id] != negated
                return self.block(node.body if value else node.orelse, state)
            text = ast.unparse(node.test)
            if text in self.known_true:
                return self.block(node.body, state)  # the same test already holds in the enclosing branch
            operands = {n.id for n in ast.walk(node.test) if isinstance(n, ast.Name)}
            reassigned = any(isinstance(n, ast.Name) and isinstance(n.ctx, ast.Store) and n.id in operands
                             for inner in node.body for n in ast.walk(inner))
            pure = not any(isinstance(n, ast.Call) for n in ast.walk(node.test))
            if pure and not reassigned:
                self.known_true.append(text)
                try:
                    body_state = self.block(node.body, set(state))
                finally:
                    self.known_true.pop()
            else:
                body_state = self.block(node.body, set(state))
            return self.join(body_state, self.block(node.orelse, set(state)))
        if isinstance(node, (ast.For, ast.AsyncFor)):
            self.reads(node.iter, state)
            body_state = set(state) | self.targets(node.target, state)
            self.block(node.body, body_state)
            return self.block(node.orelse, set(state)) if node.orelse else state
        if isinstance(node, ast.While):
            self.reads(node.test, state)
            after_body = self.block(node.body, set(state))
            if isinstance(node.test, ast.Constant) and node.test.value is True:
                return self.join(UNREACHABLE, state if any(isinstance(n, ast.Break) for n in ast.walk(node)) else UNREACHABLE)
            if node.orelse:
                return self.block(node.orelse, set(state))
            # a loop that is entered at least once is not assumed
            return state
        if isinstance(node, ast.Try):
            body_state = self.block(node.body, set(state))
            else_state = self.block(node.orelse, set(body_state)) if body_state is not UNREACHABLE else UNREACHABLE
            result = else_state
            for handler in node.handlers:
                handler_state = set(state)
                if handler.name:
                    handler_state.add(handler.name)
                self.reads(handler.type, state)
                result = self.join(result, self.block(handler.body, handler_state))
            if node.finalbody:
                final_entry = set(state) if result is UNREACHABLE else result
                final_state = self.block(node.finalbody, set(final_entry) & set(state) | (set(state)))
                if result is UNREACHABLE:
                    return UNREACHABLE
                return result | (final_state - set(state) if final_state is not UNREACHABLE else set())
            return result
        if isinstance(node, (ast.With, ast.AsyncWith)):
            new = set()
            for item in node.items:
                self.reads(item.context_expr, state)
                if item.optional_vars is not None:
                    new |= self.targets(item.optional_vars, state)
            return self.block(node.body, state | new)
        if isinstance(node, ast.Return):
            self.reads(node.value, state)
            return UNREACHABLE
        if isinstance(node, ast.Raise):
            self.reads(node.exc, state)
            self.reads(node.cause, state)
            return UNREACHABLE
        if isinstance(node, (ast.Break, ast.Continue)):
            return UNREACHABLE
        if isinstance(node, ast.Assert):
            self.reads(node.test, state)
            self.reads(node.msg, state)
            if isinstance(node.test, ast.Constant) and node.test.value is False:
                return UNREACHABLE
            return state
        if isinstance(node, ast.Delete):
            return state
        if isinstance(node, (ast.Import, ast.ImportFrom)):
            return state | {(alias.asname or alias.name).split(".")[0] for alias in node.names}
        if isinstance(node, ast.Expr):
            self.reads(node.value, state)
            return state
        for child in ast.iter_child_nodes(node):
            if isinstance(child, ast.expr):
                self.reads(child, state)
        return state


def possibly_unbound(func_node):
    """List of (name, lineno) of reads that may hit an unassigned local, under some valuation of the guard booleans."""
    params, locals_ = _local_names(func_node)
    guards = _guard_variables(func_node)[:6]
    reports = {}
    for values in itertools.product([False, True], repeat=len(guards)):
        valuation = dict(zip(guards, values))
        analysis = _Analysis(func_node, valuation, locals_)
        analysis.block(func_node.body, set(params))
        for name, lineno in analysis.reports:
            reports.setdefault((name, lineno), dict(valuation))
    return [(name, lineno, valuation) for (name, lineno), valuation in sorted(reports.items())]
