"""
M1 - program model of the cutplace sources.

Parses every module below ``<repo>/cutplace`` plus ``examples/plugins.py`` with the
interpreter's own ``ast`` and indexes functions (nested ones included), classes (with
resolved bases / MRO), properties and imports.  Nothing is imported or executed.
"""
import ast
import hashlib
import os


class AnalysisError(Exception):
    """The analysis itself cannot proceed (anchor vanished, construct outside the subset ...)."""


class FuncInfo:
    def __init__(self, qualname, node, module, cls=None, parent=None):
        self.qualname = qualname
        self.node = node
        self.module = module  # ModuleInfo
        self.cls = cls  # ClassInfo or None (only for direct methods)
        self.parent = parent  # enclosing FuncInfo for nested functions
        self.is_generator = _contains_yield(node)
        self.decorators = [_dotted(d) for d in node.decorator_list]

    @property
    def name(self):
        return self.node.name

    @property
    def is_static(self):
        return "staticmethod" in self.decorators

    @property
    def is_classmethod(self):
        return "classmethod" in self.decorators

    def __repr__(self):
        return "<func %s>" % self.qualname

    def loc(self, node=None):
        node = node if node is not None else self.node
        return "%s:%d" % (self.module.relpath, getattr(node, "lineno", 0))


class ClassInfo:
    def __init__(self, qualname, node, module):
        self.qualname = qualname
        self.node = node
        self.module = module
        self.base_exprs = list(node.bases)
        self.bases = []  # resolved: ClassInfo or str (external dotted name)
        self.methods = {}  # name -> FuncInfo
        self.properties = {}  # name -> (getter FuncInfo | None, setter FuncInfo | None)
        self.class_assigns = {}  # name -> ast expr (last assignment in class body)

    @property
    def name(self):
        return self.node.name

    def __repr__(self):
        return "<class %s>" % self.qualname


class ModuleInfo:
    def __init__(self, name, path, relpath, source):
        self.name = name
        self.path = path
        self.relpath = relpath
        self.source = source
        self.tree = ast.parse(source, filename=path)
        self.imports = {}  # local name -> dotted target ("cutplace.errors", "tokenize", "cutplace._tools.generated_tokens")
        self.functions = {}  # top-level name -> FuncInfo
        self.classes = {}  # top-level name -> ClassInfo
        self.assigns = {}  # top-level name -> list of ast value exprs in order
        self.digest = hashlib.sha256(source.encode("utf-8")).hexdigest()


def _contains_yield(func_node):
    for node in _walk_own(func_node):
        if isinstance(node, (ast.Yield, ast.YieldFrom)):
            return True
    return False


def _walk_own(func_node):
    """Walk the body of a function without descending into nested defs / lambdas / classes."""
    stack = [node for node in func_node.body if not isinstance(node, (ast.FunctionDef, ast.AsyncFunctionDef, ast.ClassDef))]
    while stack:
        node = stack.pop()
        yield node
        for child in ast.iter_child_nodes(node):
            if isinstance(child, (ast.FunctionDef, ast.AsyncFunctionDef, ast.Lambda, ast.ClassDef)):
                continue
            stack.append(child)


def walk_own(func_node):
    return _walk_own(func_node)


def _dotted(node):
    if isinstance(node, ast.Name):
        return node.id
    if isinstance(node, ast.Attribute):
        inner = _dotted(node.value)
        return (inner + "." + node.attr) if inner is not None else None
    if isinstance(node, ast.Call):
        return _dotted(node.func)
    return None


def dotted(node):
    return _dotted(node)


class Model:
    PACKAGE = "cutplace"

    def __init__(self, repo_root):
        self.repo_root = os.path.abspath(repo_root)
        self.modules = {}
        self.functions = {}  # qualname -> FuncInfo
        self.classes = {}  # qualname -> ClassInfo
        self.parents = {}  # id(node) -> parent node (per module trees)
        self._load()

    # ---------------------------------------------------------------- loading
    def _load(self):
        package_dir = os.path.join(self.repo_root, self.PACKAGE)
        if not os.path.isdir(package_dir):
            raise AnalysisError("package folder not found: %s" % package_dir)
        for file_name in sorted(os.listdir(package_dir)):
            if file_name.endswith(".py"):
                module_name = self.PACKAGE + "." + file_name[:-3]
                if file_name == "__init__.py":
                    module_name = self.PACKAGE
                self._load_module(module_name, os.path.join(package_dir, file_name))
        plugin_path = os.path.join(self.repo_root, "examples", "plugins.py")
        if os.path.exists(plugin_path):
            self._load_module("examples.plugins", plugin_path)
        for module in self.modules.values():
            self._index_module(module)
        for cls in self.classes.values():
            self._resolve_bases(cls)

    def _load_module(self, module_name, path):
        with open(path, "r", encoding="utf-8") as source_file:
            source = source_file.read()
        relpath = os.path.relpath(path, self.repo_root)
        try:
            module = ModuleInfo(module_name, path, relpath, source)
        except SyntaxError as error:
            raise AnalysisError("cannot parse %s: %s" % (relpath, error))
        self.modules[module_name] = module
        for parent in ast.walk(module.tree):
            for child in ast.iter_child_nodes(parent):
                self.parents[id(child)] = parent

    def _index_module(self, module):
        for stmt in module.tree.body:
            if isinstance(stmt, ast.Import):
                for alias in stmt.names:
                    local = alias.asname or alias.name.split(".")[0]
                    target = alias.name if alias.asname else alias.name.split(".")[0]
                    module.imports[local] = target
            elif isinstance(stmt, ast.ImportFrom):
                base = stmt.module or ""
                for alias in stmt.names:
                    module.imports[alias.asname or alias.name] = (base + "." + alias.name) if base else alias.name
            elif isinstance(stmt, ast.FunctionDef):
                self._index_function(stmt, module, module.name, None, None)
            elif isinstance(stmt, ast.ClassDef):
                self._index_class(stmt, module)
            elif isinstance(stmt, ast.Assign):
                for target in stmt.targets:
                    if isinstance(target, ast.Name):
                        module.assigns.setdefault(target.id, []).append(stmt.value)
            elif isinstance(stmt, ast.AnnAssign) and isinstance(stmt.target, ast.Name) and stmt.value is not None:
                module.assigns.setdefault(stmt.target.id, []).append(stmt.value)

    def _index_function(self, node, module, prefix, cls, parent):
        qualname = prefix + "." + node.name
        info = FuncInfo(qualname, node, module, cls, parent)
        # A setter shares its name with the getter: keep both under distinct keys.
        key = qualname
        if any(d and d.endswith(".setter") for d in info.decorators):
            key = qualname + "@setter"
            info.qualname = key
        self.functions[key] = info
        if cls is None and parent is None:
            module.functions[node.name] = info
        for inner in _walk_own(node):
            pass
        for child in ast.walk(node):
            if child is node:
                continue
        self._index_nested(node, module, key if key == qualname else qualname, info)
        return info

    def _index_nested(self, func_node, module, prefix, parent_info):
        # direct nested defs only (walk statements, not into other defs)
        stack = list(func_node.body)
        while stack:
            stmt = stack.pop()
            if isinstance(stmt, ast.FunctionDef):
                self._index_function(stmt, module, prefix, None, parent_info)
                continue
            if isinstance(stmt, (ast.ClassDef, ast.Lambda)):
                continue
            for child in ast.iter_child_nodes(stmt):
                if isinstance(child, ast.stmt) or isinstance(child, ast.ExceptHandler):
                    stack.append(child)

    def _index_class(self, node, module):
        qualname = module.name + "." + node.name
        cls = ClassInfo(qualname, node, module)
        self.classes[qualname] = cls
        module.classes[node.name] = cls
        for stmt in node.body:
            if isinstance(stmt, ast.FunctionDef):
                info = self._index_function(stmt, module, qualname, cls, None)
                decorators = info.decorators
                if "property" in decorators:
                    getter, setter = cls.properties.get(stmt.name, (None, None))
                    cls.properties[stmt.name] = (info, setter)
                elif any(d and d.endswith(".setter") for d in decorators):
                    getter, setter = cls.properties.get(stmt.name, (None, None))
                    cls.properties[stmt.name] = (getter, info)
                else:
                    cls.methods[stmt.name] = info
            elif isinstance(stmt, ast.Assign):
                for target in stmt.targets:
                    if isinstance(target, ast.Name):
                        cls.class_assigns[target.id] = stmt.value
                        value = stmt.value
                        if isinstance(value, ast.Call) and _dotted(value.func) == "property":
                            getter = setter = None
                            if len(value.args) >= 1 and isinstance(value.args[0], ast.Name):
                                getter = cls.methods.get(value.args[0].id)
                            if len(value.args) >= 2 and isinstance(value.args[1], ast.Name):
                                setter = cls.methods.get(value.args[1].id)
                            cls.properties[target.id] = (getter, setter)

    def _resolve_bases(self, cls):
        for base_expr in cls.base_exprs:
            name = _dotted(base_expr)
            resolved = self.resolve_dotted(cls.module, name) if name else None
            if isinstance(resolved, ClassInfo):
                cls.bases.append(resolved)
            else:
                cls.bases.append(self.external_name(cls.module, name) or "builtins.object")

    # ---------------------------------------------------------------- resolution
    def external_name(self, module, dotted_name):
        """Fully qualified name of a dotted reference that leaves the repository."""
        if dotted_name is None:
            return None
        head, _, rest = dotted_name.partition(".")
        if head in module.imports:
            target = module.imports[head]
            return target + ("." + rest if rest else "")
        return "builtins." + dotted_name

    def resolve_dotted(self, module, dotted_name):
        """ModuleInfo, ClassInfo, FuncInfo or None for a dotted name as seen from ``module``'s top level."""
        if dotted_name is None:
            return None
        parts = dotted_name.split(".")
        head = parts[0]
        current = None
        if head in module.classes:
            current = module.classes[head]
        elif head in module.functions:
            current = module.functions[head]
        elif head in module.imports:
            current = self._resolve_import(module.imports[head])
        else:
            return None
        for part in parts[1:]:
            current = self.member(current, part)
            if current is None:
                return None
        return current

    def _resolve_import(self, target):
        if target in self.modules:
            return self.modules[target]
        module_name, _, attr = target.rpartition(".")
        if module_name in self.modules:
            return self.member(self.modules[module_name], attr)
        return None

    def member(self, container, name):
        if isinstance(container, ModuleInfo):
            if name in container.classes:
                return container.classes[name]
            if name in container.functions:
                return container.functions[name]
            if name in container.imports:
                return self._resolve_import(container.imports[name])
            return None
        if isinstance(container, ClassInfo):
            return self.lookup_method(container, name)
        return None

    def mro(self, cls):
        """C3 is overkill here: single inheritance chains only; externals end the chain."""
        result = []
        current = cls
        while isinstance(current, ClassInfo):
            result.append(current)
            next_cls = None
            for base in current.bases:
                if isinstance(base, ClassInfo):
                    next_cls = base
                    break
            current = next_cls
        return result

    def external_bases(self, cls):
        result = []
        for klass in self.mro(cls):
            for base in klass.bases:
                if not isinstance(base, ClassInfo):
                    result.append(base)
        return result

    def lookup_method(self, cls, name):
        for klass in self.mro(cls):
            if name in klass.methods:
                return klass.methods[name]
        return None

    def lookup_property(self, cls, name):
        for klass in self.mro(cls):
            if name in klass.properties:
                return klass.properties[name]
            if name in klass.methods or name in klass.class_assigns:
                return None
        return None

    def lookup_class_assign(self, cls, name):
        for klass in self.mro(cls):
            if name in klass.class_assigns:
                return klass, klass.class_assigns[name]
        return None

    def is_subclass(self, cls, ancestor):
        return ancestor in self.mro(cls)

    def subclasses(self, cls, direct=False):
        result = []
        for other in self.classes.values():
            if other is cls:
                continue
            if direct:
                if cls in other.bases:
                    result.append(other)
            elif cls in self.mro(other):
                result.append(other)
        return sorted(result, key=lambda c: c.qualname)

    # ---------------------------------------------------------------- anchors
    def func(self, qualname):
        info = self.functions.get(qualname)
        if info is None:
            raise AnalysisError("anchor vanished: function %s" % qualname)
        return info

    def cls(self, qualname):
        info = self.classes.get(qualname)
        if info is None:
            raise AnalysisError("anchor vanished: class %s" % qualname)
        return info

    def module(self, name):
        info = self.modules.get(name)
        if info is None:
            raise AnalysisError("anchor vanished: module %s" % name)
        return info

    def parent(self, node):
        return self.parents.get(id(node))

    def enclosing_function(self, node):
        current = self.parent(node)
        while current is not None and not isinstance(current, (ast.FunctionDef, ast.AsyncFunctionDef)):
            current = self.parent(current)
        return current

    def stats(self):
        return {
            "modules": len(self.modules),
            "classes": len(self.classes),
            "functions": len(self.functions),
            "asserts": sum(
                1 for m in self.modules.values() for n in ast.walk(m.tree) if isinstance(n, ast.Assert)
            ),
            "raises": sum(1 for m in self.modules.values() for n in ast.walk(m.tree) if isinstance(n, ast.Raise)),
            "handlers": sum(
                1 for m in self.modules.values() for n in ast.walk(m.tree) if isinstance(n, ast.ExceptHandler)
            ),
        }

    def digest(self):
        h = hashlib.sha256()
        for name in sorted(self.modules):
            h.update(name.encode())
            h.update(self.modules[name].digest.encode())
        return h.hexdigest()[:16]


def norm(node):
    """Normalised source text of a node (stable against reformatting)."""
    return ast.unparse(node)
