"""
M3 + M6 - call resolution and exception-escape analysis.

For every function of the model the set of exception classes that can leave it is computed by a fixpoint over
the resolved call graph.  Sources: ``raise`` statements, a frozen table of external raisers
(cpsa/tables/raisers.py), input-relevant asserts (cpsa/tables/asserts.py).  ``try/except`` removes what its
handlers catch (class lattice: repository classes from the syntax trees, standard-library classes by
``issubclass`` on the standard library's own classes).  Every escaping class carries a witness chain.
"""
import ast

from .model import AnalysisError, ClassInfo, FuncInfo, ModuleInfo, dotted, walk_own
from .tables import raisers as raiser_table

ANY = "Exception*"  # an unknown subclass of Exception


class Item:
    """One escaping exception: class name, origin site and the call chain that leads to it."""

    __slots__ = ("cls", "origin", "chain")

    def __init__(self, cls, origin, chain=()):
        self.cls = cls
        self.origin = origin  # (qualname, lineno, text)
        self.chain = tuple(chain)  # ((caller qualname, lineno), ...)

    def key(self):
        return (self.cls, self.origin)

    def via(self, caller, lineno):
        if len(self.chain) >= 12:
            return self
        return Item(self.cls, self.origin, ((caller, lineno),) + self.chain)

    def __repr__(self):
        return "%s@%s:%s" % (self.cls, self.origin[0], self.origin[1])


def _stdlib_class(name):
    import builtins
    import csv
    import decimal
    import re
    import struct
    import tokenize
    import zipfile
    from xml.etree import ElementTree

    table = {
        "decimal.DecimalException": decimal.DecimalException,
        "decimal.InvalidOperation": decimal.InvalidOperation,
        "tokenize.TokenError": tokenize.TokenError,
        "csv.Error": csv.Error,
        "re.error": re.error,
        "zipfile.BadZipFile": zipfile.BadZipFile,
        "struct.error": struct.error,
        "xml.etree.ElementTree.ParseError": ElementTree.ParseError,
    }
    if name in table:
        return table[name]
    if name.startswith("builtins."):
        candidate = getattr(builtins, name[len("builtins."):], None)
        if isinstance(candidate, type) and issubclass(candidate, BaseException):
            return candidate
    return None


class Lattice:
    def __init__(self, model):
        self.model = model

    def bases_of(self, name):
        """External class names a repository class descends from (or the name itself for externals)."""
        cls = self.model.classes.get(name)
        if cls is not None:
            return self.model.external_bases(cls)
        return [name]

    def is_subclass(self, name, ancestor):
        if name == ancestor:
            return True
        if ancestor in ("builtins.BaseException",):
            return True
        cls = self.model.classes.get(name)
        anc = self.model.classes.get(ancestor)
        if cls is not None and anc is not None:
            return self.model.is_subclass(cls, anc)
        if anc is not None:
            return False  # an external class never derives from a repository class
        if name == ANY:
            return ancestor in ("builtins.Exception", "builtins.BaseException")
        for base in self.bases_of(name):
            a, b = _stdlib_class(base), _stdlib_class(ancestor)
            if base == ancestor:
                return True
            if a is not None and b is not None:
                if issubclass(a, b):
                    return True
            elif b is not None and a is None:
                # unknown third-party class: assumed to derive directly from Exception
                if b in (Exception, BaseException):
                    return True
        return False

    def may_be_caught_as(self, name, ancestor):
        """For the unknown class: 'except ValueError' MAY catch an unknown Exception subclass - it is not relied on."""
        return self.is_subclass(name, ancestor)


class CallGraph:
    def __init__(self, model):
        self.model = model
        self._attr_types = {}
        self._methods_by_name = {}
        for cls in model.classes.values():
            for name, method in cls.methods.items():
                self._methods_by_name.setdefault(name, []).append(method)
        self._props_by_name = {}
        for cls in model.classes.values():
            for name, (getter, setter) in cls.properties.items():
                self._props_by_name.setdefault(name, []).append((cls, getter, setter))

    # ----------------------------------------------------------------------------------- receiver types
    def attribute_classes(self, cls, attr):
        """Classes assigned to ``self.<attr>`` by constructor calls anywhere in the class hierarchy."""
        key = (cls.qualname, attr)
        if key in self._attr_types:
            return self._attr_types[key]
        found = []
        for klass in self.model.mro(cls) + self.model.subclasses(cls):
            for method in klass.methods.values():
                for node in walk_own(method.node):
                    if isinstance(node, ast.Assign) and isinstance(node.value, ast.Call):
                        for target in node.targets:
                            if isinstance(target, ast.Attribute) and isinstance(target.value, ast.Name) and target.value.id == "self" \
                                    and target.attr == attr:
                                resolved = self.model.resolve_dotted(klass.module, dotted(node.value.func))
                                if isinstance(resolved, ClassInfo) and resolved not in found:
                                    found.append(resolved)
        self._attr_types[key] = found
        return found

    def enclosing_class(self, func):
        current = func
        while current is not None:
            if current.cls is not None:
                return current.cls
            current = current.parent
        return None

    # ----------------------------------------------------------------------------------- resolution
    # ----------------------------------------------------------------------------------- dispatch tables
    def _single_assignment(self, func, name):
        """The value expression of the only assignment to ``name`` in ``func`` or an enclosing function, else None."""
        scope = func
        while scope is not None:
            values = [node.value for node in walk_own(scope.node) if isinstance(node, ast.Assign) and len(node.targets) == 1
                      and isinstance(node.targets[0], ast.Name) and node.targets[0].id == name]
            if values:
                return (values[0], scope) if len(values) == 1 else (None, scope)
            if _assigned_in(scope, name):
                return None, scope
            scope = scope.parent
        return None, None

    def _table_values(self, func, expr, depth=0):
        """Value expressions (with the function whose scope they are written in) of a dict display that ``expr`` denotes:
        a local name, a module-level name, ``self.X`` / ``cls.X`` / ``Class.X`` assigned in the class body or a constructor."""
        if depth > 3:
            return None
        if isinstance(expr, ast.Dict):
            return [(value, func) for value in expr.values]
        if isinstance(expr, ast.Call) and dotted(expr.func) == "dict" and not expr.args:
            return [(keyword.value, func) for keyword in expr.keywords]
        if isinstance(expr, ast.Name):
            value, scope = self._single_assignment(func, expr.id)
            if value is not None:
                return self._table_values(scope, value, depth + 1)
            if scope is None:
                assigned = func.module.assigns.get(expr.id)
                if assigned and len(assigned) == 1:
                    holder = _ModuleScope(func.module)
                    return self._table_values(holder, assigned[0], depth + 1)
            return None
        if isinstance(expr, ast.Attribute) and isinstance(expr.value, ast.Name):
            cls = None
            if expr.value.id in ("self", "cls"):
                cls = self.enclosing_class(func) if isinstance(func, FuncInfo) else None
            else:
                resolved = self.model.resolve_dotted(func.module, expr.value.id)
                cls = resolved if isinstance(resolved, ClassInfo) else None
            if cls is not None:
                for klass in self.model.mro(cls):
                    if expr.attr in klass.class_assigns:
                        return self._table_values(_ClassScope(klass), klass.class_assigns[expr.attr], depth + 1)
                    init = klass.methods.get("__init__")
                    if init is not None:
                        for node in walk_own(init.node):
                            if isinstance(node, ast.Assign) and any(isinstance(t, ast.Attribute) and t.attr == expr.attr and isinstance(t.value, ast.Name)
                                                                    and t.value.id == "self" for t in node.targets):
                                return self._table_values(init, node.value, depth + 1)
        return None

    def _looked_up_table(self, func, expr):
        """For ``T[k]`` / ``T.get(k[, default])``: the value expressions of T (plus the default)."""
        if isinstance(expr, ast.Subscript):
            return self._table_values(func, expr.value)
        if isinstance(expr, ast.Call) and isinstance(expr.func, ast.Attribute) and expr.func.attr in ("get", "pop", "setdefault") and expr.args:
            values = self._table_values(func, expr.func.value)
            if values is not None and len(expr.args) > 1 and not (isinstance(expr.args[1], ast.Constant) and expr.args[1].value is None):
                values = values + [(expr.args[1], func)]
            return values
        return None

    def _indirect_targets(self, func, call, depth=0):
        """Targets of a call through a dispatch table (dict of functions / bound methods / lambdas / method names)."""
        if depth > 2:
            return None
        target = call.func
        lookup = None
        if isinstance(target, (ast.Subscript, ast.Call)):
            lookup = target
        elif isinstance(target, ast.Name):
            value, scope = self._single_assignment(func, target.id)
            if value is not None and isinstance(value, (ast.Subscript, ast.Call)):
                lookup, func_of_lookup = value, scope
                func = func_of_lookup
        if lookup is None:
            return None
        # getattr(obj, name)(...) with the name taken from a table of texts
        if isinstance(lookup, ast.Call) and isinstance(lookup.func, ast.Name) and lookup.func.id == "getattr" and len(lookup.args) >= 2:
            receiver, name_expr = lookup.args[0], lookup.args[1]
            names = None
            if isinstance(name_expr, ast.Constant) and isinstance(name_expr.value, str):
                names = [name_expr.value]
            else:
                source = name_expr
                if isinstance(name_expr, ast.Name):
                    assigned, scope = self._single_assignment(func, name_expr.id)
                    source = assigned
                values = self._looked_up_table(func, source) if source is not None else None
                if values is not None and all(isinstance(v, ast.Constant) and isinstance(v.value, str) for v, _ in values):
                    names = [v.value for v, _ in values]
            if names is None:
                return None
            targets = []
            for name in names:
                fake = ast.Call(func=ast.Attribute(value=receiver, attr=name, ctx=ast.Load()), args=[], keywords=[])
                ast.copy_location(fake, call)
                ast.fix_missing_locations(fake)
                for resolved in self.resolve_call(func, fake):
                    if resolved not in targets:
                        targets.append(resolved)
            return targets
        values = self._looked_up_table(func, lookup)
        if values is None:
            return None
        targets = []
        for value, scope in values:
            if isinstance(scope, _ClassScope) and isinstance(value, ast.Name) and value.id in scope.klass.methods:
                if scope.klass.methods[value.id] not in targets:
                    targets.append(scope.klass.methods[value.id])  # the plain function, as written in the class body
                continue
            if isinstance(value, ast.Lambda):
                inner_calls = [node for node in ast.walk(value.body) if isinstance(node, ast.Call)]
            else:
                fake = ast.Call(func=value, args=[], keywords=[])
                ast.copy_location(fake, call)
                ast.fix_missing_locations(fake)
                inner_calls = [fake]
            for inner in inner_calls:
                holder = scope if isinstance(scope, FuncInfo) else func
                for resolved in self.resolve_call(holder, inner):
                    if resolved not in targets:
                        targets.append(resolved)
        return targets

    def resolve_call(self, func, call):
        """List of targets: FuncInfo | ("ext", dotted name) | ("method", name) for an unresolved method call."""
        model = self.model
        module = func.module
        target = call.func
        indirect = self._indirect_targets(func, call)
        if indirect is not None:
            return indirect
        if isinstance(target, ast.Name):
            name = target.id
            scope = func
            while scope is not None:
                nested = model.functions.get(scope.qualname.replace("@setter", "") + "." + name)
                if nested is not None and nested.parent is scope:
                    return [nested]
                if _assigned_in(scope, name):
                    return [("unknown", name)]
                scope = scope.parent
            resolved = model.resolve_dotted(module, name)
            if isinstance(resolved, FuncInfo):
                return [resolved]
            if isinstance(resolved, ClassInfo):
                return self._constructor(resolved)
            if name in module.imports:
                return [("ext", module.imports[name])]
            return [("ext", "builtins." + name)]
        if isinstance(target, ast.Attribute):
            method_name = target.attr
            value = target.value
            # super().m(...)
            if isinstance(value, ast.Call) and isinstance(value.func, ast.Name) and value.func.id == "super":
                cls = self.enclosing_class(func)
                if cls is not None:
                    mro = model.mro(cls)
                    for klass in mro[1:]:
                        if method_name in klass.methods:
                            return [klass.methods[method_name]]
                    return [("ext", "builtins.object." + method_name)]
            name = dotted(target)
            if name is not None:
                resolved = model.resolve_dotted(module, name)
                if isinstance(resolved, FuncInfo):
                    return [resolved]
                if isinstance(resolved, ClassInfo):
                    return self._constructor(resolved)
                head = name.split(".")[0]
                if head in module.imports and model._resolve_import(module.imports[head]) is None:
                    return [("ext", model.external_name(module, name))]
            # self.m(...) / self.attr.m(...)
            if isinstance(value, ast.Name) and value.id == "self":
                cls = self.enclosing_class(func)
                if cls is not None:
                    targets = []
                    base_method = model.lookup_method(cls, method_name)
                    if base_method is not None:
                        targets.append(base_method)
                    for sub in model.subclasses(cls):
                        if method_name in sub.methods and sub.methods[method_name] not in targets:
                            targets.append(sub.methods[method_name])
                    if targets:
                        return targets
            if isinstance(value, ast.Attribute) and isinstance(value.value, ast.Name) and value.value.id == "self":
                cls = self.enclosing_class(func)
                if cls is not None:
                    classes = self.attribute_classes(cls, value.attr)
                    targets = []
                    for klass in classes:
                        for candidate in [klass] + model.subclasses(klass):
                            method = model.lookup_method(candidate, method_name)
                            if method is not None and method not in targets:
                                targets.append(method)
                    if targets:
                        return targets
            if method_name in ("__new__",):
                return []
            # receiver classes by local type inference (constructor assignments, property getters, name hints)
            classes = self.infer_classes(func, value, 0)
            if classes:
                targets = []
                for klass in classes:
                    for candidate in [klass] + model.subclasses(klass):
                        method = model.lookup_method(candidate, method_name)
                        if method is not None and method not in targets:
                            targets.append(method)
                if targets:
                    return targets
                if all(model.lookup_property(klass, method_name) is None for klass in classes):
                    return [("method", method_name)]
            # class-hierarchy analysis by method name
            if method_name == "__init__" and isinstance(value, ast.Name):
                # explicit constructor call on an object created by __new__ (interface.py)
                return self._reflective_init(func, value.id)
            candidates = self._methods_by_name.get(method_name, [])
            if candidates and method_name in raiser_table.CHA_METHOD_NAMES:
                return list(candidates)
            return [("method", method_name)]
        return [("unknown", ast.unparse(target))]

    def infer_classes(self, func, expr, depth):
        """Repository classes an expression may evaluate to (empty = unknown)."""
        model = self.model
        if depth > 4:
            return []
        if isinstance(expr, ast.Name):
            if expr.id == "self":
                cls = self.enclosing_class(func)
                return [cls] if cls is not None else []
            found = []
            scope = func
            while scope is not None and not found:
                for node in walk_own(scope.node):
                    if isinstance(node, ast.Assign):
                        for target in node.targets:
                            if isinstance(target, ast.Name) and target.id == expr.id:
                                for cls in self.infer_classes(scope, node.value, depth + 1):
                                    if cls not in found:
                                        found.append(cls)
                    elif isinstance(node, ast.With):
                        for item in node.items:
                            if isinstance(item.optional_vars, ast.Name) and item.optional_vars.id == expr.id:
                                for cls in self.infer_classes(scope, item.context_expr, depth + 1):
                                    if cls not in found:
                                        found.append(cls)
                scope = scope.parent
            if found:
                return found
            hint = raiser_table.NAME_HINTS.get(expr.id)
            return [model.cls(hint)] if hint else []
        if isinstance(expr, ast.Call):
            resolved = model.resolve_dotted(func.module, dotted(expr.func)) if dotted(expr.func) else None
            if isinstance(resolved, ClassInfo):
                return [resolved]
            if isinstance(resolved, FuncInfo):
                found = []
                for node in walk_own(resolved.node):
                    if isinstance(node, ast.Return) and node.value is not None:
                        for cls in self.infer_classes(resolved, node.value, depth + 1):
                            if cls not in found:
                                found.append(cls)
                return found
            if isinstance(expr.func, ast.Attribute) and expr.func.attr == "copy" and dotted(expr.func) == "copy.copy" and expr.args:
                return self.infer_classes(func, expr.args[0], depth + 1)
            return []
        if isinstance(expr, ast.Attribute):
            hint = raiser_table.NAME_HINTS.get(expr.attr)
            owners = self.infer_classes(func, expr.value, depth + 1)
            found = []
            for owner in owners:
                for klass in [owner] + model.subclasses(owner):
                    prop = model.lookup_property(klass, expr.attr)
                    attribute = expr.attr
                    if prop is not None and prop[0] is not None:
                        returns = [n for n in walk_own(prop[0].node) if isinstance(n, ast.Return) and n.value is not None]
                        for ret in returns:
                            if isinstance(ret.value, ast.Attribute) and isinstance(ret.value.value, ast.Name) and ret.value.value.id == "self":
                                attribute = ret.value.attr
                            else:
                                for cls in self.infer_classes(prop[0], ret.value, depth + 1):
                                    if cls not in found:
                                        found.append(cls)
                    for cls in self.attribute_classes(klass, attribute):
                        if cls not in found:
                            found.append(cls)
            if found:
                return found
            return [model.cls(hint)] if hint else []
        if isinstance(expr, ast.Subscript):
            name = dotted(expr.value)
            hint = raiser_table.ELEMENT_HINTS.get(name.split(".")[-1]) if name else None
            return [model.cls(hint)] if hint else []
        if isinstance(expr, ast.IfExp):
            return self.infer_classes(func, expr.body, depth + 1) + self.infer_classes(func, expr.orelse, depth + 1)
        return []

    def _constructor(self, cls):
        init = self.model.lookup_method(cls, "__init__")
        return [init] if init is not None else []

    def _reflective_init(self, func, variable):
        """``field_format.__init__(...)`` / ``check.__init__(...)``: constructors of every subclass of the base."""
        base = raiser_table.REFLECTIVE_CONSTRUCTORS.get((func.qualname, variable))
        if base is None:
            return [("unknown", variable + ".__init__")]
        base_cls = self.model.cls(base)
        targets = []
        for cls in [base_cls] + self.model.subclasses(base_cls):
            init = cls.methods.get("__init__")
            if init is not None and init not in targets:
                targets.append(init)
        return targets

    def property_setters(self, name):
        return [setter for _, _, setter in self._props_by_name.get(name, []) if setter is not None]

    def property_getters(self, name):
        return [getter for _, getter, _ in self._props_by_name.get(name, []) if getter is not None]


_ASSIGNED_CACHE = {}


class _ModuleScope:
    """Stand-in for a function when an expression is written at module or class level."""

    def __init__(self, module):
        self.module = module
        self.parent = None
        self.cls = None
        self.qualname = module.name
        self.node = ast.parse("def _():\n    pass").body[0]


class _ClassScope(_ModuleScope):
    """An expression written in a class body: the names of the class's own functions are visible in it."""

    def __init__(self, klass):
        super().__init__(klass.module)
        self.klass = klass


def _assigned_in(func, name):
    names = _ASSIGNED_CACHE.get(id(func.node))
    if names is None:
        names = set()
        arguments = func.node.args
        for arg in arguments.posonlyargs + arguments.args + arguments.kwonlyargs:
            names.add(arg.arg)
        for node in walk_own(func.node):
            if isinstance(node, ast.Name) and isinstance(node.ctx, ast.Store):
                names.add(node.id)
        _ASSIGNED_CACHE[id(func.node)] = names
    return name in names


def _membership_guarded(func, subscript):
    """TABLE[key] inside the body of ``if key in TABLE`` (also as one operand of an ``and``, an elif, or the body of a
    conditional expression) with the key not assigned again in between."""
    table, key = ast.dump(subscript.value), ast.dump(subscript.slice)

    def tests_membership(test):
        if isinstance(test, ast.Compare) and len(test.ops) == 1 and isinstance(test.ops[0], ast.In):
            return ast.dump(test.left) == key and ast.dump(test.comparators[0]) == table
        if isinstance(test, ast.BoolOp) and isinstance(test.op, ast.And):
            return any(tests_membership(value) for value in test.values)
        return False

    key_names = {n.id for n in ast.walk(subscript.slice) if isinstance(n, ast.Name)}
    for node in walk_own(func.node):
        if isinstance(node, ast.IfExp) and tests_membership(node.test) and any(inner is subscript for inner in ast.walk(node.body)):
            return True
        if isinstance(node, ast.BoolOp) and isinstance(node.op, ast.And):
            for index, value in enumerate(node.values):
                if any(inner is subscript for inner in ast.walk(value)) and any(tests_membership(earlier) for earlier in node.values[:index]):
                    return True
        if isinstance(node, ast.If) and tests_membership(node.test):
            inside = [statement for statement in node.body if any(inner is subscript for inner in ast.walk(statement))]
            if not inside:
                continue
            reassigned = False
            for statement in node.body:
                if statement is inside[0]:
                    break
                for inner in ast.walk(statement):
                    if isinstance(inner, ast.Name) and isinstance(inner.ctx, ast.Store) and inner.id in key_names:
                        reassigned = True
            if not reassigned:
                return True
    return False


class EscapeAnalysis:
    def __init__(self, model, assert_classifier=None):
        self.model = model
        self.graph = CallGraph(model)
        self.lattice = Lattice(model)
        self.assert_classifier = assert_classifier  # (func, assert node) -> "input" | "ignore"
        self.summaries = {}  # qualname -> {key: Item}
        self.unresolved = {}  # qualname -> list of (lineno, text)
        self.untabled_externals = {}  # external callee that is in neither raiser table -> first call site
        self.call_sites = 0
        self.resolved_sites = 0
        self._current = None
        self._solve()

    # ----------------------------------------------------------------------------------- fixpoint
    def _solve(self):
        functions = list(self.model.functions.values())
        for func in functions:
            self.summaries[func.qualname] = {}
        changed = True
        rounds = 0
        while changed:
            rounds += 1
            if rounds > 60:
                raise AnalysisError("escape fixpoint did not converge")
            changed = False
            for func in functions:
                self._current = func
                self.count_sites = rounds == 1
                items = self._block(func.node.body, func, None)
                summary = self.summaries[func.qualname]
                for item in items:
                    if item.key() not in summary:
                        summary[item.key()] = item
                        changed = True
        self.rounds = rounds

    def escapes(self, qualname):
        return list(self.summaries.get(qualname, {}).values())

    # ----------------------------------------------------------------------------------- statements
    def _block(self, statements, func, reraise):
        result = []
        for statement in statements:
            result.extend(self._statement(statement, func, reraise))
        return result

    def _statement(self, node, func, reraise):
        if isinstance(node, (ast.FunctionDef, ast.AsyncFunctionDef, ast.ClassDef)):
            return []
        if isinstance(node, ast.Try):
            body = self._block(node.body, func, reraise)
            remaining = []
            caught = {id(handler): [] for handler in node.handlers}
            for item in body:
                handler = self._catching_handler(node.handlers, item, func)
                if handler is None:
                    remaining.append(item)
                else:
                    caught[id(handler)].append(item)
            for handler in node.handlers:
                if not caught[id(handler)]:
                    continue  # nothing modelled reaches this handler
                remaining.extend(self._block(handler.body, func, (handler.name, caught[id(handler)])))
            remaining.extend(self._block(node.orelse, func, reraise))
            remaining.extend(self._block(node.finalbody, func, reraise))
            return remaining
        if isinstance(node, ast.Raise):
            result = self._expressions(node, func)
            if node.exc is None:
                if reraise is not None:
                    result.extend(reraise[1])
                return result
            if isinstance(node.exc, ast.Name) and reraise is not None and node.exc.id == reraise[0]:
                result.extend(reraise[1])
                return result
            cls_name = self._raised_class(node.exc, func)
            result.append(Item(cls_name, (func.qualname, node.lineno, "raise " + ast.unparse(node.exc)[:70])))
            return result
        if isinstance(node, ast.Assert):
            result = self._expressions(node.test, func)
            if self.assert_classifier is not None and self.assert_classifier(func, node) == "input":
                result.append(Item("builtins.AssertionError", (func.qualname, node.lineno, "assert " + ast.unparse(node.test)[:70])))
            return result
        result = []
        # expressions evaluated by this statement itself (not those of nested blocks)
        for field, value in ast.iter_fields(node):
            if field in ("body", "orelse", "finalbody", "handlers"):
                continue
            for expression in (value if isinstance(value, list) else [value]):
                if isinstance(expression, ast.AST):
                    result.extend(self._expressions(expression, func, statement=node))
        if isinstance(node, ast.For):
            result.extend(self._lazy_iteration(node, func))
        for field in ("body", "orelse", "finalbody"):
            inner = getattr(node, field, None)
            if isinstance(inner, list) and inner and isinstance(inner[0], ast.stmt):
                result.extend(self._block(inner, func, reraise))
        return result

    def _catching_handler(self, handlers, item, func):
        for handler in handlers:
            if handler.type is None:
                return handler
            types = handler.type.elts if isinstance(handler.type, ast.Tuple) else [handler.type]
            for type_node in types:
                type_name = self._class_name(type_node, func)
                if self.lattice.is_subclass(item.cls, type_name):
                    return handler
        return None

    def _class_name(self, node, func):
        name = dotted(node)
        if name is None:
            return "builtins.Exception"
        resolved = self.model.resolve_dotted(func.module, name)
        if isinstance(resolved, ClassInfo):
            return resolved.qualname
        return self.model.external_name(func.module, name)

    def _raised_class(self, expr, func):
        if isinstance(expr, ast.Call):
            # ``raise self._duplicate_error(...)``: a helper that builds the exception - the class is what it returns
            targets = [t for t in self.graph.resolve_call(func, expr) if isinstance(t, FuncInfo) and t.name != "__init__"]
            if targets:
                classes = set()
                for target in targets:
                    for node in walk_own(target.node):
                        if isinstance(node, ast.Return) and node.value is not None:
                            value = node.value
                            if isinstance(value, ast.Name):
                                # result = errors.CheckError(...); return result
                                for assignment in walk_own(target.node):
                                    if isinstance(assignment, ast.Assign) and any(isinstance(t, ast.Name) and t.id == value.id for t in assignment.targets):
                                        classes.add(self._raised_class(assignment.value, target) if isinstance(assignment.value, ast.Call) else ANY)
                            elif isinstance(value, ast.Call):
                                classes.add(self._class_name(value.func, target))
                            else:
                                classes.add(ANY)
                if len(classes) == 1:
                    return classes.pop()
                return ANY
            return self._class_name(expr.func, func)
        return self._class_name(expr, func)

    # ----------------------------------------------------------------------------------- expressions
    def _expressions(self, node, func, statement=None):
        result = []
        stack = [node]
        while stack:
            current = stack.pop()
            if isinstance(current, (ast.Lambda, ast.FunctionDef)):
                continue
            if isinstance(current, ast.Call):
                result.extend(self._call(current, func))
            elif isinstance(current, ast.Subscript) and isinstance(current.ctx, ast.Load):
                result.extend(self._subscript(current, func))
            elif isinstance(current, ast.Compare):
                result.extend(self._comparison(current, func))
            elif isinstance(current, ast.BinOp) and isinstance(current.op, ast.Mod):
                result.extend(self._formatting_of_evaluated_value(current, func))
            elif isinstance(current, ast.Attribute) and isinstance(current.ctx, ast.Store):
                for setter in self.graph.property_setters(current.attr):
                    for item in self.summaries.get(setter.qualname, {}).values():
                        result.append(item.via(func.qualname, current.lineno))
            stack.extend(ast.iter_child_nodes(current))
        return result

    def _setattr_setters(self, call, func):
        """setattr(obj, name, value) runs the setter of the property ``name``: with a constant name that property's setters,
        otherwise (the name is computed) the setters of every property of the enclosing class."""
        if len(call.args) < 2:
            return []
        name = call.args[1]
        if isinstance(name, ast.Constant) and isinstance(name.value, str):
            return self.graph.property_setters(name.value)
        cls = self.graph.enclosing_class(func)
        setters = []
        if cls is not None:
            for klass in self.model.mro(cls):
                for _getter, setter in klass.properties.values():
                    if setter is not None and setter not in setters:
                        setters.append(setter)
        return setters

    def _call(self, call, func):
        result = []
        if isinstance(call.func, ast.Name) and call.func.id == "setattr":
            for setter in self._setattr_setters(call, func):
                for item in self.summaries.get(setter.qualname, {}).values():
                    result.append(item.via(func.qualname, call.lineno))
        targets = self.graph.resolve_call(func, call)
        if targets in ([("ext", "builtins.map")], [("ext", "builtins.filter")]) and call.args:
            applied = self._applied_function(call, func)
            if applied is not None:
                return result + applied
        if self.count_sites:
            self.call_sites += 1
            if targets and not all(isinstance(t, tuple) and t[0] in ("unknown", "method") for t in targets):
                self.resolved_sites += 1
            else:
                self.unresolved.setdefault(func.qualname, []).append((call.lineno, ast.unparse(call.func)))
        for target in targets:
            if isinstance(target, FuncInfo):
                for item in self.summaries.get(target.qualname, {}).values():
                    result.append(item.via(func.qualname, call.lineno))
            elif isinstance(target, tuple):
                kind, name = target
                classes = ()
                if kind == "ext":
                    classes = raiser_table.lookup_external(name, call, func)
                    is_exception_class = name.startswith("builtins.") and isinstance(getattr(__import__("builtins"), name[9:], None), type) \
                        and issubclass(getattr(__import__("builtins"), name[9:]), BaseException)
                    if name not in raiser_table.EXTERNAL and name not in raiser_table.NO_RAISE and func.module.name != "cutplace.gui" \
                            and not is_exception_class:
                        self.untabled_externals.setdefault(name, "%s:%d" % (func.module.relpath, call.lineno))
                elif kind == "method":
                    classes = raiser_table.lookup_method(name, call, func)
                for cls_name in classes:
                    result.append(Item(cls_name, (func.qualname, call.lineno, ast.unparse(call)[:90])))
        return result

    # consumers that exhaust a lazy iterator where they stand, so that what the mapped function raises escapes *here*
    _EAGER_CONSUMERS = {"list", "tuple", "set", "frozenset", "sorted", "any", "all", "sum", "min", "max", "dict"}

    def _eagerly_consumed(self, call, func):
        """Is the map()/filter() object handed directly to something that iterates it to its end (or to the first
        exception) in this very expression?  Anything else (bound to a name, returned, stored) would raise somewhere
        else, which this analysis does not follow."""
        cache = self.__dict__.setdefault("_eager_cache", {})
        consumed = cache.get(func.qualname)
        if consumed is None:
            consumed = set()
            for node in walk_own(func.node):
                candidates = []
                if isinstance(node, ast.Call):
                    callee = node.func
                    if isinstance(callee, ast.Name) and callee.id in self._EAGER_CONSUMERS and node.args:
                        candidates.append(node.args[0])
                    elif isinstance(callee, ast.Attribute) and callee.attr in ("join", "extend", "update") and node.args:
                        candidates.append(node.args[0])
                elif isinstance(node, ast.For):
                    candidates.append(node.iter)
                elif isinstance(node, (ast.ListComp, ast.SetComp, ast.DictComp)):  # not GeneratorExp: lazy itself
                    candidates.extend(generator.iter for generator in node.generators)
                elif isinstance(node, ast.Starred):
                    candidates.append(node.value)
                for candidate in candidates:
                    consumed.add(id(candidate))
            cache[func.qualname] = consumed
        return id(call) in consumed

    def _applied_function(self, call, func):
        """Escapes of ``map(f, xs)`` / ``filter(f, xs)``: those of a call of ``f`` - a name, an attribute, a lambda or
        ``operator.methodcaller("m")`` (every method of that name in the repository).  None (the caller then reports
        an untabled external, i.e. exit 2) when ``f`` is anything else or the iterator is not consumed on the spot."""
        if not self._eagerly_consumed(call, func):
            return None
        applied = call.args[0]
        if isinstance(applied, ast.Constant) and applied.value is None:
            return []
        if isinstance(applied, ast.Lambda):
            return self._expressions(applied.body, func)
        if isinstance(applied, (ast.Name, ast.Attribute)):
            synthetic = ast.copy_location(ast.Call(func=applied, args=[ast.Name(id="_mapped_item", ctx=ast.Load())], keywords=[]), call)
            ast.fix_missing_locations(synthetic)
            return self._call(synthetic, func)
        if isinstance(applied, ast.Call) and applied.args and isinstance(applied.args[0], ast.Constant) \
                and isinstance(applied.args[0].value, str) \
                and (self.graph.resolve_call(func, applied) == [("ext", "operator.methodcaller")]
                     or dotted(applied.func) in ("operator.methodcaller", "methodcaller")):
            methods = self.graph._methods_by_name.get(applied.args[0].value, [])
            if not methods:
                return None
            result = []
            for method in methods:
                for item in self.summaries.get(method.qualname, {}).values():
                    result.append(item.via(func.qualname, call.lineno))
            return result
        return None

    def _subscript(self, node, func):
        """<module-level constant dict>[non-literal key] -> KeyError."""
        name = dotted(node.value)
        if name is None or isinstance(node.slice, ast.Constant):
            return []
        if raiser_table.is_constant_mapping(self.model, func.module, name):
            if _membership_guarded(func, node):
                return []
            return [Item("builtins.KeyError", (func.qualname, node.lineno, ast.unparse(node)[:70]))]
        return []

    def _formatting_of_evaluated_value(self, node, func):
        """``"... %r" % (..., value)`` where ``value`` is the result of eval() in the same function: what a user-written
        expression evaluates to is arbitrary - an int of more than 4300 digits cannot be turned into text (ValueError,
        sys.get_int_max_str_digits), whatever the conversion."""
        operands = node.right.elts if isinstance(node.right, ast.Tuple) else [node.right]
        names = {operand.id for operand in operands if isinstance(operand, ast.Name)}
        if not names:
            return []
        for statement in walk_own(func.node):
            if isinstance(statement, ast.Assign) and isinstance(statement.value, ast.Call) and dotted(statement.value.func) == "eval":
                for target in statement.targets:
                    if isinstance(target, ast.Name) and target.id in names:
                        return [Item("builtins.ValueError", (func.qualname, node.lineno, "formatting the result of eval(): " + ast.unparse(node)[:60]))]
        return []

    def _comparison(self, node, func):
        """Ordering comparison on a Decimal converted from text in this function (NaN signals InvalidOperation)."""
        if not any(isinstance(op, (ast.Lt, ast.LtE, ast.Gt, ast.GtE)) for op in node.ops):
            return []
        names = raiser_table.decimal_from_text_names(func)
        if not names:
            return []
        operands = [node.left] + list(node.comparators)
        for operand in operands:
            if isinstance(operand, ast.Name) and operand.id in names:
                if raiser_table.finiteness_guarded(func, operand.id, node.lineno):
                    return []
                return [Item("decimal.InvalidOperation", (func.qualname, node.lineno, ast.unparse(node)[:70]))]
        return []

    def _lazy_iteration(self, node, func):
        """for x in <name bound to a lazily raising iterator>."""
        if not isinstance(node.iter, ast.Name):
            return []
        result = []
        for statement in walk_own(func.node):
            if isinstance(statement, ast.Assign) and isinstance(statement.value, ast.Call):
                for target in statement.targets:
                    if isinstance(target, ast.Name) and target.id == node.iter.id:
                        for resolved in self.graph.resolve_call(func, statement.value):
                            name = resolved.qualname if isinstance(resolved, FuncInfo) else (resolved[1] if resolved[0] == "ext" else None)
                            for cls_name in raiser_table.LAZY_ITERATORS.get(name, ()):
                                result.append(Item(cls_name, (func.qualname, node.lineno, "iteration of %s" % name)))
        return result

    # ----------------------------------------------------------------------------------- reachability
    def reachable(self, roots):
        seen = set()
        stack = [self.model.func(root) for root in roots]
        while stack:
            func = stack.pop()
            if func.qualname in seen:
                continue
            seen.add(func.qualname)
            for node in walk_own(func.node):
                if isinstance(node, ast.Call):
                    for target in self.graph.resolve_call(func, node):
                        if isinstance(target, FuncInfo):
                            stack.append(target)
                elif isinstance(node, ast.Attribute) and isinstance(node.ctx, ast.Store):
                    stack.extend(self.graph.property_setters(node.attr))
                if isinstance(node, ast.Call) and isinstance(node.func, ast.Name) and node.func.id == "setattr":
                    stack.extend(self._setattr_setters(node, func))
            # nested functions are reachable when their parent is
            for other in self.model.functions.values():
                if other.parent is func:
                    stack.append(other)
        return seen
