"""
Abstract object graphs used by the DECIDE rules: a CID with recording field formats and checks, data
formats, locations, raw-row sources.  All objects are ``Obj`` instances of the *repository's* classes
(resolved from the parsed sources); collaborators a table is not about are replaced by recording stubs
whose outcome is a choice of the scenario.
"""
from .absint import AbsIter, Atom, Obj, Opaque, Sym, Undecided, fragments
from .tablekit import stub

FIELD_OK, FIELD_BAD = "ok", "FieldValueError"
CHECK_OK, CHECK_BAD = "ok", "CheckError"


class World:
    def __init__(self, model, interp, chooser):
        self.model = model
        self.interp = interp
        self.ch = chooser
        self.log = interp.events

    # ---------------------------------------------------------------- locations
    def location(self, label="location", has_cell=True, line=0):
        return Obj(
            self.model.cls("cutplace.errors.Location"),
            {
                "file_path": "<data>",
                "_line": line,
                "_column": 0,
                "_cell": 0,
                "_sheet": 0,
                "_has_column": False,
                "_has_cell": has_cell,
                "_has_sheet": False,
            },
            label=label,
        )

    # ---------------------------------------------------------------- data format
    def data_format(self, format_name="delimited", header=0, **extra):
        attrs = {
            "_format": format_name,
            "_header": header,
            "_is_valid": True,
            "_allowed_characters": None,
            "_encoding": "cp1252",
        }
        if format_name == "delimited":
            attrs.update({"_escape_character": '"', "_item_delimiter": ",", "_quote_character": '"', "_quoting": 0,
                          "_skip_initial_space": False})
        if format_name in ("delimited", "fixed"):
            attrs.update({"_decimal_separator": ".", "_line_delimiter": "any", "_thousands_separator": ""})
        if format_name in ("excel", "ods"):
            attrs["_sheet"] = 1
        attrs.update(extra)
        return Obj(self.model.cls("cutplace.data.DataFormat"), attrs, label="data_format")

    # ---------------------------------------------------------------- recording collaborators
    def recording_field(self, index, outcomes=(FIELD_OK, FIELD_BAD), name=None):
        name = name or "f%d" % index
        if index == 0:
            # the first field is declared as permissively as a field can be (Text, may be empty, no length, no rule):
            # even such a field has to see every cell - the data format's allowed characters apply to it
            no_limit = Obj(self.model.cls("cutplace.ranges.Range"), {"_items": None, "_lower_limit": None, "_upper_limit": None,
                                                                    "_description": None}, label="no length")
            field = Obj(self.model.cls("cutplace.fields.TextFieldFormat"), {
                "_field_name": name, "_is_allowed_to_be_empty": True, "_length": no_limit, "_rule": "", "_empty_value": "",
                "_example": None}, label=name)
        else:
            field = Obj(self.model.cls("cutplace.fields.AbstractFieldFormat"), {"_field_name": name}, label=name)
        world = self

        @stub
        def validated(interp, args, kwargs):
            (value,) = args
            location = world.current_location
            cell = location.attrs.get("_cell") if location is not None else None
            line = location.attrs.get("_line") if location is not None else None
            outcome = world.ch.choose(("field", name, len(interp.events)), list(outcomes))
            interp.event("validated", name, _show(value), "line=%s" % line, "cell=%s" % cell, outcome)
            if outcome == FIELD_BAD:
                interp.raise_("cutplace.errors.FieldValueError", Opaque("str", True, ["<reason %s>" % name]))
            # what a field hands back is the typed value, not the cell: whoever passes it on instead of the cell is seen
            if isinstance(value, Atom):
                return Atom("typed(%s)" % value.name, "typed(%s)" % value.klass, is_str=False)
            return value

        field.attrs["validated"] = validated
        return field

    def recording_check(self, index, row_outcomes=(CHECK_OK, CHECK_BAD), end_outcomes=(CHECK_OK, CHECK_BAD), name=None):
        name = name or "c%d" % index
        # the descriptions sort the other way round than the declaration order: checks run in the order they are declared
        description = "%s (%s)" % (chr(ord("z") - (index % 26)), name)
        check = Obj(self.model.cls("cutplace.checks.AbstractCheck"), {"_description": description}, label=name)
        world = self

        @stub
        def reset(interp, args, kwargs):
            interp.event("reset", name, None)

        @stub
        def check_row(interp, args, kwargs):
            field_map, location = args
            shown = sorted((key, _show(value)) for key, value in field_map.items()) if isinstance(field_map, dict) else repr(field_map)
            outcome = world.ch.choose(("check_row", name, len(interp.events)), list(row_outcomes))
            interp.event("check_row", name, shown, "line=%s" % location.attrs.get("_line"), "cell=%s" % location.attrs.get("_cell"), outcome)
            if outcome == CHECK_BAD:
                interp.raise_("cutplace.errors.CheckError", Opaque("str", True, ["<veto %s>" % name]), location)

        @stub
        def check_at_end(interp, args, kwargs):
            outcome = world.ch.choose(("check_at_end", name, len(interp.events)), list(end_outcomes))
            interp.event("check_at_end", name, outcome)
            if outcome == CHECK_BAD:
                interp.raise_("cutplace.errors.CheckError", Opaque("str", True, ["<end %s>" % name]), args[0] if args else None)

        @stub
        def cleanup(interp, args, kwargs):
            interp.event("cleanup", name, None)

        check.attrs.update({"reset": reset, "check_row": check_row, "check_at_end": check_at_end, "cleanup": cleanup})
        return check

    current_location = None

    # ---------------------------------------------------------------- CID
    def cid(self, fields, checks, data_format):
        check_names = [check.attrs["_description"] for check in checks]
        cid = Obj(
            self.model.cls("cutplace.interface.Cid"),
            {
                "_cid_path": "<cid>",
                "_data_format": data_format,
                "_field_names": [field.attrs["_field_name"] for field in fields],
                "_field_formats": list(fields),
                "_field_name_to_format_map": {field.attrs["_field_name"]: field for field in fields},
                "_field_name_to_index_map": {field.attrs["_field_name"]: i for i, field in enumerate(fields)},
                "_check_names": check_names,
                "_check_name_to_check_map": dict(zip(check_names, checks)),
                "_location": None,
            },
            label="cid",
        )
        return cid

    # ---------------------------------------------------------------- rows
    def row(self, row_index, width):
        return [Atom("r%dc%d" % (row_index, column), "r%dc%d" % (row_index, column)) for column in range(width)]

    def stream(self, label="stream"):
        return Obj("io.StringIO", {"name": "<data>"}, label=label)


def _show(value):
    if isinstance(value, Atom):
        return value.name
    if isinstance(value, (list, tuple)):
        return [_show(item) for item in value]
    return repr(value)


def show(value):
    return _show(value)


def message_mentions(exception, text):
    """Does the (opaque) message of a cutplace error contain ``text`` in one of its concrete fragments?"""
    message = exception.attrs.get("_message")
    for fragment in fragments(message):
        if isinstance(fragment, str) and text in fragment:
            return True
    return False


class Mismatch(Exception):
    pass


class TraceCursor:
    """Walks the recorded events against the protocol an oracle predicts."""

    def __init__(self, events):
        self.events = list(events)
        self.position = 0

    def expect(self, *prefix):
        if self.position >= len(self.events):
            raise Mismatch("expected event %s but the trace ended after %d event(s)" % (list(prefix), self.position))
        event = self.events[self.position]
        if tuple(event[: len(prefix)]) != tuple(prefix):
            raise Mismatch("event %d is %s, expected %s" % (self.position, list(event[:-1]), list(prefix)))
        self.position += 1
        return event[-1]

    def peek_is(self, *prefix):
        if self.position >= len(self.events):
            return False
        return tuple(self.events[self.position][: len(prefix)]) == tuple(prefix)

    def done(self):
        if self.position != len(self.events):
            raise Mismatch("unexpected extra event %s" % (list(self.events[self.position][:-1]),))
