"""
Variant catalogue for testing the checker both ways.

BENIGN: behaviour-preserving rewrites of the repository (renames, equivalent conditions, restructured control flow,
extracted helpers, changed messages).  Every check must stay at exit 0 on them - neither a violation (false alarm) nor
an ANALYSIS-ERROR (the checker must understand ordinary refactorings of the code it decides).

BREAKING: own single-site mutants (in addition to the independently seeded changes under /verif/seeded) that the
named properties must report with exit 1.

Each entry: (name, relative path, old text, new text[, expected properties]).  Edits are applied to a scratch copy
outside /repo and /verif; nothing of cutplace is executed.
"""

BENIGN = [
    ("fields: pure memo of compiled expressions keyed by the whole input", "cutplace/fields.py",
     'class RegExFieldFormat(AbstractFieldFormat):\n    """\n    Field format accepting values that match a specified regular expression.\n    """\n\n    def __init__(self, field_name, is_allowed_to_be_empty, length, rule, data_format):\n        super().__init__(field_name, is_allowed_to_be_empty, length, rule, data_format, empty_value="")\n        try:\n            self.regex = re.compile(rule, re.IGNORECASE | re.MULTILINE)\n',
     '_EXPRESSION_TO_REGEX_MAP = {}\n\n\ndef _compiled_expression(expression):\n    result = _EXPRESSION_TO_REGEX_MAP.get(expression)\n    if result is None:\n        result = re.compile(expression, re.IGNORECASE | re.MULTILINE)\n        _EXPRESSION_TO_REGEX_MAP[expression] = result\n    return result\n\n\nclass RegExFieldFormat(AbstractFieldFormat):\n    """\n    Field format accepting values that match a specified regular expression.\n    """\n\n    def __init__(self, field_name, is_allowed_to_be_empty, length, rule, data_format):\n        super().__init__(field_name, is_allowed_to_be_empty, length, rule, data_format, empty_value="")\n        try:\n            self.regex = _compiled_expression(rule)\n'),
    ("raw rows: rows passed on as copies from a generator", "cutplace/validio.py",
     """            return rowio.excel_rows(self._source_data_stream_or_path, data_format.sheet)
        elif format == data.FORMAT_DELIMITED:""",
     """            return (list(row) for row in rowio.excel_rows(self._source_data_stream_or_path, data_format.sheet))
        elif format == data.FORMAT_DELIMITED:"""),
    ("rows: first data row computed once", "cutplace/validio.py",
     """        header_row_count = self._cid.data_format.header
        for row_count, row in enumerate(self._raw_rows(), 1):
            try:
                is_after_header_row = row_count > header_row_count""",
     """        header_row_count = self._cid.data_format.header
        first_data_row = header_row_count + 1
        for row_count, row in enumerate(self._raw_rows(), 1):
            try:
                is_after_header_row = row_count >= first_data_row"""),
    ("process: data files by index", "cutplace/applications.py",
     """        for data_path in cutplace_app.data_paths:
            try:
                cutplace_app.validate(data_path)""",
     """        for data_path_index in range(len(cutplace_app.data_paths)):
            data_path = cutplace_app.data_paths[data_path_index]
            try:
                cutplace_app.validate(data_path)"""),
    ("ranges: write-only statistics at module level", "cutplace/ranges.py",
     """def code_for_number_token(name, value, location):""",
     """_CONVERTED_NUMBER_TOKENS = []


def _count_number_token(value):
    _CONVERTED_NUMBER_TOKENS.append(value)


def code_for_number_token(name, value, location):"""),
    ("rows: rename locals", "cutplace/validio.py",
     """                is_after_header_row = row_count > header_row_count
                is_before_validate_until = (self._validate_until is None) or (row_count <= self._validate_until)
                if is_after_header_row:
                    if is_before_validate_until:""",
     """                is_data_row = row_count > header_row_count
                must_validate = (self._validate_until is None) or (row_count <= self._validate_until)
                if is_data_row:
                    if must_validate:"""),
    ("rows: equivalent comparisons", "cutplace/validio.py",
     """                is_after_header_row = row_count > header_row_count
                is_before_validate_until = (self._validate_until is None) or (row_count <= self._validate_until)""",
     """                is_after_header_row = not (row_count <= header_row_count)
                is_before_validate_until = (self._validate_until is None) or not (self._validate_until < row_count)"""),
    ("rows: zero based counter", "cutplace/validio.py",
     """        for row_count, row in enumerate(self._raw_rows(), 1):
            try:
                is_after_header_row = row_count > header_row_count
                is_before_validate_until = (self._validate_until is None) or (row_count <= self._validate_until)""",
     """        for row_index, row in enumerate(self._raw_rows()):
            try:
                is_after_header_row = row_index >= header_row_count
                is_before_validate_until = (self._validate_until is None) or (row_index < self._validate_until)"""),
    ("rows: elif chain for the modes", "cutplace/validio.py",
     """                if self.on_error == "raise":
                    raise
                self.rejected_rows_count += 1
                if self.on_error == "yield":
                    yield error
                else:
                    assert self.on_error == "continue\"""",
     """                if self.on_error == "raise":
                    raise
                elif self.on_error == "yield":
                    self.rejected_rows_count += 1
                    yield error
                else:
                    self.rejected_rows_count += 1"""),
    ("rows: reset through check names", "cutplace/validio.py",
     """        self._location = errors.Location(self._source_path, has_cell=True)
        for check in self.cid.check_map.values():
            check.reset()
        header_row_count""",
     """        self._location = errors.Location(self._source_path, has_cell=True)
        for check_name in self.cid.check_names:
            self.cid.check_map[check_name].reset()
        header_row_count"""),
    ("validate_row: single count test", "cutplace/validio.py",
     """        if actual_item_count < self._expected_item_count:
            raise errors.DataError(
                "row must contain %d fields but only has %d: %s" % (self._expected_item_count, actual_item_count, row),
                self.location,
            )
        if actual_item_count > self._expected_item_count:""",
     """        if actual_item_count < self._expected_item_count:
            raise errors.DataError(
                "row has too few items: %d instead of %d: %s" % (actual_item_count, self._expected_item_count, row),
                self.location,
            )
        elif actual_item_count > self._expected_item_count:"""),
    ("validate_row: index loop", "cutplace/validio.py",
     """        for field_index, field_value in enumerate(row):
            self.location.set_cell(field_index)""",
     """        for field_index in range(len(row)):
            field_value = row[field_index]
            self.location.set_cell(field_index)"""),
    ("close: early return", "cutplace/validio.py",
     """        if not self._is_closed:
            try:
                for check_name in self.cid.check_names:
                    self.cid.check_map[check_name].check_at_end(self.location)
            finally:
                self._is_closed = True
                for check in self.cid.check_map.values():
                    check.cleanup()""",
     """        if self._is_closed:
            return
        try:
            for check_name in self.cid.check_names:
                self.cid.check_map[check_name].check_at_end(self.location)
        finally:
            self._is_closed = True
            for check in self.cid.check_map.values():
                check.cleanup()"""),
    ("Range.validate: for loop with break", "cutplace/ranges.py",
     """            is_valid = False
            item_index = 0
            while not is_valid and item_index < len(self._items):
                lower, upper = self._items[item_index]
                if lower is None:
                    assert upper is not None
                    if value <= upper:
                        is_valid = True
                elif upper is None:
                    if value >= lower:
                        is_valid = True
                elif (value >= lower) and (value <= upper):
                    is_valid = True
                item_index += 1
            if not is_valid:
                raise errors.RangeValueError("%s is %r but must be within range: %s" % (name, value, self), location)""",
     """            is_valid = False
            for lower, upper in self._items:
                if (lower is None or lower <= value) and (upper is None or value <= upper):
                    is_valid = True
                    break
            if not is_valid:
                raise errors.RangeValueError("%s is %r but must be within range: %s" % (name, value, self), location)"""),
    ("Range.validate: any()", "cutplace/ranges.py",
     """            is_valid = False
            item_index = 0
            while not is_valid and item_index < len(self._items):
                lower, upper = self._items[item_index]
                if lower is None:
                    assert upper is not None
                    if value <= upper:
                        is_valid = True
                elif upper is None:
                    if value >= lower:
                        is_valid = True
                elif (value >= lower) and (value <= upper):
                    is_valid = True
                item_index += 1
            if not is_valid:
                raise errors.RangeValueError("%s is %r but must be within range: %s" % (name, value, self), location)""",
     """            is_valid = any(
                (lower is None or not (value < lower)) and (upper is None or not (value > upper))
                for lower, upper in self._items
            )
            if not is_valid:
                raise errors.RangeValueError("%s is %r but must be within range: %s" % (name, value, self), location)"""),
    ("Range limits: min/max formulation", "cutplace/ranges.py",
     """                if upper_item is None:
                    self._upper_limit = None
                elif (self._upper_limit is not None) and (upper_item > self._upper_limit):
                    self._upper_limit = upper_item

    @property
    def description(self):""",
     """                if upper_item is None:
                    self._upper_limit = None
                elif self._upper_limit is not None:
                    self._upper_limit = max(self._upper_limit, upper_item)

    @property
    def description(self):"""),
    ("validated: nested ifs and renamed local", "cutplace/fields.py",
     """        if self.data_format.format == data.FORMAT_FIXED:
            # NOTE: Only blanks pad a fixed value, other white space such as tabs is part of the value.
            possibly_stripped_value = value.strip(" ")
        else:
            possibly_stripped_value = value
        if possibly_stripped_value:
            # NOTE: A fixed value consisting only of blanks is empty, even if blanks are no allowed characters.
            self.validate_characters(value)
        self.validate_empty(possibly_stripped_value)
        self.validate_length(value)
        if possibly_stripped_value:
            result = self.validated_value(possibly_stripped_value)
        else:
            result = self.empty_value
        return result""",
     """        is_fixed = self.data_format.format == data.FORMAT_FIXED
        actual_value = value.strip(" ") if is_fixed else value
        if actual_value:
            self.validate_characters(value)
        self.validate_empty(actual_value)
        self.validate_length(value)
        if not actual_value:
            return self.empty_value
        return self.validated_value(actual_value)"""),
    ("validate_empty: single condition", "cutplace/fields.py",
     """        if not self.is_allowed_to_be_empty:
            if not value:
                raise errors.FieldValueError("value must not be empty")""",
     """        if not self.is_allowed_to_be_empty and value == "":
            raise errors.FieldValueError("value must not be empty")"""),
    ("IsUnique.check_row: membership test", "cutplace/checks.py",
     """        see_also_location = self._row_key_to_location_map.get(row_key)
        if see_also_location is not None:
            raise errors.CheckError(
                "values for %r must be unique: %s" % (self._field_names_to_check, row_key),
                location,
                see_also_message="location of first occurrence",
                see_also_location=see_also_location,
            )
        else:
            self._row_key_to_location_map[row_key] = copy.copy(location)""",
     """        if row_key in self._row_key_to_location_map:
            raise errors.CheckError(
                "values for %r must be unique: %s" % (self._field_names_to_check, row_key),
                location,
                see_also_message="location of first occurrence",
                see_also_location=self._row_key_to_location_map[row_key],
            )
        self._row_key_to_location_map[row_key] = copy.copy(location)"""),
    ("DistinctCount.check_row: dict.get", "cutplace/checks.py",
     """        try:
            self._distinct_value_to_count_map[value] += 1
        except KeyError:
            self._distinct_value_to_count_map[value] = 1""",
     """        self._distinct_value_to_count_map[value] = self._distinct_value_to_count_map.get(value, 0) + 1"""),
    ("Writer.write_row: renamed local and inverted test", "cutplace/validio.py",
     """        if self.location.line >= self._header:
            self.validate_row(row_to_write)
        if self.cid.data_format.format == data.FORMAT_FIXED:
            actual_row_to_write = self._padded_fixed_row(row_to_write)
        else:
            actual_row_to_write = row_to_write
        self._delegated_writer.write_row(actual_row_to_write)""",
     """        is_header_row = self.location.line < self._header
        if not is_header_row:
            self.validate_row(row_to_write)
        row_to_emit = row_to_write
        if self.cid.data_format.format == data.FORMAT_FIXED:
            row_to_emit = self._padded_fixed_row(row_to_write)
        self._delegated_writer.write_row(row_to_emit)"""),
    ("process: flag tested with equality", "cutplace/applications.py",
     """        if not cutplace_app.all_validations_were_ok:
            result = 1""",
     """        if cutplace_app.all_validations_were_ok is False:
            result = 1"""),
    ("main: result computed in else", "cutplace/applications.py",
     """    except (EnvironmentError, OSError) as error:
        result = 3
        _log.error("%s", error)""",
     """    except OSError as error:
        _log.error("%s", error)
        result = 3"""),
    ("set_options: elif order", "cutplace/applications.py",
     """            if args.validate_until == -1:
                self.validate_until = None
            elif args.validate_until >= 0:
                self.validate_until = args.validate_until
            else:""",
     """            if args.validate_until >= 0:
                self.validate_until = args.validate_until
            elif args.validate_until == -1:
                self.validate_until = None
            else:"""),
    ("fixed_rows: renamed push-back and inverted branch", "cutplace/rowio.py",
     """                if unread_character_after_line_delimiter[0] is None:
                    item = fixed_file.read(field_length)
                else:
                    assert len(unread_character_after_line_delimiter) == 1
                    item = unread_character_after_line_delimiter[0]
                    if field_length >= 2:
                        item += fixed_file.read(field_length - 1)
                    unread_character_after_line_delimiter[0] = None""",
     """                if unread_character_after_line_delimiter[0] is not None:
                    item = unread_character_after_line_delimiter[0]
                    unread_character_after_line_delimiter[0] = None
                    if field_length > 1:
                        item = item + fixed_file.read(field_length - 1)
                else:
                    item = fixed_file.read(field_length)"""),
    ("_as_delimited_keywords: conditional expressions", "cutplace/rowio.py",
     """    if delimited_data_format.escape_character == delimited_data_format.quote_character:
        doublequote = True
        escapechar = None
    else:
        doublequote = False
        escapechar = delimited_data_format.escape_character""",
     """    doublequote = delimited_data_format.escape_character == delimited_data_format.quote_character
    escapechar = None if doublequote else delimited_data_format.escape_character"""),
    ("_excel_cell_value: removesuffix", "cutplace/rowio.py",
     """        if (cell.ctype == xlrd.XL_CELL_NUMBER) and (result.endswith(".0")):
            result = result[:-2]""",
     """        if cell.ctype == xlrd.XL_CELL_NUMBER:
            result = result.removesuffix(".0")"""),
    ("ods_rows: explicit paragraph loop", "cutplace/rowio.py",
     """            cell_value = "\\n".join(
                _ods_text(text_p, location) for text_p in _findall(table_cell, "text:p", namespaces=_OOO_NAMESPACES)
            )""",
     """            paragraph_texts = []
            for text_p in _findall(table_cell, "text:p", namespaces=_OOO_NAMESPACES):
                paragraph_texts.append(_ods_text(text_p, location))
            cell_value = "\\n".join(paragraph_texts)"""),
    ("set_property: dictionary of simple choices untouched, message changed", "cutplace/data.py",
     """                "data format property %s is %d but must be at least 1" % (_compat.text_repr(KEY_SHEET), sheet),""",
     """                "sheet is %d but must be 1 or more (data format property %s)" % (sheet, _compat.text_repr(KEY_SHEET)),"""),
    ("validate: reordered independent checks", "cutplace/data.py",
     """            check_distinct(KEY_ITEM_DELIMITER, KEY_LINE_DELIMITER)
            check_distinct(KEY_ITEM_DELIMITER, KEY_QUOTE_CHARACTER)
            check_distinct(KEY_LINE_DELIMITER, KEY_QUOTE_CHARACTER)""",
     """            check_distinct(KEY_ITEM_DELIMITER, KEY_QUOTE_CHARACTER)
            check_distinct(KEY_LINE_DELIMITER, KEY_QUOTE_CHARACTER)
            check_distinct(KEY_ITEM_DELIMITER, KEY_LINE_DELIMITER)"""),
    ("Cid.read: continue for empty rows", "cutplace/interface.py",
     """        for row in rows:
            if row:
                row_type = row[0].lower().strip()""",
     """        for row in rows:
            if len(row) > 0:
                row_type = row[0].strip().lower()"""),
    ("sql: ladder with early returns", "cutplace/sql.py",
     """            length = sql_ansi_type[1]
            if length <= MAX_SMALLINT:
                result = ("smallint", length)
            elif length <= MAX_INTEGER or length is None:
                result = ("integer", length)
            elif length <= MAX_BIGINT:
                result = ("bigint", length)
            else:
                result = ("decimal", _tools.length_of_int(length + 1))
        return result""",
     """            length = sql_ansi_type[1]
            if length > MAX_BIGINT:
                return ("decimal", _tools.length_of_int(length + 1))
            if length > MAX_INTEGER:
                return ("bigint", length)
            if length > MAX_SMALLINT:
                return ("integer", length)
            return ("smallint", length)
        return result"""),
    ("sign_adjusted_limit: conditional expression", "cutplace/fields.py",
     """            if limit >= 0:
                result = limit
            else:
                result = -(limit + 1)
            return result""",
     """            return limit if limit >= 0 else -limit - 1"""),
    ("Location.__str__: format strings reordered", "cutplace/errors.py",
     """            result += "R%dC%d" % (self.line + 1, self.cell + 1)""",
     """            result += "R" + str(self.line + 1) + "C" + str(self.cell + 1)"""),
    ("CutplaceError: copy through Location.__copy__ kept, attribute order changed", "cutplace/errors.py",
     """        self._location = copy.copy(location)
        self._see_also_message = see_also_message
        self._see_also_location = copy.copy(see_also_location)""",
     """        self._see_also_message = see_also_message
        self._see_also_location = copy.copy(see_also_location)
        self._location = copy.copy(location)"""),
]

BREAKING = [
    ("Range.validate: exclusive upper limit", "cutplace/ranges.py",
     "                elif (value >= lower) and (value <= upper):\n                    is_valid = True\n                item_index += 1\n            if not is_valid:\n                raise errors.RangeValueError(\"%s is %r",
     "                elif (value >= lower) and (value < upper):\n                    is_valid = True\n                item_index += 1\n            if not is_valid:\n                raise errors.RangeValueError(\"%s is %r", ["C01"]),
    ("rows: header off by one", "cutplace/validio.py",
     "is_after_header_row = row_count > header_row_count", "is_after_header_row = row_count >= header_row_count", ["C07", "C20"]),
    ("rows: limit off by one", "cutplace/validio.py",
     "(row_count <= self._validate_until)", "(row_count < self._validate_until)", ["C07"]),
    ("rows: rejected rows counted as accepted in continue mode", "cutplace/validio.py",
     "                self.rejected_rows_count += 1\n                if self.on_error == \"yield\":",
     "                if self.on_error == \"yield\":\n                    self.rejected_rows_count += 1\n                else:\n                    self.accepted_rows_count += 1\n                if self.on_error == \"yield\":", ["C06"]),
    ("rows: container errors swallowed in continue mode", "cutplace/validio.py",
     "        for row_count, row in enumerate(self._raw_rows(), 1):\n            try:\n                is_after_header_row",
     "        raw_rows = enumerate(self._raw_rows(), 1)\n        while True:\n            try:\n                row_count, row = next(raw_rows)\n            except StopIteration:\n                break\n            except errors.DataError:\n                if self.on_error == \"raise\":\n                    raise\n                break\n            try:\n                is_after_header_row", ["C06"]),
    ("validate_row: checks run before the fields", "cutplace/validio.py",
     "        # Validate each field according to its format.\n        for field_index, field_value in enumerate(row):",
     "        for check_name in self.cid.check_names:\n            self.cid.check_map[check_name].check_row(_create_field_map(self.cid.field_names, row), self.location)\n        # Validate each field according to its format.\n        for field_index, field_value in enumerate(row):", ["C04", "C20", "C05"]),
    ("close: cleanup skipped after a failing end check", "cutplace/validio.py",
     "            try:\n                for check_name in self.cid.check_names:\n                    self.cid.check_map[check_name].check_at_end(self.location)\n            finally:\n                self._is_closed = True\n                for check in self.cid.check_map.values():\n                    check.cleanup()",
     "            for check_name in self.cid.check_names:\n                self.cid.check_map[check_name].check_at_end(self.location)\n            self._is_closed = True\n            for check in self.cid.check_map.values():\n                check.cleanup()", ["C20"]),
    ("validated: length guard before the character guard skipped for fixed", "cutplace/fields.py",
     "        self.validate_length(value)\n        if possibly_stripped_value:",
     "        if self.data_format.format != data.FORMAT_FIXED:\n            self.validate_length(value)\n        if possibly_stripped_value:", ["C03", "C20"]),
    ("IsUnique: key over the first field only", "cutplace/checks.py",
     "for field_name in self._field_names_to_check)", "for field_name in self._field_names_to_check[:1])", ["C05"]),
    ("DistinctCount: reset keeps the map", "cutplace/checks.py",
     "    def reset(self):\n        self._distinct_value_to_count_map = {}",
     "    def reset(self):\n        if self._distinct_value_to_count_map is None:\n            self._distinct_value_to_count_map = {}", ["C05", "C08"]),
    ("Writer: emits before validating", "cutplace/validio.py",
     "        if self.location.line >= self._header:\n            self.validate_row(row_to_write)\n        if self.cid.data_format.format == data.FORMAT_FIXED:\n            actual_row_to_write = self._padded_fixed_row(row_to_write)\n        else:\n            actual_row_to_write = row_to_write\n        self._delegated_writer.write_row(actual_row_to_write)",
     "        if self.cid.data_format.format == data.FORMAT_FIXED:\n            actual_row_to_write = self._padded_fixed_row(row_to_write)\n        else:\n            actual_row_to_write = row_to_write\n        must_validate = self.location.line >= self._header\n        self._delegated_writer.write_row(actual_row_to_write)\n        if must_validate:\n            self.validate_row(row_to_write)", ["C14"]),
    ("main: environment errors answered with 1", "cutplace/applications.py",
     "        result = 3\n        _log.error(\"%s\", error)", "        result = 1\n        _log.error(\"%s\", error)", ["C18"]),
    ("sql: smallint threshold one too high", "cutplace/sql.py",
     "            if length <= MAX_SMALLINT:\n                result = (\"smallint\", length)\n            elif length <= MAX_INTEGER or length is None:\n                result = (\"integer\", length)",
     "            if length <= MAX_SMALLINT + 1:\n                result = (\"smallint\", length)\n            elif length <= MAX_INTEGER or length is None:\n                result = (\"integer\", length)", ["C19"]),
    ("sql: not null polarity", "cutplace/sql.py", "            if not is_not_null:\n                column_def += \" not null\"",
     "            if is_not_null:\n                column_def += \" not null\"", ["C19"]),
    ("fixed_rows: short record accepted at the end of input", "cutplace/rowio.py",
     "                elif item_length == field_length:\n                    row.append(item)",
     "                elif item_length == field_length or item_length > 0 and field_index == len(field_name_and_lengths) - 1:\n                    row.append(item)", ["C13"]),
    ("ods_rows: sheet index off by one", "cutplace/rowio.py", "    table_element = table_elements[sheet - 1]", "    table_element = table_elements[sheet - 2]", ["C15"]),
    ("excel_rows: rows limited to the first column count", "cutplace/rowio.py",
     "                for x in range(sheet_to_read.ncols):", "                for x in range(min(sheet_to_read.ncols, 2)):", ["C16"]),
    ("auto_rows: xls treated as text", "cutplace/rowio.py", "        elif suffix in (\"xls\", \"xlsx\"):", "        elif suffix in (\"xlsx\",):", ["C17"]),
    ("set_property: header accepts negative numbers", "cutplace/data.py",
     "        if result < 0:\n            raise errors.InterfaceError(\n                \"data format property %s is %d but must be at least 0\"",
     "        if result < -1:\n            raise errors.InterfaceError(\n                \"data format property %s is %d but must be at least 0\"", ["C11", "C10"]),
    ("validate: decimal and thousands separator may be equal", "cutplace/data.py",
     "            check_distinct(KEY_DECIMAL_SEPARATOR, KEY_THOUSANDS_SEPARATOR)", "            pass", ["C11"]),
    ("Cid.read: unknown row markers ignored", "cutplace/interface.py",
     "                elif row_type != \"\":\n                    # Raise error when value is not supported.\n                    raise errors.InterfaceError(",
     "                elif row_type == \"?\":\n                    # Raise error when value is not supported.\n                    raise errors.InterfaceError(", ["C09"]),
    ("RegEx: broken expression no longer converted", "cutplace/fields.py",
     "        except (re.error, OverflowError, ValueError) as error:\n            raise errors.InterfaceError(\n                \"rule must be a valid regular expression",
     "        except (re.error, OverflowError, ValueError) as error:\n            raise KeyError(\n                \"rule must be a valid regular expression", ["C10"]),
    # --- reverts of the repairs made after round 5 (each must be reported again)
    ("fixed_rows: path opened without newline=''", "cutplace/rowio.py",
     '        fixed_file = io.open(fixed_source, "r", newline="", encoding=encoding)', '        fixed_file = io.open(fixed_source, "r", encoding=encoding)', ["C13", "C14"]),
    ("ods: rows in row groups skipped again", "cutplace/rowio.py",
     '("table-header-rows", "table-rows", "table-row-group")', '("table-header-rows", "table-rows")', ["C15"]),
    ("ods: covered cells ignored again", "cutplace/rowio.py",
     '("table-cell", "covered-table-cell")', '("table-cell",)', ["C15"]),
    ("readers: only UnicodeDecodeError converted", "cutplace/rowio.py",
     "        except (csv.Error, UnicodeError) as error:", "        except (csv.Error, UnicodeDecodeError) as error:", ["C10"]),
    ("tokens: a lone surrogate (UnicodeEncodeError) not converted", "cutplace/_tools.py",
     "    except (SyntaxError, UnicodeError, SystemError) as error:", "    except (SyntaxError, UnicodeDecodeError, SystemError) as error:", ["C10"]),
    ("tokens: SystemError of the 3.12 tokenizer not converted", "cutplace/_tools.py",
     "    except (SyntaxError, UnicodeError, SystemError) as error:", "    except (SyntaxError, UnicodeError) as error:", ["C10"]),
    ("writers: only UnicodeEncodeError converted", "cutplace/rowio.py",
     '            self._target_stream.write("".join(row_to_write))\n        except UnicodeError as error:',
     '            self._target_stream.write("".join(row_to_write))\n        except UnicodeEncodeError as error:', ["C10"]),
    ("fixed cells: every white space stripped, not only blanks", "cutplace/fields.py",
     '            possibly_stripped_value = value.strip(" ")', "            possibly_stripped_value = value.strip()", ["C03", "C20"]),
    ("DistinctCount: names in the count expression not looked at", "cutplace/checks.py",
     "        self._validate_names_in_expression()\n", "", ["C09", "C10"]),
    ("command line: positionals matched before an option is seen", "cutplace/applications.py",
     "        args = parser.parse_intermixed_args(argv[1:])", "        args = parser.parse_args(argv[1:])", ["C18"]),
    ("range limits: digit grouping with underscores accepted again", "cutplace/ranges.py",
     '        if "_" in value:\n            # Python source code can use underscores to group digits, numbers in a CID can not.\n            raise ValueError("underscore in number")\n        # Note: base 0',
     "        # Note: base 0", ["C01", "C11"]),
    ("Integer cells: digit grouping with underscores accepted again", "cutplace/fields.py",
     '            if "_" in value:\n                # Python source code can use underscores to group digits, numbers in data can not.\n                raise ValueError("underscore in number")\n            value_as_int = int(value)',
     "            value_as_int = int(value)", ["C02"]),
    ("import_plugins: loaded modules dropped again", "cutplace/interface.py",
     "        _imported_plugin_modules.append(loaded_module)\n", "", ["C20"]),
    ("ODS counts: any Unicode white space as padding", "cutplace/rowio.py",
     'r"^[ \\t\\r\\n]*[+-]?[0-9]+[ \\t\\r\\n]*$"', 'r"^\\s*[+-]?[0-9]+\\s*$"', ["C15"]),
    ("xlsx writer: a row without items stores nothing", "cutplace/rowio.py",
     '        if not items_to_write:\n            # Store an empty cell so the row is part of the sheet even if no further rows follow.\n            self.worksheet.write_string(row_index, 0, "")\n',
     "", ["C16"]),
    ("field length: only the overall limits examined", "cutplace/interface.py",
     "                if (upper_length is not None) and (upper_length < 0):", "                if False and (upper_length is not None) and (upper_length < 0):", ["C09"]),
    ("DecimalRange: only NaN refused", "cutplace/ranges.py",
     "        if not value_as_decimal.is_finite():", "        if value_as_decimal.is_nan():", ["C02"]),
    ("__exit__: end checks replace the pending error", "cutplace/validio.py",
     "            try:\n                self.close()\n            except errors.CheckError:\n                pass", "            self.close()", ["C06", "C18"]),
    ("close: closed flag only after successful end checks", "cutplace/validio.py",
     "            finally:\n                self._is_closed = True\n                for check in self.cid.check_map.values():\n                    check.cleanup()",
     "            finally:\n                for check in self.cid.check_map.values():\n                    check.cleanup()\n            self._is_closed = True", ["C20"]),
    ("rows: location kept for a second pass", "cutplace/validio.py",
     "        self._location = errors.Location(self._source_path, has_cell=True)\n        for check in self.cid.check_map.values():",
     "        for check in self.cid.check_map.values():", ["C04"]),
    ("csv error: line after the broken one", "cutplace/rowio.py",
     "    if line_number > 1:\n        location.advance_line(line_number - 1)", "    if line_number > 0:\n        location.advance_line(line_number)", ["C04"]),
    ("check row: cells not stripped", "cutplace/interface.py",
     "check_description, check_type, check_rule = [item.strip() for item in (items + 3 * [\"\"])[:3]]",
     "check_description, check_type, check_rule = (items + 3 * [\"\"])[:3]", ["C09"]),
    ("field row after a check row accepted", "cutplace/interface.py",
     "        if self._check_names:\n            raise errors.InterfaceError(\"fields must be specified before first check\", self._location)\n", "", ["C09"]),
    ("Decimal: foreign decimal point passed on", "cutplace/fields.py",
     "            elif character_to_process == \".\":", "            elif character_to_process == \"\\0\":", ["C02"]),
    ("validated: characters checked before the emptiness test", "cutplace/fields.py",
     "        if possibly_stripped_value:\n            # NOTE: A fixed value consisting only of blanks is empty, even if blanks are no allowed characters.\n            self.validate_characters(value)",
     "        self.validate_characters(value)", ["C03"]),
    ("command line: empty file names accepted", "cutplace/applications.py",
     "        if (args.cid_path == \"\") or (\"\" in (args.data_paths or [])):", "        if False:", ["C18"]),
    ("plugins: folder used as pattern", "cutplace/interface.py",
     "os.path.join(glob.escape(folder_to_scan_for_plugins), \"*.py\")", "os.path.join(folder_to_scan_for_plugins, \"*.py\")", ["C20"]),
    ("xlsx writer: error code ignored", "cutplace/rowio.py",
     "            if (error_code is not None) and (error_code < 0):", "            if False:", ["C16"]),
    ("class maps: direct subclasses only", "cutplace/interface.py",
     "                    classes_to_scan_for_subclasses.append(subclass)", "                    pass", ["C20"]),
    ("encoding: only looked up", "cutplace/data.py",
     "                \"\".encode(value)\n            except (LookupError, ValueError):", "                codecs.lookup(value)\n            except LookupError:", ["C11", "C10"]),
    ("DateTime: re.error of a repeated place holder escapes again", "cutplace/fields.py",
     "        except (ValueError, re.error):", "        except ValueError:", ["C10"]),
    ("RegEx: OverflowError of a huge repetition count escapes again", "cutplace/fields.py",
     "        except (re.error, OverflowError, ValueError) as error:", "        except re.error as error:", ["C10"]),
    ("Decimal: thousands separator accepted after the decimal separator", "cutplace/fields.py",
     "            elif self.thousands_separator and (character_to_process == self.thousands_separator):\n                if found_decimal_separator:",
     "            elif self.thousands_separator and (character_to_process == self.thousands_separator):\n                if False:", ["C02"]),
    ("delimited: writer loses skip initial space agreement", "cutplace/rowio.py",
     "        \"skipinitialspace\": delimited_data_format.skip_initial_space,", "        \"skipinitialspace\": False,", ["C12"]),
]
