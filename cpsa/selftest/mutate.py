"""
Apply one textual edit to a scratch copy of the repository (outside /repo and /verif), run a check on it,
and remove the copy.  Used by the variant catalogue and during development; nothing of cutplace is executed.
"""
import os
import shutil
import subprocess
import sys
import tempfile

VERIF = os.path.dirname(os.path.dirname(os.path.dirname(os.path.abspath(__file__))))


def make_scratch(repo="/repo"):
    scratch = tempfile.mkdtemp(prefix="cpsa-variant-")
    for name in ("cutplace", "examples", "docs"):
        source = os.path.join(repo, name)
        if os.path.isdir(source):
            shutil.copytree(source, os.path.join(scratch, name), ignore=shutil.ignore_patterns("__pycache__", "*.pyc", "*.ods", "images", "_static"))
    return scratch


def apply_edit(scratch, relpath, old, new, count=1):
    path = os.path.join(scratch, relpath)
    with open(path, "r", encoding="utf-8") as source_file:
        source = source_file.read()
    occurrences = source.count(old)
    if occurrences != count:
        raise ValueError("edit anchor occurs %d times (expected %d) in %s: %r" % (occurrences, count, relpath, old[:60]))
    source = source.replace(old, new)
    compile(source, path, "exec")
    with open(path, "w", encoding="utf-8") as target_file:
        target_file.write(source)


def run_check(scratch, property_id, tier="quick"):
    env = dict(os.environ, CPSA_REPO=scratch, CPSA_EVIDENCE_DIR=os.path.join(scratch, "_evidence"))
    process = subprocess.run(
        [sys.executable, os.path.join(VERIF, "check.py"), property_id, "--tier", tier],
        capture_output=True, text=True, env=env, cwd=VERIF,
    )
    return process.returncode, process.stdout + process.stderr


if __name__ == "__main__":
    # usage: mutate.py PROPERTY relpath OLD NEW
    property_ids, relpath, old, new = sys.argv[1:5]
    scratch = make_scratch()
    try:
        apply_edit(scratch, relpath, old, new)
        for property_id in property_ids.split(","):
            code, output = run_check(scratch, property_id)
            print("exit", code)
            print("\n".join(line for line in output.splitlines() if not line.startswith("    {")))
    finally:
        shutil.rmtree(scratch, ignore_errors=True)
