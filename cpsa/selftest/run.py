#!/venv/bin/python
"""
run.py [--benign] [--breaking] [--jobs N] [--only SUBSTRING]

Applies every catalogue variant to its own scratch copy of the current /repo tree, runs the checks on it (CPSA_REPO),
removes the copy, and prints a verdict per variant.  Benign variants: every check must exit 0.  Breaking variants: each
expected property must exit 1 and no check may exit 2.
"""
import argparse
import os
import shutil
import sys
from concurrent.futures import ThreadPoolExecutor

sys.path.insert(0, os.path.dirname(os.path.dirname(os.path.dirname(os.path.abspath(__file__)))))
from cpsa.selftest import catalogue  # noqa: E402
from cpsa.selftest.mutate import apply_edit, make_scratch, run_check  # noqa: E402

ALL = ["C%02d" % i for i in range(1, 21)]


def evaluate(kind, entry):
    name, relpath, old, new = entry[:4]
    expected = entry[4] if len(entry) > 4 else []
    scratch = make_scratch()
    try:
        try:
            apply_edit(scratch, relpath, old, new)
        except (ValueError, SyntaxError) as error:
            return kind, name, "EDIT-FAILED", str(error)[:200]
        results = {}
        for property_id in ALL:
            code, output = run_check(scratch, property_id)
            results[property_id] = (code, [line.strip()[:220] for line in output.splitlines() if "[O" in line or "ANALYSIS-ERROR" in line][:1])
    finally:
        shutil.rmtree(scratch, ignore_errors=True)
    fired = sorted(p for p, (code, _) in results.items() if code == 1)
    errors = sorted(p for p, (code, _) in results.items() if code == 2)
    if kind == "benign":
        ok = not fired and not errors
        detail = "; ".join("%s exit %d %s" % (p, results[p][0], results[p][1]) for p in fired + errors)
    else:
        ok = all(p in fired for p in expected) and not errors
        detail = "fired %s expected %s errors %s" % (fired, expected, errors)
        if errors:
            detail += " " + "; ".join("%s %s" % (p, results[p][1]) for p in errors)
    return kind, name, "ok" if ok else "PROBLEM", detail


def main():
    parser = argparse.ArgumentParser()
    parser.add_argument("--benign", action="store_true")
    parser.add_argument("--breaking", action="store_true")
    parser.add_argument("--jobs", type=int, default=8)
    parser.add_argument("--only", default=None)
    args = parser.parse_args()
    work = []
    if args.benign or not args.breaking:
        work += [("benign", entry) for entry in catalogue.BENIGN]
    if args.breaking or not args.benign:
        work += [("breaking", entry) for entry in catalogue.BREAKING]
    if args.only:
        work = [item for item in work if args.only in item[1][0]]
    problems = 0
    with ThreadPoolExecutor(max_workers=args.jobs) as pool:
        for kind, name, verdict, detail in pool.map(lambda item: evaluate(*item), work):
            print("%-8s %-8s %s%s" % (kind, verdict, name, ("  <- " + detail) if verdict != "ok" or kind == "breaking" else ""))
            if verdict != "ok":
                problems += 1
    print("variants: %d, problems: %d" % (len(work), problems))
    return 1 if problems else 0


if __name__ == "__main__":
    sys.exit(main())
