"""Fixture for the X-STATE rule: one cell of every kind (never imported, only parsed)."""
import re

CONSTANT_TABLE = {"a": 1}
_REGISTRY = {}
_STATISTICS = []
_PURE_MEMO = {}
_BAD_KEY_MEMO = {}
_FILE_MEMO = {}
_BUFFER = [None]
_counter = 0


def _register(name, value):
    _REGISTRY[name] = value


_register("x", 1)


def look_up(name):
    return _REGISTRY.get(name)


def count_call():
    _STATISTICS.append(1)


def compiled(pattern):
    result = _PURE_MEMO.get(pattern)
    if result is None:
        result = re.compile(pattern)
        _PURE_MEMO[pattern] = result
    return result


def compiled_with_flags(pattern, flags):
    result = _BAD_KEY_MEMO.get(pattern)
    if result is None:
        result = re.compile(pattern, flags)
        _BAD_KEY_MEMO[pattern] = result
    return result


def contents(path):
    if path not in _FILE_MEMO:
        with open(path) as source:
            text = source.read()
        _FILE_MEMO[path] = text
    return _FILE_MEMO[path]


def pushed_back():
    buffer = _BUFFER

    def take():
        result = buffer[0]
        buffer[0] = None
        return result

    return take()


def next_number():
    global _counter
    _counter += 1
    return _counter


class Collector:
    NAMES = ["a", "b"]
    _seen = []
    _own = []

    def __init__(self):
        self._own = []

    def add(self, value):
        self._seen.append(value)
        self._own.append(value)

    def seen(self):
        return list(self._seen) + [name for name in self.NAMES]
