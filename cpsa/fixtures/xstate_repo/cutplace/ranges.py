"""Fixture for the observer part of the X-STATE rule (never imported, only parsed)."""


class Range:
    def __init__(self, description):
        self._description = description
        self._items = None
        self._parsed = None
        self._last_index = 0
        self._calls = 0

    def items(self):
        if self._parsed is None:
            self._parsed = self._description.split(",")
        return self._parsed

    def validate(self, name, value):
        self._calls += 1
        index = self._last_index
        self._last_index = index + 1
        return index


class Limits(Range):
    def __init__(self, description):
        super().__init__(description)
        self._compute()

    def _compute(self):
        self._lower = 1
        self._finish()

    def _finish(self):
        self._upper = self._lower + 1

    def upper(self):
        return self._upper
