"""
M5 - finite-domain abstract interpreter over the syntax trees of the repository.

It interprets function bodies taken from the parsed sources (never imported code) over
*abstract* values: order symbols (``Sym``), region representatives (``RInt``), three-valued
texts (``AText``), equivalence-class atoms (``Atom``), opaque values and abstract objects.
Non-determinism (stub outcomes, undetermined orderings) is resolved through a ``Chooser``
and explored exhaustively by ``explore``.  Anything outside the supported subset, and any
branch on an opaque value, raises ``Undecided`` (-> ANALYSIS-ERROR), never a verdict.
"""
import ast
import csv as _csv
import itertools
import operator
import re as _re
import string as _string
import token as _token
import tokenize as _tokenize

from .model import AnalysisError, ClassInfo, FuncInfo, ModuleInfo, dotted


class Undecided(AnalysisError):
    pass


class AbsRaise(Exception):
    """An exception raised by the interpreted program."""

    def __init__(self, value):
        Exception.__init__(self, getattr(value, "cls_name", str(value)))
        self.value = value


class _Return(Exception):
    def __init__(self, value):
        self.value = value


class _Break(Exception):
    pass


class _Continue(Exception):
    pass


# ------------------------------------------------------------------------------- choices
class Chooser:
    def __init__(self, prefix=()):
        self.prefix = list(prefix)
        self.trail = []  # (key, index, count)

    def choose(self, key, options):
        options = list(options)
        if not options:
            raise Undecided("no option for choice %r" % (key,))
        position = len(self.trail)
        index = self.prefix[position] if position < len(self.prefix) else 0
        if index >= len(options):
            raise Undecided("choice replay diverged at %r" % (key,))
        self.trail.append((key, index, len(options)))
        return options[index]

    def record(self):
        return [(str(key), index) for key, index, _ in self.trail]


def explore(run, max_runs=2000000):
    """Call ``run(chooser)`` for every combination of choices it asks for (depth-first)."""
    prefix = []
    count = 0
    while True:
        chooser = Chooser(prefix)
        yield chooser, run(chooser)
        count += 1
        if count > max_runs:
            raise Undecided("exploration exceeded %d runs" % max_runs)
        trail = chooser.trail
        while trail and trail[-1][1] + 1 >= trail[-1][2]:
            trail.pop()
        if not trail:
            return
        prefix = [entry[1] for entry in trail[:-1]] + [trail[-1][1] + 1]


# ------------------------------------------------------------------------------- values
class Abstract:
    """Base of abstract values: no native truth value, equality or hashing by accident."""

    def __bool__(self):
        raise Undecided("truth value of abstract value %r" % (self,))

    def __eq__(self, other):
        if other is self:
            return True
        raise Undecided("native == on abstract value %r" % (self,))

    def __ne__(self, other):
        return not self.__eq__(other)

    __hash__ = object.__hash__


class Opaque(Abstract):
    def __init__(self, tag="opaque", truthy=None, parts=None):
        self.tag = tag
        self.truthy = truthy
        self.parts = list(parts) if parts else []  # concrete / abstract fragments a text was built from

    def __repr__(self):
        return "<%s>" % self.tag


class Sym(Abstract):
    """Order symbol: a number known only through its order relative to other symbols/constants."""

    def __init__(self, name, neg=False, integer=False):
        self.name = name
        self.neg = neg
        self.integer = integer  # an integer-valued symbol cannot lie strictly between two consecutive integer constants

    def key(self):
        return ("-" if self.neg else "") + self.name

    def __repr__(self):
        return "Sym(%s)" % self.key()


class RInt(Abstract):
    """
    Region representative: an integer standing for its region between harvested thresholds.
    Only unit-slope affine maps, max/min and comparisons are permitted on it.
    """

    def __init__(self, value, label=None):
        self.value = value
        self.label = label

    def __repr__(self):
        return "RInt(%s)" % (self.label if self.label is not None else self.value)


class AText(Abstract):
    EMPTY, BLANKS, TEXT = "EMPTY", "BLANKS", "TEXT"

    def __init__(self, kind, name="text", origin=None, chars=None):
        self.kind = kind
        self.name = name
        self.origin = origin  # AText this one was derived from (strip)
        self.chars = chars  # optional list of abstract characters for iteration

    def __repr__(self):
        return "AText(%s:%s)" % (self.name, self.kind)


class Atom(Abstract):
    """A value known only up to equality: atoms with the same ``klass`` are equal."""

    def __init__(self, name, klass, is_str=True):
        self.name = name
        self.klass = klass
        self.is_str = is_str

    def __eq__(self, other):
        return isinstance(other, Atom) and other.klass == self.klass

    def __ne__(self, other):
        return not self.__eq__(other)

    def __hash__(self):
        return hash(("atom", self.klass))

    def __bool__(self):
        return True

    def __repr__(self):
        return "Atom(%s=%s)" % (self.name, self.klass)


class Obj:
    def __init__(self, cls, attrs=None, label=None):
        self.cls = cls  # ClassInfo or str (external class name)
        self.attrs = attrs if attrs is not None else {}
        self.label = label
        self.complete = False  # True when the repository's own constructor built it: a missing attribute is an AttributeError

    @property
    def cls_name(self):
        return self.cls.qualname if isinstance(self.cls, ClassInfo) else self.cls

    def __repr__(self):
        return "<%s %s>" % (self.cls_name.rsplit(".", 1)[-1], self.label or hex(id(self))[-4:])


class FuncRef:
    def __init__(self, info, closure=None):
        self.info = info
        self.closure = closure

    def __repr__(self):
        return "<fn %s>" % self.info.qualname


class BoundMethod:
    def __init__(self, self_value, info):
        self.self_value = self_value
        self.info = info

    def __repr__(self):
        return "<bound %s>" % self.info.qualname


class ClassRef:
    def __init__(self, info):
        self.info = info

    def __repr__(self):
        return "<classref %s>" % self.info.qualname


class ExtRef:
    """Reference to something outside the repository, by dotted name."""

    def __init__(self, name):
        self.name = name

    def __repr__(self):
        return "<ext %s>" % self.name

    def __eq__(self, other):
        return isinstance(other, ExtRef) and other.name == self.name

    def __hash__(self):
        return hash(("ext", self.name))


class ModuleRef:
    def __init__(self, name, info=None):
        self.name = name
        self.info = info

    def __repr__(self):
        return "<module %s>" % self.name


class LambdaRef:
    def __init__(self, node, frame):
        self.node = node
        self.frame = frame


class ReObj:
    """A compiled regular expression built from folded constants."""

    def __init__(self, pattern, flags):
        self.pattern = pattern
        self.flags = flags


class NativeMethod:
    def __init__(self, receiver, name):
        self.receiver = receiver
        self.name = name


class SuperRef:
    def __init__(self, self_value, after_cls):
        self.self_value = self_value
        self.after_cls = after_cls


class GenVal:
    """A running generator of the interpreted program."""

    def __init__(self, pygen, label):
        self.pygen = pygen
        self.label = label
        self.done = False

    def __repr__(self):
        return "<generator %s>" % self.label


class AbsIter:
    """Abstract iterable handed in by a rule: items are produced by ``producer(index)`` until it returns STOP."""

    STOP = object()

    def __init__(self, producer, label="iter"):
        self.producer = producer
        self.label = label
        self.index = 0

    def next_item(self):
        item = self.producer(self.index)
        self.index += 1
        return item


class Frame:
    def __init__(self, info, module, parent=None):
        self.info = info
        self.module = module
        self.parent = parent  # closure frame
        self.locals = {}
        self.nonlocals = set()  # names declared ``nonlocal``: stores go to the enclosing frame that binds them


# ------------------------------------------------------------------------------- order store
def _weak_orders_extend(orders, new_index):
    """All weak orders (rank tuples, dense ranks) extending each of ``orders`` by one more element."""
    result = []
    for ranks in orders:
        levels = (max(ranks) + 1) if ranks else 0
        # tie with an existing level
        for level in range(levels):
            result.append(ranks + (level,))
        # new level before / between / after
        for gap in range(levels + 1):
            shifted = tuple(r + 1 if r >= gap else r for r in ranks)
            result.append(shifted + (gap,))
    return result


class OrderStore:
    """Lazily refined set of weak orders over the symbols and integer constants compared so far."""

    def __init__(self, chooser):
        self.chooser = chooser
        self.names = []  # element keys: ("s", name) or ("c", int)
        self.orders = [()]
        self.facts = []  # recorded decisions
        self.integer_symbols = set()

    def _index(self, key):
        if key in self.names:
            return self.names.index(key)
        index = len(self.names)
        self.names.append(key)
        orders = _weak_orders_extend(self.orders, index)
        # constants are ordered by value among themselves
        if key[0] == "c":
            for other_index, other in enumerate(self.names[:-1]):
                if other[0] == "c":
                    want = (key[1] > other[1]) - (key[1] < other[1])
                    orders = [o for o in orders if ((o[index] > o[other_index]) - (o[index] < o[other_index])) == want]
        if len(orders) > 60000:
            raise Undecided("order store too large (%d symbols)" % len(self.names))
        self.orders = orders
        self._apply_declared()
        self._apply_integrality()
        return index

    def mark_integer(self, key):
        if key not in self.integer_symbols:
            self.integer_symbols.add(key)
            self._apply_integrality()

    def _apply_integrality(self):
        constants = [(key[1], index) for index, key in enumerate(self.names) if key[0] == "c"]
        symbols = [index for index, key in enumerate(self.names) if key in self.integer_symbols]
        if not symbols:
            return
        for value, low_index in constants:
            for other, high_index in constants:
                if other == value + 1:
                    for symbol in symbols:
                        self.orders = [o for o in self.orders if not (o[low_index] < o[symbol] < o[high_index])]

    _declared = ()

    def declare(self, a, relation, b):
        """Known fact, e.g. ("s","lower") "<=" ("s","upper")."""
        self._declared = tuple(self._declared) + ((a, b, relation),)
        # both sides join the store at once, so that what follows from several declared facts together (l0<=u0<l1
        # implies l0<l1) is known before the first comparison is decided
        for key in (a, b):
            if key in _INTEGER_KEYS:
                self.integer_symbols.add(key)
            self._index(key)
        self._apply_declared()

    def _apply_declared(self):
        for a, b, relation in self._declared:
            if a in self.names and b in self.names:
                ia, ib = self.names.index(a), self.names.index(b)
                test = {
                    "<": lambda o: o[ia] < o[ib],
                    "<=": lambda o: o[ia] <= o[ib],
                    "==": lambda o: o[ia] == o[ib],
                    ">": lambda o: o[ia] > o[ib],
                    ">=": lambda o: o[ia] >= o[ib],
                    "!=": lambda o: o[ia] != o[ib],
                }[relation]
                self.orders = [o for o in self.orders if test(o)]
                if not self.orders:
                    raise Undecided("declared order facts are inconsistent")

    def sign(self, a, b):
        """-1, 0 or 1 for the order of elements ``a`` and ``b`` (keys); asks the chooser when open."""
        if a == b:
            return 0
        for key in (a, b):
            if key in _INTEGER_KEYS:
                self.integer_symbols.add(key)
        ia, ib = self._index(a), self._index(b)
        self._apply_integrality()
        if not self.orders:
            raise Undecided("order facts are inconsistent")
        signs = sorted({(o[ia] > o[ib]) - (o[ia] < o[ib]) for o in self.orders})
        if len(signs) == 1:
            return signs[0]
        sign = self.chooser.choose(("order", a, b), signs)
        self.orders = [o for o in self.orders if ((o[ia] > o[ib]) - (o[ia] < o[ib])) == sign]
        self.facts.append((a, {-1: "<", 0: "==", 1: ">"}[sign], b))
        return sign


_INTEGER_KEYS = set()


def _order_key(value):
    if isinstance(value, Sym):
        if value.integer:
            _INTEGER_KEYS.add(("s", value.key()))
        return ("s", value.key())
    if isinstance(value, bool):
        raise Undecided("ordering comparison on bool")
    if isinstance(value, int):
        return ("c", value)
    raise Undecided("ordering comparison on %r" % (value,))


# ------------------------------------------------------------------------------- externals
_SAFE_MODULE_CONSTANTS = {
    "token": _token,
    "tokenize": _tokenize,
    "csv": _csv,
    "string": _string,
    "re": _re,
}

BUILTIN_EXCEPTIONS = {
    name: obj
    for name, obj in vars(__import__("builtins")).items()
    if isinstance(obj, type) and issubclass(obj, BaseException)
}


def _stdlib_exception(name):
    import decimal
    import zipfile

    table = {
        "decimal.DecimalException": decimal.DecimalException,
        "decimal.InvalidOperation": decimal.InvalidOperation,
        "tokenize.TokenError": _tokenize.TokenError,
        "csv.Error": _csv.Error,
        "re.error": _re.error,
        "zipfile.BadZipFile": zipfile.BadZipFile,
    }
    if name.startswith("builtins."):
        return BUILTIN_EXCEPTIONS.get(name[len("builtins.") :])
    return table.get(name)


class Interp:
    MAX_LOOP = 64
    MAX_DEPTH = 24

    def __init__(self, model, chooser, stubs=None, externals=None, trace_calls=False):
        self.model = model
        self.chooser = chooser
        self.order = OrderStore(chooser)
        self.stubs = dict(stubs or {})  # repo qualname -> handler(interp, args, kwargs)
        self.externals = dict(externals or {})  # dotted external name -> handler(interp, args, kwargs)
        self.events = []
        self.assumptions = []
        self.depth = 0
        self.module_globals = {}  # module name -> dict
        self._global_in_progress = set()
        self.steps = 0
        self.max_steps = 400000
        self.handled_exception = []  # stack of exceptions being handled (for bare raise)

    # ------------------------------------------------------------ events
    def event(self, *payload):
        self.events.append(tuple(payload))

    # ------------------------------------------------------------ exceptions of the interpreted program
    def make_exception(self, cls_name, *args):
        cls = self.model.classes.get(cls_name)
        if cls is not None:
            return self.instantiate(ClassRef(cls), list(args), {})
        return Obj(cls_name, {"args": tuple(args)})

    def raise_(self, cls_name, *args):
        raise AbsRaise(self.make_exception(cls_name, *args))

    def exception_matches(self, exc_value, handler_type):
        """Does ``except handler_type`` catch ``exc_value``?"""
        if isinstance(handler_type, tuple):
            return any(self.exception_matches(exc_value, t) for t in handler_type)
        exc_cls = exc_value.cls
        if isinstance(handler_type, ClassRef):
            if isinstance(exc_cls, ClassInfo):
                return self.model.is_subclass(exc_cls, handler_type.info)
            return False
        if isinstance(handler_type, ExtRef):
            want = handler_type.name
            names = []
            if isinstance(exc_cls, ClassInfo):
                names = list(self.model.external_bases(exc_cls))
            else:
                names = [exc_cls]
            for name in names:
                if name == want:
                    return True
                a, b = _stdlib_exception(name), _stdlib_exception(want)
                if a is not None and b is not None and issubclass(a, b):
                    return True
                if b is not None and a is None and b in (Exception, BaseException):
                    return True
            return False
        raise Undecided("unsupported exception handler type %r" % (handler_type,))

    # ------------------------------------------------------------ globals
    def global_lookup(self, module, name):
        cache = self.module_globals.setdefault(module.name, {})
        if name in cache:
            return cache[name]
        value = self._compute_global(module, name)
        cache[name] = value
        return value

    def _compute_global(self, module, name):
        if name in module.classes:
            return ClassRef(module.classes[name])
        if name in module.functions:
            return FuncRef(module.functions[name])
        if name in module.assigns:
            key = (module.name, name)
            if key in self._global_in_progress:
                raise Undecided("recursive module constant %s.%s" % key)
            self._global_in_progress.add(key)
            try:
                frame = Frame(None, module)
                value = None
                for expr in module.assigns[name]:
                    value = self.eval(expr, frame)
                return value
            finally:
                self._global_in_progress.discard(key)
        if name in module.imports:
            return self._import_value(module.imports[name])
        return self._builtin(name)

    def _import_value(self, target):
        if target in self.model.modules:
            return ModuleRef(target, self.model.modules[target])
        module_name, _, attr = target.rpartition(".")
        if module_name in self.model.modules:
            return self.global_lookup(self.model.modules[module_name], attr)
        return ModuleRef(target, None)

    def _builtin(self, name):
        if name in ("None", "True", "False"):
            return {"None": None, "True": True, "False": False}[name]
        if name == "__debug__":
            return True
        if name in BUILTIN_EXCEPTIONS or name in ("object",):
            return ExtRef("builtins." + name)
        if name in _BUILTIN_FUNCTIONS or ("builtins." + name) in self.externals:
            return ExtRef("builtins." + name)
        raise Undecided("unknown global name %r" % name)

    # ------------------------------------------------------------ calls
    def call(self, func, args, kwargs=None, node=None):
        kwargs = kwargs or {}
        self.depth += 1
        try:
            if self.depth > self.MAX_DEPTH:
                raise Undecided("call depth exceeded")
            return self._call(func, args, kwargs, node)
        finally:
            self.depth -= 1

    def _call(self, func, args, kwargs, node):
        if isinstance(func, FuncRef):
            return self.call_function(func.info, args, kwargs, func.closure)
        if isinstance(func, BoundMethod):
            return self.call_function(func.info, [func.self_value] + list(args), kwargs, None)
        if isinstance(func, ClassRef):
            return self.instantiate(func, args, kwargs)
        if isinstance(func, NativeMethod):
            return self.call_native_method(func.receiver, func.name, args, kwargs)
        if isinstance(func, LambdaRef):
            frame = Frame(None, func.frame.module, func.frame)
            params = [a.arg for a in func.node.args.args]
            if len(params) != len(args) or kwargs:
                raise Undecided("lambda call arity")
            frame.locals.update(zip(params, args))
            return self.eval(func.node.body, frame)
        if isinstance(func, ExtRef):
            handler = self.externals.get(func.name) or _DEFAULT_EXTERNALS.get(func.name)
            if handler is None:
                if _stdlib_exception(func.name) is not None:
                    return Obj(func.name, {"args": tuple(args)})
                raise Undecided("call of unmodelled external %s" % func.name)
            return handler(self, list(args), dict(kwargs))
        if callable(func) and getattr(func, "_absint_stub", False):
            return func(self, list(args), dict(kwargs))
        if isinstance(func, ModuleRef) and func.info is None:
            # ``from contextlib import closing``: a name imported from a module outside the repository
            return self._call(ExtRef(func.name), args, kwargs, node)
        raise Undecided("call of non-callable %r" % (func,))

    def call_function(self, info, args, kwargs, closure):
        stub = self.stubs.get(info.qualname)
        if stub is not None:
            return stub(self, list(args), dict(kwargs))
        frame = Frame(info, info.module, closure)
        self.bind_arguments(info, frame, args, kwargs)
        if info.is_generator:
            return GenVal(self._run_generator(info, frame), info.qualname)
        return self._run_function(info, frame)

    def _run_function(self, info, frame):
        try:
            for _ in self.exec_block(info.node.body, frame):
                raise Undecided("yield in non-generator %s" % info.qualname)
        except _Return as returned:
            return returned.value
        return None

    def _run_generator(self, info, frame):
        try:
            yield from self.exec_block(info.node.body, frame)
        except _Return:
            return

    def bind_arguments(self, info, frame, args, kwargs):
        arguments = info.node.args
        params = [a.arg for a in arguments.posonlyargs + arguments.args]
        defaults = arguments.defaults
        values = {}
        args = list(args)
        if len(args) > len(params) and arguments.vararg is None:
            raise Undecided("too many positional arguments for %s" % info.qualname)
        for name, value in zip(params, args):
            values[name] = value
        if arguments.vararg is not None:
            values[arguments.vararg.arg] = tuple(args[len(params) :])
        extra_keywords = {}
        for name, value in kwargs.items():
            if name in values:
                raise Undecided("duplicate argument %s for %s" % (name, info.qualname))
            if name not in params and name not in [a.arg for a in arguments.kwonlyargs]:
                if arguments.kwarg is None:
                    raise Undecided("unexpected keyword %s for %s" % (name, info.qualname))
                extra_keywords[name] = value
                continue
            values[name] = value
        if arguments.kwarg is not None:
            values[arguments.kwarg.arg] = extra_keywords
        default_frame = Frame(None, info.module, frame.parent)
        first_default = len(params) - len(defaults)
        for index, name in enumerate(params):
            if name not in values:
                if index >= first_default:
                    values[name] = self.eval(defaults[index - first_default], default_frame)
                else:
                    raise Undecided("missing argument %s for %s" % (name, info.qualname))
        for kwarg, default in zip(arguments.kwonlyargs, arguments.kw_defaults):
            if kwarg.arg not in values:
                if default is None:
                    raise Undecided("missing keyword-only argument %s" % kwarg.arg)
                values[kwarg.arg] = self.eval(default, default_frame)
        frame.locals.update(values)

    def instantiate(self, class_ref, args, kwargs):
        cls = class_ref.info
        stub = self.stubs.get(cls.qualname)
        if stub is not None:
            return stub(self, list(args), dict(kwargs))
        obj = Obj(cls)
        init = self.model.lookup_method(cls, "__init__")
        if init is not None:
            self.call_function(init, [obj] + list(args), kwargs, None)
            obj.complete = True
        else:
            obj.attrs["args"] = tuple(args)
        return obj

    def eval_class_assign(self, klass, expr, depth=0):
        """Evaluate a class-level assignment; names of other class-level assignments are resolved first."""
        if depth > 5:
            raise Undecided("class attribute recursion")
        frame = Frame(None, klass.module)
        for inner in ast.walk(expr):
            if isinstance(inner, ast.Name) and inner.id in klass.class_assigns and klass.class_assigns[inner.id] is not expr:
                frame.locals[inner.id] = self.eval_class_assign(klass, klass.class_assigns[inner.id], depth + 1)
            elif isinstance(inner, ast.Name) and inner.id in klass.methods:
                frame.locals[inner.id] = FuncRef(klass.methods[inner.id])  # the plain function, as in the class body
        return self.eval(expr, frame)

    # ------------------------------------------------------------ attribute access
    def getattr(self, value, name, node=None):
        if isinstance(value, Obj):
            if name == "__dict__":
                return value.attrs
            if name == "__class__":
                return ClassRef(value.cls) if isinstance(value.cls, ClassInfo) else ExtRef(value.cls)
            if isinstance(value.cls, ClassInfo):
                prop = self.model.lookup_property(value.cls, name)
                if prop is not None:
                    getter = prop[0]
                    if getter is None:
                        raise Undecided("property %s without getter" % name)
                    return self.call_function(getter, [value], {}, None)
                if name in value.attrs:
                    return value.attrs[name]
                method = self.model.lookup_method(value.cls, name)
                if method is not None:
                    if method.is_static:
                        return FuncRef(method)
                    return BoundMethod(value, method)
                found = self.model.lookup_class_assign(value.cls, name)
                if found is not None:
                    klass, expr = found
                    return self.eval_class_assign(klass, expr)
                if value.complete:
                    self.raise_("builtins.AttributeError", name)
                raise Undecided("attribute %s of %r not modelled" % (name, value))
            if name in value.attrs:
                return value.attrs[name]
            hook = self.externals.get("attr:" + value.cls + "." + name)
            if hook is not None:
                return hook(self, [value], {})
            raise Undecided("attribute %s of external object %r" % (name, value))
        if isinstance(value, ModuleRef):
            if value.info is not None:
                return self.global_lookup(value.info, name)
            if value.name in _SAFE_MODULE_CONSTANTS:
                native = getattr(_SAFE_MODULE_CONSTANTS[value.name], name, None)
                if isinstance(native, (int, str, tuple, frozenset)) and not isinstance(native, bool):
                    return native
            if value.name == "sys" and name == "maxsize":
                return 2 ** 63 - 1  # round 11: "the largest machine integer" used as a stand-in for "no limit"
            return ExtRef(value.name + "." + name)
        if isinstance(value, ClassRef):
            cls = value.info
            if name == "__name__":
                return cls.name
            if name == "__new__":
                def construct_bare(interp, args, kwargs, cls=cls):
                    target = args[0].info if args and isinstance(args[0], ClassRef) else cls
                    stub_ = interp.stubs.get(target.qualname + ".__new__")
                    if stub_ is not None:
                        return stub_(interp, list(args), dict(kwargs))
                    return Obj(target)

                construct_bare._absint_stub = True
                return construct_bare
            method = self.model.lookup_method(cls, name)
            if method is not None:
                return FuncRef(method)
            found = self.model.lookup_class_assign(cls, name)
            if found is not None:
                klass, expr = found
                return self.eval_class_assign(klass, expr)
            raise Undecided("class attribute %s.%s not modelled" % (cls.qualname, name))
        if isinstance(value, ExtRef):
            if name == "__name__":
                return value.name.rsplit(".", 1)[-1]
            if value.name == "sys" and name == "maxsize":
                return 2 ** 63 - 1  # round 11: "the largest machine integer" used as a stand-in for "no limit"
            return ExtRef(value.name + "." + name)
        if isinstance(value, SuperRef):
            mro = self.model.mro(value.self_value.cls)
            index = mro.index(value.after_cls)
            for klass in mro[index + 1 :]:
                if name in klass.methods:
                    return BoundMethod(value.self_value, klass.methods[name])
            return ExtRef("super-builtin." + name)
        if isinstance(value, Abstract) and name in getattr(value, "methods", {}):
            return value.methods[name]
        if isinstance(value, (ReObj, _MatchObj)):
            return NativeMethod(value, name)
        if isinstance(value, AText):
            return NativeMethod(value, name)
        if isinstance(value, (str, list, dict, tuple, set, frozenset)):
            if not hasattr(value, name):
                self.raise_("builtins.AttributeError", "%r object has no attribute %r" % (type(value).__name__, name))
            if isinstance(value, tuple) and name in getattr(type(value), "_fields", ()):
                return getattr(value, name)  # a field of a named tuple
            return NativeMethod(value, name)
        if isinstance(value, (int, float)) and not isinstance(value, bool) and name in _NATIVE_METHODS.get(type(value).__name__, ()):
            return NativeMethod(value, name)
        if isinstance(value, bytes) and name in _NATIVE_METHODS["bytes"]:
            return NativeMethod(value, name)
        if isinstance(value, GenVal) and name == "close":
            return NativeMethod(value, name)
        if isinstance(value, Opaque):
            return NativeMethod(value, name)
        hook = self.externals.get("getattr")
        if hook is not None:
            return hook(self, [value, name], {})
        if isinstance(value, type(compile("0", "<x>", "eval"))) and name.startswith("co_"):
            return getattr(value, name)  # a code object made by compile() of a concrete text
        if value is None or isinstance(value, (bool, int, float, bytes)):
            if not hasattr(value, name):
                self.raise_("builtins.AttributeError", "%r object has no attribute %r" % (type(value).__name__, name))
        if isinstance(value, str) and not hasattr(value, name):
            self.raise_("builtins.AttributeError", "'str' object has no attribute %r" % (name,))
        raise Undecided("attribute %s of %r" % (name, value))

    def setattr(self, target, name, value):
        if isinstance(target, Obj):
            if isinstance(target.cls, ClassInfo):
                prop = self.model.lookup_property(target.cls, name)
                if prop is not None:
                    setter = prop[1]
                    if setter is None:
                        raise Undecided("assignment to read-only property %s" % name)
                    self.call_function(setter, [target, value], {}, None)
                    return
            target.attrs[name] = value
            return
        raise Undecided("attribute store on %r" % (target,))

    # ------------------------------------------------------------ native methods on concrete containers / texts
    def call_native_method(self, receiver, name, args, kwargs):
        if isinstance(receiver, AText):
            return _atext_method(self, receiver, name, args)
        if isinstance(receiver, ReObj):
            return _re_method(self, receiver, name, args)
        if isinstance(receiver, _MatchObj):
            if name == "group" and all(_is_int(a) for a in args):
                return receiver.match.group(*args)
            raise Undecided("match method %s" % name)
        if isinstance(receiver, GenVal) and name == "close":
            receiver.pygen.close()
            receiver.done = True
            return None
        if isinstance(receiver, Opaque):
            if name in ("lower", "upper", "strip", "replace", "format", "rstrip", "lstrip", "join"):
                return Opaque(receiver.tag, receiver.truthy if name in ("lower", "upper") else None)
            raise Undecided("method %s on opaque value" % name)
        allowed = _NATIVE_METHODS.get(type(receiver).__name__, ())
        if name not in allowed:
            raise Undecided("native method %s.%s not whitelisted" % (type(receiver).__name__, name))
        if isinstance(receiver, str):
            if any(isinstance(a, Abstract) for a in args):
                if name == "join":
                    return Opaque("str")
                if name in ("replace", "startswith", "endswith", "split"):
                    raise Undecided("str.%s with abstract argument" % name)
            if name == "join":
                items = list(self.iterate(args[0]))
                if any(not isinstance(i, str) for i in items):
                    parts = []
                    for position, item in enumerate(items):
                        if position and receiver:
                            parts.append(receiver)
                        parts.extend(_fragments(item))
                    truthy = None
                    if (receiver and len(items) > 1) or any(
                            isinstance(i, Atom) or (isinstance(i, str) and i) or (isinstance(i, Opaque) and i.truthy) for i in items):
                        truthy = True
                    return Opaque("str", truthy, parts)
                return receiver.join(items)
        if name == "index" and isinstance(receiver, (list, tuple)):
            for position, item in enumerate(receiver):
                if self.eq(item, args[0]):
                    return position
            self.raise_("builtins.ValueError", "not in list")
        if isinstance(receiver, dict) and name == "get":
            key = args[0]
            default = args[1] if len(args) > 1 else None
            return self.dict_get(receiver, key, default)
        if name in ("extend",) and isinstance(receiver, list):
            receiver.extend(list(self.iterate(args[0])))
            return None
        try:
            return getattr(receiver, name)(*args, **kwargs)
        except Undecided:
            raise
        except (ValueError, LookupError, TypeError, AttributeError) as error:
            name = type(error).__name__ if type(error).__module__ == "builtins" else "ValueError"
            self.raise_("builtins." + name, str(error))

    def dict_get(self, mapping, key, default=None):
        self._check_hashable(key)
        for existing, value in mapping.items():
            if self.eq(existing, key):
                return value
        return default

    def _check_hashable(self, key):
        if isinstance(key, tuple):
            for item in key:
                self._check_hashable(item)
        elif isinstance(key, Opaque) and key.tag == "str" and key.parts and "composed_text_eq" in self.externals:
            return  # the table decides equality of composed texts (hook composed_text_eq)
        elif isinstance(key, Abstract) and not isinstance(key, Atom):
            raise Undecided("abstract dictionary key %r" % (key,))

    # ------------------------------------------------------------ truth, equality, order
    def truth(self, value):
        if isinstance(value, Opaque):
            if value.truthy is not None:
                return value.truthy
            raise Undecided("branch on opaque value %r" % (value,))
        if isinstance(value, AText):
            return value.kind != AText.EMPTY
        if isinstance(value, Atom):
            return True
        if isinstance(value, RInt):
            return value.value != 0  # a comparison with the constant 0
        if isinstance(value, Sym):
            return self.order.sign(_order_key(value), ("c", 0)) != 0
        if isinstance(value, (Obj, FuncRef, BoundMethod, ClassRef, ExtRef, ModuleRef, GenVal, AbsIter)):
            if isinstance(value, Obj) and isinstance(value.cls, ClassInfo):
                if self.model.lookup_method(value.cls, "__bool__") or self.model.lookup_method(value.cls, "__len__"):
                    raise Undecided("object with __bool__/__len__")
            return True
        return bool(value)

    def eq(self, a, b):
        if a is b:
            return True
        if a is None or b is None:
            return False
        if isinstance(a, Opaque) and isinstance(b, Opaque) and a.parts and b.parts and "composed_text_eq" in self.externals:
            return self.externals["composed_text_eq"](self, [a, b], {})
        if isinstance(a, Opaque) or isinstance(b, Opaque):
            opaque, other = (a, b) if isinstance(a, Opaque) else (b, a)
            if opaque.tag == "str" and isinstance(other, str) and other == "" and opaque.truthy is not None:
                return not opaque.truthy  # a text known to be non-empty differs from "", one known to be empty equals it
            raise Undecided("equality on opaque value (%r == %r)" % (a, b))
        if isinstance(a, (Sym,)) or isinstance(b, (Sym,)):
            if isinstance(a, (Sym, int)) and isinstance(b, (Sym, int)) and not isinstance(a, bool) and not isinstance(b, bool):
                return self.order.sign(_order_key(a), _order_key(b)) == 0
            return False
        if isinstance(a, RInt) or isinstance(b, RInt):
            av = a.value if isinstance(a, RInt) else a
            bv = b.value if isinstance(b, RInt) else b
            if isinstance(av, int) and isinstance(bv, int):
                return av == bv
            return False
        if isinstance(a, AText) or isinstance(b, AText):
            text, other = (a, b) if isinstance(a, AText) else (b, a)
            first_hook = self.externals.get("text_eq")
            if first_hook is not None and getattr(text, "custom_eq", False):
                return first_hook(self, [text, other], {})
            if isinstance(other, str):
                if other == "":
                    return text.kind == AText.EMPTY
                if other.strip() == "" and text.kind == AText.TEXT:
                    return False
                if text.kind == AText.EMPTY:
                    return False
                hook = self.externals.get("text_eq")
                if hook is not None:
                    return hook(self, [text, other], {})
                raise Undecided("comparison of abstract text with %r" % other)
            if isinstance(other, AText):
                if text.kind != other.kind:
                    return False
                if text.kind == AText.EMPTY:
                    return True
                hook = self.externals.get("text_eq")
                if hook is not None:
                    return hook(self, [text, other], {})
                raise Undecided("comparison of two abstract texts")
            return False
        if isinstance(a, Atom) or isinstance(b, Atom):
            if isinstance(a, Atom) and isinstance(b, Atom):
                return a.klass == b.klass
            return False
        if isinstance(a, (tuple, list)) and isinstance(b, (tuple, list)):
            if type(a) is not type(b) or len(a) != len(b):
                return False
            return all(self.eq(x, y) for x, y in zip(a, b))
        if isinstance(a, (Obj, FuncRef, ClassRef, BoundMethod, ModuleRef)) or isinstance(
            b, (Obj, FuncRef, ClassRef, BoundMethod, ModuleRef)
        ):
            if isinstance(a, ClassRef) and isinstance(b, ClassRef):
                return a.info is b.info
            return False
        return a == b

    def compare(self, op, a, b):
        if isinstance(op, ast.Eq):
            return self.eq(a, b)
        if isinstance(op, ast.NotEq):
            return not self.eq(a, b)
        if isinstance(op, ast.Is):
            if isinstance(a, ClassRef) and isinstance(b, ClassRef):
                return a.info is b.info  # a class is one object however often it is looked up
            if isinstance(a, ExtRef) and isinstance(b, ExtRef):
                return a.name == b.name
            if isinstance(a, FuncRef) and isinstance(b, FuncRef):
                return a.info is b.info and a.closure is b.closure if hasattr(a, "closure") else a.info is b.info
            if isinstance(a, Abstract) or isinstance(b, Abstract):
                return a is b
            return a is b or (type(a) in (bool, type(None)) and a is b)
        if isinstance(op, ast.IsNot):
            return not self.compare(ast.Is(), a, b)
        if isinstance(op, ast.In):
            return self.contains(b, a)
        if isinstance(op, ast.NotIn):
            return not self.contains(b, a)
        # ordering
        if isinstance(a, Opaque) or isinstance(b, Opaque):
            raise Undecided("ordering on opaque value")
        if isinstance(a, RInt) or isinstance(b, RInt):
            av = a.value if isinstance(a, RInt) else a
            bv = b.value if isinstance(b, RInt) else b
            if not (_is_int(av) and _is_int(bv)):
                if av is None or bv is None:
                    self.raise_("builtins.TypeError", "ordering with None")
                raise Undecided("region comparison with %r / %r" % (a, b))
            return _ORDER_OPS[type(op)](av, bv)
        if isinstance(a, Sym) or isinstance(b, Sym):
            if a is None or b is None:
                self.raise_("builtins.TypeError", "ordering with None")
            sign = self.order.sign(_order_key(a), _order_key(b))
            return _ORDER_OPS[type(op)](sign, 0)
        if a is None or b is None:
            self.raise_("builtins.TypeError", "ordering with None")
        if isinstance(a, Abstract) or isinstance(b, Abstract):
            raise Undecided("ordering on %r / %r" % (a, b))
        try:
            return _ORDER_OPS[type(op)](a, b)
        except TypeError as error:
            self.raise_("builtins.TypeError", str(error))

    def contains(self, container, item):
        if isinstance(container, dict):
            self._check_hashable(item)
            return any(self.eq(key, item) for key in container)
        if isinstance(container, (list, tuple, set, frozenset)):
            return any(self.eq(element, item) for element in container)
        if isinstance(container, str):
            if isinstance(item, str):
                return item in container
            hook = self.externals.get("in_str")
            if hook is not None:
                return hook(self, [item, container], {})
            raise Undecided("abstract item in str")
        if isinstance(container, type({}.keys())):
            return any(self.eq(key, item) for key in container)
        hook = self.externals.get("contains")
        if hook is not None:
            return hook(self, [container, item], {})
        raise Undecided("membership test on %r" % (container,))

    # ------------------------------------------------------------ iteration
    def iterate(self, value):
        if isinstance(value, (list, tuple, set, frozenset, str, range)):
            yield from list(value)
        elif isinstance(value, dict):
            yield from list(value.keys())
        elif isinstance(value, type({}.keys())) or isinstance(value, type({}.values())) or isinstance(value, type({}.items())):
            yield from list(value)
        elif isinstance(value, GenVal):
            while True:
                try:
                    item = next(value.pygen)
                except StopIteration:
                    value.done = True
                    return
                yield item
        elif isinstance(value, AbsIter):
            while True:
                item = value.next_item()
                if item is AbsIter.STOP:
                    return
                yield item
        elif isinstance(value, AText):
            if value.chars is None:
                raise Undecided("iteration over abstract text without character model")
            yield from list(value.chars)
        elif isinstance(value, (_Enumerate, _Islice, _Zip, _Iter, _Map)):
            # these are iterators: they keep their position between a for loop and next()
            if value.generator is None:
                value.generator = self._fresh_iterator(value)
            # not "yield from": leaving a for loop early closes this generator, and the iterator must survive that
            while True:
                try:
                    item = next(value.generator)
                except StopIteration:
                    return
                yield item
        else:
            hook = self.externals.get("iterate")
            if hook is not None:
                yield from hook(self, [value], {})
                return
            raise Undecided("iteration over %r" % (value,))

    def _fresh_iterator(self, value):
        if isinstance(value, _Iter):
            yield from self.iterate(value.inner)
        elif isinstance(value, _Map):
            # lazy: the function is applied when (and only when) somebody takes the items
            for item in self.iterate(value.inner):
                yield self.call(value.function, [item], {})
        elif isinstance(value, _Enumerate):
            index = value.start
            for item in self.iterate(value.inner):
                yield (index, item)
                index = self.binop(ast.Add(), index, 1)
        elif isinstance(value, _Islice):
            count = 0
            if value.limit is not None and self.compare(ast.LtE(), value.limit, 0):
                return
            for item in self.iterate(value.inner):
                if self.compare(ast.GtE(), count, value.start):
                    yield item
                count += 1
                if value.limit is not None and not self.compare(ast.Lt(), count, value.limit):
                    return
        elif isinstance(value, _Zip):
            iterators = [self.iterate(inner) for inner in value.inners]
            while True:
                row = []
                for iterator in iterators:
                    try:
                        row.append(next(iterator))
                    except StopIteration:
                        return
                yield tuple(row)

    # ------------------------------------------------------------ statements
    def exec_block(self, statements, frame):
        for statement in statements:
            yield from self.exec_stmt(statement, frame)

    def exec_stmt(self, node, frame):
        self.steps += 1
        if self.steps > self.max_steps:
            raise Undecided("step budget exceeded")
        kind = type(node)
        if kind is ast.Expr:
            if isinstance(node.value, ast.Yield):
                value = self.eval(node.value.value, frame) if node.value.value is not None else None
                yield value
            elif isinstance(node.value, ast.YieldFrom):
                for value in self.iterate(self.eval(node.value.value, frame)):
                    yield value
            elif isinstance(node.value, ast.Constant):
                pass
            else:
                self.eval(node.value, frame)
        elif kind is ast.Assign:
            value = self.eval(node.value, frame)
            for target in node.targets:
                self.assign(target, value, frame)
        elif kind is ast.AnnAssign:
            if node.value is not None:
                self.assign(node.target, self.eval(node.value, frame), frame)
        elif kind is ast.AugAssign:
            current = self.eval(_as_load(node.target), frame)
            value = self.binop(node.op, current, self.eval(node.value, frame))
            self.assign(node.target, value, frame)
        elif kind is ast.If:
            if self.truth(self.eval(node.test, frame)):
                yield from self.exec_block(node.body, frame)
            else:
                yield from self.exec_block(node.orelse, frame)
        elif kind is ast.While:
            iterations = 0
            broke = False
            while self.truth(self.eval(node.test, frame)):
                iterations += 1
                if iterations > self.MAX_LOOP:
                    raise Undecided("while loop exceeded %d iterations" % self.MAX_LOOP)
                try:
                    yield from self.exec_block(node.body, frame)
                except _Break:
                    broke = True
                    break
                except _Continue:
                    continue
            if not broke:
                yield from self.exec_block(node.orelse, frame)
        elif kind is ast.For:
            iterable = self.eval(node.iter, frame)
            broke = False
            iterations = 0
            for item in self.iterate(iterable):
                iterations += 1
                if iterations > 4 * self.MAX_LOOP:
                    raise Undecided("for loop exceeded bound")
                self.assign(node.target, item, frame)
                try:
                    yield from self.exec_block(node.body, frame)
                except _Break:
                    broke = True
                    break
                except _Continue:
                    continue
            if not broke:
                yield from self.exec_block(node.orelse, frame)
        elif kind is ast.Return:
            raise _Return(self.eval(node.value, frame) if node.value is not None else None)
        elif kind is ast.Raise:
            if node.exc is None:
                if not self.handled_exception:
                    raise Undecided("bare raise outside handler")
                raise AbsRaise(self.handled_exception[-1])
            value = self.eval(node.exc, frame)
            if isinstance(value, (ClassRef, ExtRef)):
                value = self.call(value, [], {})
            if not isinstance(value, Obj):
                raise Undecided("raise of %r" % (value,))
            raise AbsRaise(value)
        elif kind is ast.Assert:
            try:
                condition = self.truth(self.eval(node.test, frame))
            except Undecided as error:
                self.assumptions.append("assert assumed: %s (%s)" % (ast.unparse(node.test), error))
                condition = True
            if not condition:
                self.raise_("builtins.AssertionError", Opaque("assert:" + ast.unparse(node.test)))
        elif kind is ast.Pass:
            pass
        elif kind is ast.Break:
            raise _Break()
        elif kind is ast.Continue:
            raise _Continue()
        elif kind is ast.Try:
            yield from self.exec_try(node, frame)
        elif kind is ast.With:
            yield from self.exec_with(node, 0, frame)
        elif kind is ast.FunctionDef:
            info = self.model.functions.get(frame.info.qualname.replace("@setter", "") + "." + node.name) if frame.info else None
            if info is None:
                info = FuncInfo((frame.info.qualname if frame.info else "?") + "." + node.name, node, frame.module, None, frame.info)
            frame.locals[node.name] = FuncRef(info, frame)
        elif kind is ast.Nonlocal:
            frame.nonlocals.update(node.names)
        elif kind in (ast.Import, ast.ImportFrom, ast.Global):
            raise Undecided("statement %s inside function" % kind.__name__)
        elif kind is ast.Delete:
            for target in node.targets:
                if isinstance(target, ast.Subscript):
                    container = self.eval(target.value, frame)
                    index = self.eval_index(target.slice, frame)
                    if isinstance(container, (list, dict)):
                        try:
                            del container[index]
                        except (IndexError, KeyError) as error:
                            self.raise_("builtins." + type(error).__name__, str(error))
                    else:
                        raise Undecided("del on %r" % (container,))
                else:
                    raise Undecided("del of %s" % ast.unparse(target))
        else:
            raise Undecided("statement %s not supported" % kind.__name__)

    def exec_try(self, node, frame):
        try:
            try:
                yield from self.exec_block(node.body, frame)
            except AbsRaise as raised:
                handled = False
                for handler in node.handlers:
                    if handler.type is None:
                        matches = True
                    else:
                        matches = self.exception_matches(raised.value, self.eval_handler_type(handler.type, frame))
                    if matches:
                        handled = True
                        if handler.name:
                            frame.locals[handler.name] = raised.value
                        self.handled_exception.append(raised.value)
                        try:
                            yield from self.exec_block(handler.body, frame)
                        finally:
                            self.handled_exception.pop()
                        break
                if not handled:
                    raise
            else:
                yield from self.exec_block(node.orelse, frame)
        finally:
            # NOTE: a ``finally`` of the interpreted program also runs when the interpreter unwinds
            # with _Return/_Break/_Continue/AbsRaise - which is Python's semantics as well.
            if node.finalbody:
                for _ in self.exec_block(node.finalbody, frame):
                    raise Undecided("yield inside finally")

    def eval_handler_type(self, expr, frame):
        value = self.eval(expr, frame)
        if isinstance(value, tuple):
            return tuple(value)
        return value

    def exec_with(self, node, index, frame):
        if index >= len(node.items):
            yield from self.exec_block(node.body, frame)
            return
        item = node.items[index]
        manager = self.eval(item.context_expr, frame)
        enter_value, exit_call = self.enter_context(manager)
        if item.optional_vars is not None:
            self.assign(item.optional_vars, enter_value, frame)
        try:
            yield from self.exec_with(node, index + 1, frame)
        except AbsRaise as raised:
            suppressed = exit_call(raised.value)
            if not (suppressed is True):
                raise
        except (_Return, _Break, _Continue, GeneratorExit):
            exit_call(None)
            raise
        else:
            exit_call(None)

    def enter_context(self, manager):
        if isinstance(manager, Obj) and isinstance(manager.cls, ClassInfo):
            enter = self.model.lookup_method(manager.cls, "__enter__")
            exit_ = self.model.lookup_method(manager.cls, "__exit__")
            if enter is None or exit_ is None:
                raise Undecided("with on %r without __enter__/__exit__" % (manager,))
            value = self.call_function(enter, [manager], {}, None)

            def exit_call(exc):
                exc_type = None
                if exc is not None:
                    exc_type = ClassRef(exc.cls) if isinstance(exc.cls, ClassInfo) else ExtRef(exc.cls)
                return self.call_function(exit_, [manager, exc_type, exc, None], {}, None)

            return value, exit_call
        hook = self.externals.get("with")
        if hook is not None:
            return hook(self, [manager], {})
        raise Undecided("with statement on %r" % (manager,))

    # ------------------------------------------------------------ assignment
    def assign(self, target, value, frame):
        if isinstance(target, ast.Name):
            if target.id in frame.nonlocals:
                owner = frame.parent
                while owner is not None and target.id not in owner.locals:
                    owner = owner.parent
                if owner is None:
                    raise Undecided("nonlocal %s is not bound in an enclosing function" % target.id)
                owner.locals[target.id] = value
            else:
                frame.locals[target.id] = value
        elif isinstance(target, ast.Attribute):
            self.setattr(self.eval(target.value, frame), target.attr, value)
        elif isinstance(target, ast.Subscript):
            container = self.eval(target.value, frame)
            index = self.eval_index(target.slice, frame)
            if isinstance(container, dict):
                self._check_hashable(index)
                for existing in list(container.keys()):
                    if self.eq(existing, index):
                        container[existing] = value
                        return
                container[index] = value
            elif isinstance(container, list):
                if not _is_int(index):
                    raise Undecided("list store with abstract index")
                try:
                    container[index] = value
                except IndexError as error:
                    self.raise_("builtins.IndexError", str(error))
            else:
                raise Undecided("subscript store on %r" % (container,))
        elif isinstance(target, (ast.Tuple, ast.List)):
            items = list(self.iterate(value)) if not isinstance(value, (tuple, list)) else list(value)
            if any(isinstance(element, ast.Starred) for element in target.elts):
                raise Undecided("starred assignment")
            if len(items) != len(target.elts):
                self.raise_("builtins.ValueError", "unpack %d into %d" % (len(items), len(target.elts)))
            for element, item in zip(target.elts, items):
                self.assign(element, item, frame)
        else:
            raise Undecided("assignment target %s" % type(target).__name__)

    # ------------------------------------------------------------ expressions
    def lookup(self, name, frame):
        current = frame
        while current is not None:
            if name in current.locals:
                return current.locals[name]
            if current.info is not None and _is_local_name(current.info, name):
                self.raise_("builtins.UnboundLocalError", name)
            current = current.parent
        return self.global_lookup(frame.module, name)

    def eval(self, node, frame):
        kind = type(node)
        if kind is ast.Constant:
            return node.value
        if kind is ast.Name:
            return self.lookup(node.id, frame)
        if kind is ast.Attribute:
            return self.getattr(self.eval(node.value, frame), node.attr, node)
        if kind is ast.Call:
            return self.eval_call(node, frame)
        if kind is ast.Compare:
            left = self.eval(node.left, frame)
            for op, comparator in zip(node.ops, node.comparators):
                right = self.eval(comparator, frame)
                if not self.compare(op, left, right):
                    return False
                left = right
            return True
        if kind is ast.BoolOp:
            value = None
            for operand in node.values:
                value = self.eval(operand, frame)
                truth = self.truth(value)
                if isinstance(node.op, ast.And) and not truth:
                    return value
                if isinstance(node.op, ast.Or) and truth:
                    return value
            return value
        if kind is ast.UnaryOp:
            operand = self.eval(node.operand, frame)
            if isinstance(node.op, ast.Not):
                return not self.truth(operand)
            if isinstance(node.op, ast.USub):
                return self.negate(operand)
            if isinstance(node.op, ast.UAdd):
                return operand
            raise Undecided("unary operator %s" % type(node.op).__name__)
        if kind is ast.BinOp:
            return self.binop(node.op, self.eval(node.left, frame), self.eval(node.right, frame))
        if kind is ast.IfExp:
            if self.truth(self.eval(node.test, frame)):
                return self.eval(node.body, frame)
            return self.eval(node.orelse, frame)
        if kind is ast.Tuple:
            return tuple(self.eval_elements(node.elts, frame))
        if kind is ast.List:
            return list(self.eval_elements(node.elts, frame))
        if kind is ast.Set:
            return set(self.eval_elements(node.elts, frame))
        if kind is ast.Dict:
            result = {}
            for key_node, value_node in zip(node.keys, node.values):
                if key_node is None:
                    raise Undecided("dict unpacking")
                result[self.eval(key_node, frame)] = self.eval(value_node, frame)
            return result
        if kind is ast.Subscript:
            container = self.eval(node.value, frame)
            return self.subscript(container, node.slice, frame)
        if kind is ast.JoinedStr:
            return Opaque("str", True if any(isinstance(v, ast.Constant) and v.value for v in node.values) else None)
        if kind is ast.GeneratorExp:
            # lazy, like the real thing: all(f(x) for x in xs) stops calling f at the first false result
            lazy = _Iter(None)
            lazy.generator = self.eval_comprehension(node, frame)
            return lazy
        if kind in (ast.ListComp, ast.SetComp):
            items = list(self.eval_comprehension(node, frame))
            if kind is ast.SetComp:
                return set(items)
            return items
        if kind is ast.DictComp:
            result = {}
            pair = ast.Tuple(elts=[node.key, node.value], ctx=ast.Load())
            shim = ast.ListComp(elt=pair, generators=node.generators)
            ast.copy_location(shim, node)
            ast.fix_missing_locations(shim)
            for key, value in self.eval_comprehension(shim, frame):
                self._check_hashable(key)
                for existing in list(result.keys()):
                    if self.eq(existing, key):
                        result[existing] = value
                        break
                else:
                    result[key] = value
            return result
        if kind is ast.Lambda:
            return LambdaRef(node, frame)
        if kind is ast.Starred:
            raise Undecided("starred expression")
        raise Undecided("expression %s not supported" % kind.__name__)

    def eval_elements(self, elements, frame):
        for element in elements:
            if isinstance(element, ast.Starred):
                yield from self.iterate(self.eval(element.value, frame))
            else:
                yield self.eval(element, frame)

    def eval_comprehension(self, node, frame):
        inner = Frame(frame.info, frame.module, frame)
        inner.locals = dict()

        def generate(index):
            if index >= len(node.generators):
                yield self.eval(node.elt, inner)
                return
            comp = node.generators[index]
            for item in self.iterate(self.eval(comp.iter, inner if index else frame)):
                self.assign(comp.target, item, inner)
                if all(self.truth(self.eval(condition, inner)) for condition in comp.ifs):
                    yield from generate(index + 1)

        # comprehension scope: names fall through to the enclosing frame
        inner.info = None
        return generate(0)

    def eval_index(self, node, frame):
        if isinstance(node, ast.Slice):
            lower = self.eval(node.lower, frame) if node.lower is not None else None
            upper = self.eval(node.upper, frame) if node.upper is not None else None
            step = self.eval(node.step, frame) if node.step is not None else None
            return slice(lower, upper, step)
        return self.eval(node, frame)

    def subscript(self, container, slice_node, frame):
        index = self.eval_index(slice_node, frame)
        if isinstance(container, dict):
            self._check_hashable(index)
            for key, value in container.items():
                if self.eq(key, index):
                    return value
            self.raise_("builtins.KeyError", index if not isinstance(index, Abstract) else Opaque("key"))
        if isinstance(container, (list, tuple, str)):
            if isinstance(index, slice):
                if not all(part is None or _is_int(part) for part in (index.start, index.stop, index.step)):
                    raise Undecided("slice with abstract bounds")
                return container[index]
            if not _is_int(index):
                raise Undecided("abstract index %r into concrete sequence" % (index,))
            try:
                return container[index]
            except IndexError as error:
                self.raise_("builtins.IndexError", str(error))
        if isinstance(container, AText):
            hook = self.externals.get("text_subscript")
            if hook is not None:
                return hook(self, [container, index], {})
            raise Undecided("subscript of abstract text")
        hook = self.externals.get("subscript")
        if hook is not None:
            return hook(self, [container, index], {})
        raise Undecided("subscript of %r" % (container,))

    def negate(self, operand):
        if isinstance(operand, Sym):
            return Sym(operand.name, not operand.neg)
        if isinstance(operand, RInt):
            return RInt(-operand.value)
        if isinstance(operand, Abstract):
            raise Undecided("negation of %r" % (operand,))
        return -operand

    def binop(self, op, left, right):
        hook = self.externals.get("binop")
        if hook is not None:
            result = hook(self, [op, left, right], {})
            if result is not NotImplemented:
                return result
        if isinstance(left, RInt) or isinstance(right, RInt):
            lv = left.value if isinstance(left, RInt) else left
            rv = right.value if isinstance(right, RInt) else right
            if _is_int(lv) and _is_int(rv):
                if isinstance(op, ast.Add):
                    return RInt(lv + rv)
                if isinstance(op, ast.Sub):
                    return RInt(lv - rv)
                if isinstance(op, ast.Mult) and (lv in (1, -1) and not isinstance(left, RInt) or rv in (1, -1) and not isinstance(right, RInt)):
                    return RInt(lv * rv)
                raise Undecided("operator %s leaves the region domain" % type(op).__name__)
            if isinstance(op, ast.Mod) and isinstance(lv, str):
                return Opaque("str", True, _fragments(left) + _fragments(right))
            raise Undecided("region arithmetic with %r, %r" % (left, right))
        if isinstance(left, Sym) or isinstance(right, Sym):
            if isinstance(op, ast.Mult):
                sym, other = (left, right) if isinstance(left, Sym) else (right, left)
                if other == -1:
                    return Sym(sym.name, not sym.neg)
                if other == 1:
                    return sym
            if isinstance(op, ast.Mod) and isinstance(left, str):
                return Opaque("str", True, _fragments(left) + _fragments(right))
            raise Undecided("arithmetic %s on order symbol" % type(op).__name__)
        if isinstance(left, Abstract) or isinstance(right, Abstract) or _has_abstract(left) or _has_abstract(right):
            if isinstance(op, (ast.Mod, ast.Add)) and (isinstance(left, (str, Opaque, AText)) or isinstance(right, (str, Opaque, AText))):
                truthy = None
                if isinstance(left, str) and left or isinstance(right, str) and right:
                    truthy = True
                if isinstance(left, Opaque) and left.truthy or isinstance(right, Opaque) and right.truthy:
                    truthy = True
                if isinstance(op, ast.Add) and (isinstance(left, Atom) or isinstance(right, Atom)):
                    truthy = True  # an atom stands for a non-empty text
                return Opaque("str", truthy, _fragments(left) + _fragments(right))
            if isinstance(op, ast.Add) and isinstance(left, (list, tuple)) and isinstance(right, (list, tuple)):
                return left + right
            if isinstance(op, ast.Mult) and isinstance(left, (list, tuple, str)) and _is_int(right):
                return left * right
            if isinstance(op, ast.Mult) and isinstance(right, (list, tuple, str)) and _is_int(left):
                return left * right
            raise Undecided("operator %s on %r, %r" % (type(op).__name__, left, right))
        if isinstance(left, (Obj, FuncRef, ClassRef)) or isinstance(right, (Obj, FuncRef, ClassRef)) or _has_object(right):
            if isinstance(op, ast.Mod) and isinstance(left, str):
                return Opaque("str", True, _fragments(left) + _fragments(right))
            if isinstance(op, ast.Add) and (isinstance(left, str) or isinstance(right, str)):
                self.raise_("builtins.TypeError", "str + object")
            raise Undecided("operator on object")
        try:
            return _BIN_OPS[type(op)](left, right)
        except KeyError:
            raise Undecided("binary operator %s" % type(op).__name__)
        except (TypeError, ValueError, ZeroDivisionError, OverflowError) as error:
            if isinstance(op, ast.Mod) and isinstance(left, str):
                return Opaque("str", True)
            self.raise_("builtins." + type(error).__name__, str(error))

    def eval_call(self, node, frame):
        # super() / super().__init__
        if isinstance(node.func, ast.Name) and node.func.id == "super" and not node.args:
            self_value = frame.locals.get(_first_param(frame.info))
            if frame.info is None or frame.info.cls is None or self_value is None:
                raise Undecided("super() outside method")
            return SuperRef(self_value, frame.info.cls)
        func = self.eval(node.func, frame)
        args = []
        for arg in node.args:
            if isinstance(arg, ast.Starred):
                args.extend(self.iterate(self.eval(arg.value, frame)))
            else:
                args.append(self.eval(arg, frame))
        kwargs = {}
        for keyword in node.keywords:
            if keyword.arg is None:
                mapping = self.eval(keyword.value, frame)
                if not isinstance(mapping, dict):
                    raise Undecided("** on non-dict")
                kwargs.update(mapping)
            else:
                kwargs[keyword.arg] = self.eval(keyword.value, frame)
        return self.call(func, args, kwargs, node)


class _Enumerate:
    def __init__(self, inner, start):
        self.inner = inner
        self.start = start
        self.generator = None


class _Islice:
    def __init__(self, inner, limit, start=0):
        self.inner = inner
        self.limit = limit  # None: no upper end
        self.start = start
        self.generator = None


class _Zip:
    def __init__(self, inners):
        self.inners = inners
        self.generator = None


class _Map:
    """map(function, iterable): nothing is called before the result is iterated."""

    def __init__(self, function, inner):
        self.function = function
        self.inner = inner
        self.generator = None


class _Iter:
    """iter(x): an iterator with its own position."""

    def __init__(self, inner):
        self.inner = inner
        self.generator = None


def _is_int(value):
    return isinstance(value, int) and not isinstance(value, bool)


def _has_object(value):
    if isinstance(value, (tuple, list)):
        return any(isinstance(item, (Obj, FuncRef, ClassRef)) or _has_object(item) for item in value)
    return False


def _fragments(value):
    if isinstance(value, Opaque):
        return list(value.parts) if value.parts else [value]
    if isinstance(value, (tuple, list)):
        result = []
        for item in value:
            result.extend(_fragments(item))
        return result
    return [value]


def fragments(value):
    return _fragments(value)


def _has_abstract(value):
    if isinstance(value, (tuple, list)):
        return any(isinstance(item, Abstract) or _has_abstract(item) for item in value)
    return False


def _as_load(target):
    copy_ = ast.parse(ast.unparse(target), mode="eval").body
    return copy_


def _first_param(info):
    if info is None:
        return None
    params = info.node.args.posonlyargs + info.node.args.args
    return params[0].arg if params else None


_LOCAL_CACHE = {}


def _is_local_name(info, name):
    """Is ``name`` assigned somewhere in the function (so that reading it before is UnboundLocalError)?"""
    names = _LOCAL_CACHE.get(id(info.node))
    if names is None:
        names = set()
        arguments = info.node.args
        for arg in arguments.posonlyargs + arguments.args + arguments.kwonlyargs:
            names.add(arg.arg)
        if arguments.vararg:
            names.add(arguments.vararg.arg)
        if arguments.kwarg:
            names.add(arguments.kwarg.arg)
        from .model import walk_own

        for node in walk_own(info.node):
            if isinstance(node, ast.Name) and isinstance(node.ctx, (ast.Store, ast.Del)):
                names.add(node.id)
            elif isinstance(node, ast.ExceptHandler) and node.name:
                names.add(node.name)
        for statement in ast.walk(info.node):
            if isinstance(statement, ast.FunctionDef) and statement is not info.node:
                names.add(statement.name)
        for node in walk_own(info.node):
            if isinstance(node, (ast.Nonlocal, ast.Global)):
                names.difference_update(node.names)
        _LOCAL_CACHE[id(info.node)] = names
    return name in names


_ORDER_OPS = {ast.Lt: operator.lt, ast.LtE: operator.le, ast.Gt: operator.gt, ast.GtE: operator.ge}
_BIN_OPS = {
    ast.Add: operator.add,
    ast.Sub: operator.sub,
    ast.Mult: operator.mul,
    ast.Mod: operator.mod,
    ast.Pow: operator.pow,
    ast.BitOr: operator.or_,
    ast.BitAnd: operator.and_,
    ast.FloorDiv: operator.floordiv,
}

_NATIVE_METHODS = {
    "str": (
        "lower", "upper", "strip", "lstrip", "rstrip", "replace", "split", "startswith", "endswith", "join",
        "format", "isdigit", "encode", "find", "count", "rsplit", "isalnum", "isalpha", "isidentifier", "isascii", "islower",
        "isupper", "isspace", "isnumeric", "isdecimal", "title", "capitalize", "partition", "rpartition", "splitlines", "zfill",
        "ljust", "rjust", "center", "casefold", "swapcase", "expandtabs", "removeprefix", "removesuffix", "rfind", "index", "rindex",
    ),
    "float": ("is_integer", "as_integer_ratio", "hex"),
    "int": ("bit_length",),
    "list": ("append", "extend", "index", "pop", "insert", "copy", "sort", "count"),
    "dict": ("get", "keys", "values", "items", "setdefault", "update", "pop", "copy"),
    "tuple": ("index", "count"),
    "set": ("add", "discard", "update", "copy"),
    "frozenset": ("copy",),
    "bytes": ("decode",),
}


def _atext_method(interp, text, name, args):
    if name == "strip":
        # characters carry ``blank`` (the blank itself) or ``whitespace`` (tab, form feed, no-break space ...): strip()
        # removes both kinds, strip(" ") only blanks
        only_blanks = bool(args) and args[0] == " "
        if args and not only_blanks:
            raise Undecided("strip(%r) on abstract text" % (args[0],))

        def strippable(char):
            return getattr(char, "blank", False) or (not only_blanks and getattr(char, "whitespace", False))

        if text.chars is None:
            if only_blanks:
                raise Undecided("strip(' ') on abstract text without character model")
            if text.kind in (AText.EMPTY, AText.BLANKS):
                return AText(AText.EMPTY, text.name + ".strip", origin=text, chars=None)
            return AText(AText.TEXT, text.name + ".strip", origin=text, chars=None)
        chars = list(text.chars)
        while chars and strippable(chars[0]):
            chars.pop(0)
        while chars and strippable(chars[-1]):
            chars.pop()
        if not chars:
            return AText(AText.EMPTY, text.name + ".strip", origin=text, chars=[])
        kind = AText.BLANKS if all(getattr(c, "blank", False) or getattr(c, "whitespace", False) for c in chars) else AText.TEXT
        return AText(kind, text.name + ".strip", origin=text, chars=chars)
    if name in ("lower", "upper"):
        hook = interp.externals.get("text_case")
        if hook is not None:
            return hook(interp, [text, name], {})
        if text.kind == AText.EMPTY:
            return text
        return AText(text.kind, text.name + "." + name, origin=text, chars=None)
    if name == "endswith" or name == "startswith":
        hook = interp.externals.get("text_" + name)
        if hook is not None:
            return hook(interp, [text] + list(args), {})
    raise Undecided("method %s on abstract text" % name)


class _MatchObj:
    def __init__(self, match):
        self.match = match


def _re_method(interp, regex, name, args):
    if name == "sub" and len(args) == 2 and isinstance(args[1], str):
        replacement, text = args
        compiled = _re.compile(regex.pattern, regex.flags)
        if isinstance(replacement, str):
            return compiled.sub(replacement, text)

        def call_back(match):
            result = interp.call(replacement, [_MatchObj(match)], {})
            if not isinstance(result, str):
                raise Undecided("regex replacement function returned %r" % (result,))
            return result

        return compiled.sub(call_back, text)
    if name in ("match", "search", "fullmatch") and len(args) == 1 and isinstance(args[0], str):
        found = getattr(_re.compile(regex.pattern, regex.flags), name)(args[0])
        return None if found is None else _MatchObj(found)
    hook = interp.externals.get("re." + name)
    if hook is not None:
        return hook(interp, [regex] + list(args), {})
    raise Undecided("regex method %s with %r" % (name, args))


# ---------------------------------------------------------------- default external functions
def _ext(name):
    def register(function):
        _DEFAULT_EXTERNALS[name] = function
        return function

    return register


_DEFAULT_EXTERNALS = {}
_BUILTIN_FUNCTIONS = {
    "len", "isinstance", "max", "min", "enumerate", "range", "zip", "dict", "list", "tuple", "set", "sorted", "str",
    "repr", "any", "all", "ord", "chr", "int", "next", "type", "bool", "sum", "iter", "property", "eval", "hasattr",
    "getattr", "setattr", "abs", "round", "divmod", "frozenset", "reversed", "map", "filter", "compile", "float",
}


@_ext("builtins.len")
def _len(interp, args, kwargs):
    (value,) = args
    if isinstance(value, (list, tuple, dict, set, str, frozenset)):
        return len(value)
    if isinstance(value, AText):
        if value.kind == AText.EMPTY:
            return 0
        if value.chars is not None:
            return len(value.chars)
        hook = interp.externals.get("text_len")
        if hook is not None:
            return hook(interp, [value], {})
        return Sym("len(%s)" % value.name)
    if isinstance(value, type({}.keys())):
        return len(value)
    hook = interp.externals.get("len")
    if hook is not None:
        return hook(interp, [value], {})
    if value is None or isinstance(value, (bool, int, float)):
        interp.raise_("builtins.TypeError", "object of type %r has no len()" % type(value).__name__)
    raise Undecided("len of %r" % (value,))


@_ext("builtins.getattr")
def _getattr(interp, args, kwargs):
    if len(args) < 2 or not isinstance(args[1], str):
        raise Undecided("getattr with a name that is not a concrete text")
    if len(args) == 2:
        return interp.getattr(args[0], args[1])
    try:
        return interp.getattr(args[0], args[1])
    except AbsRaise as raised:
        if exc_name(raised.value) == "AttributeError":
            return args[2]
        raise


@_ext("builtins.setattr")
def _setattr(interp, args, kwargs):
    if len(args) != 3 or not isinstance(args[1], str):
        raise Undecided("setattr with a name that is not a concrete text")
    interp.setattr(args[0], args[1], args[2])
    return None


@_ext("builtins.isinstance")
def _isinstance(interp, args, kwargs):
    value, klass = args
    classes = klass if isinstance(klass, tuple) else (klass,)
    for candidate in classes:
        if isinstance(candidate, ClassRef):
            if isinstance(value, Obj) and isinstance(value.cls, ClassInfo) and interp.model.is_subclass(value.cls, candidate.info):
                return True
            continue
        if isinstance(candidate, ExtRef):
            name = candidate.name
            if name == "builtins.str":
                if isinstance(value, (str, AText)) or (isinstance(value, Atom) and value.is_str):
                    return True
                if isinstance(value, Opaque):
                    if value.tag == "str":
                        return True
                    if value.tag == "nonstr":
                        continue
                    raise Undecided("isinstance(opaque, str)")
                continue
            if name == "builtins.int":
                if _is_int(value) or isinstance(value, (Sym, RInt)):
                    return True
                continue
            if name == "builtins.float":
                if isinstance(value, float):
                    return True
                if isinstance(value, Opaque) and value.tag not in ("str", "nonstr"):
                    raise Undecided("isinstance(%r, float)" % (value,))
                continue
            if name == "builtins.tuple":
                if isinstance(value, tuple):
                    return True
                continue
            if name == "builtins.list":
                if isinstance(value, list):
                    return True
                continue
            if name == "builtins.bytes":
                continue
            if name == "decimal.Decimal":
                if isinstance(value, Sym):
                    return True
                if isinstance(value, (str, AText, Atom)) or _is_int(value):
                    continue
                hook = interp.externals.get("isinstance:decimal.Decimal")
                if hook is not None:
                    if hook(interp, [value], {}):
                        return True
                    continue
                raise Undecided("isinstance(%r, Decimal)" % (value,))
            if name == "io.BytesIO":
                if isinstance(value, (str, AText)):
                    continue
                hook = interp.externals.get("isinstance:" + name)
                if hook is not None and hook(interp, [value], {}):
                    return True
                continue
            if isinstance(value, Obj) and not isinstance(value.cls, ClassInfo):
                a, b = _stdlib_exception(value.cls), _stdlib_exception(name)
                if value.cls == name or (a is not None and b is not None and issubclass(a, b)):
                    return True
                continue
            hook = interp.externals.get("isinstance:" + name)
            if hook is not None:
                if hook(interp, [value], {}):
                    return True
                continue
            raise Undecided("isinstance against %s" % name)
        raise Undecided("isinstance against %r" % (candidate,))
    return False


def _extreme(pick_greater):
    def handler(interp, args, kwargs):
        items = list(args) if len(args) > 1 else list(interp.iterate(args[0]))
        if not items:
            interp.raise_("builtins.ValueError", "empty sequence")
        best = items[0]
        for item in items[1:]:
            greater = interp.compare(ast.Gt(), item, best)
            if greater == pick_greater and not interp.eq(item, best):
                best = item
        return best

    return handler


_DEFAULT_EXTERNALS["builtins.max"] = _extreme(True)
_DEFAULT_EXTERNALS["builtins.min"] = _extreme(False)


@_ext("builtins.map")
def _map(interp, args, kwargs):
    if len(args) != 2:
        raise Undecided("map over %d iterables" % (len(args) - 1))
    return _Map(args[0], args[1])


@_ext("operator.methodcaller")
def _methodcaller(interp, args, kwargs):
    name, rest = args[0], list(args[1:])
    if not isinstance(name, str):
        raise Undecided("methodcaller(%r)" % (name,))

    def call_method(interp_, call_args, call_kwargs):
        (receiver,) = call_args
        return interp_.call(interp_.getattr(receiver, name), rest, dict(kwargs))

    call_method._absint_stub = True
    return call_method


@_ext("builtins.float")
def _float(interp, args, kwargs):
    (value,) = args
    if isinstance(value, (str, int, float)) and not isinstance(value, bool):
        try:
            return float(value)
        except (ValueError, OverflowError) as error:
            interp.raise_("builtins." + type(error).__name__, str(error))
    raise Undecided("float of %r" % (value,))


@_ext("builtins.enumerate")
def _enumerate(interp, args, kwargs):
    start = kwargs.get("start", args[1] if len(args) > 1 else 0)
    return _Enumerate(args[0], start)


@_ext("itertools.islice")
def _islice(interp, args, kwargs):
    if len(args) == 2:
        return _Islice(args[0], args[1])
    if len(args) in (3, 4) and (len(args) == 3 or args[3] in (None, 1)):
        return _Islice(args[0], args[2], start=0 if args[1] is None else args[1])
    raise Undecided("islice with %d arguments" % len(args))


@_ext("itertools.chain")
def _chain(interp, args, kwargs):
    def generate():
        for iterable in args:
            yield from interp.iterate(iterable)

    lazy = _Iter(None)
    lazy.generator = generate()
    return lazy


@_ext("builtins.zip")
def _zip(interp, args, kwargs):
    return _Zip(list(args))


@_ext("builtins.range")
def _range(interp, args, kwargs):
    # a region representative counts as its value (the largest one stands for everything beyond the rows there are)
    args = [a.value if isinstance(a, RInt) and _is_int(a.value) else a for a in args]
    if not all(_is_int(a) for a in args):
        hook = interp.externals.get("range")
        if hook is not None:
            return hook(interp, args, kwargs)
        raise Undecided("range over abstract bounds")
    return range(*args)


@_ext("builtins.dict")
def _dict(interp, args, kwargs):
    result = {}
    if args:
        source = args[0]
        if isinstance(source, dict):
            result.update(source)
        else:
            for pair in interp.iterate(source):
                key, value = pair
                interp._check_hashable(key)
                result[key] = value
    result.update(kwargs)
    return result


@_ext("builtins.list")
def _list(interp, args, kwargs):
    return list(interp.iterate(args[0])) if args else []


@_ext("builtins.tuple")
def _tuple(interp, args, kwargs):
    return tuple(interp.iterate(args[0])) if args else ()


@_ext("builtins.set")
def _set(interp, args, kwargs):
    items = list(interp.iterate(args[0])) if args else []
    for item in items:
        interp._check_hashable(item)
    return set(items)


@_ext("re.escape")
def _re_escape(interp, args, kwargs):
    if len(args) == 1 and isinstance(args[0], str):
        return _re.escape(args[0])
    raise Undecided("re.escape of %r" % (args,))


@_ext("builtins.frozenset")
def _frozenset(interp, args, kwargs):
    items = list(interp.iterate(args[0])) if args else []
    for item in items:
        interp._check_hashable(item)
    return frozenset(items)


@_ext("builtins.sorted")
def _sorted(interp, args, kwargs):
    items = list(interp.iterate(args[0]))
    if any(isinstance(item, Abstract) or _has_abstract(item) for item in items):
        raise Undecided("sorted over abstract items")
    if kwargs:
        raise Undecided("sorted with key")
    try:
        return sorted(items)
    except TypeError as error:
        interp.raise_("builtins.TypeError", str(error))


@_ext("builtins.str")
def _str(interp, args, kwargs):
    if not args:
        return ""
    (value,) = args
    if isinstance(value, (str, int, float)) and not isinstance(value, Abstract) or value is None:
        try:
            return str(value)
        except ValueError as error:  # an int beyond the int -> str conversion limit
            interp.raise_("builtins.ValueError", str(error))
    if isinstance(value, AText):
        return value
    return Opaque("str", True, _fragments(value))


@_ext("builtins.repr")
def _repr(interp, args, kwargs):
    (value,) = args
    if isinstance(value, (str, int)) and not isinstance(value, Abstract) or value is None:
        try:
            return repr(value)
        except ValueError as error:  # an int beyond the int -> str conversion limit
            interp.raise_("builtins.ValueError", str(error))
    return Opaque("str", True, _fragments(value))


@_ext("builtins.any")
def _any(interp, args, kwargs):
    for item in interp.iterate(args[0]):
        if interp.truth(item):
            return True
    return False


@_ext("builtins.all")
def _all(interp, args, kwargs):
    for item in interp.iterate(args[0]):
        if not interp.truth(item):
            return False
    return True


@_ext("builtins.sum")
def _sum(interp, args, kwargs):
    total = 0
    for item in interp.iterate(args[0]):
        total = interp.binop(ast.Add(), total, item)
    return total


@_ext("builtins.bool")
def _bool(interp, args, kwargs):
    return interp.truth(args[0]) if args else False


@_ext("builtins.type")
def _type(interp, args, kwargs):
    (value,) = args
    if isinstance(value, Obj):
        return ClassRef(value.cls) if isinstance(value.cls, ClassInfo) else ExtRef(value.cls)
    if isinstance(value, (str, AText)):
        return ExtRef("builtins.str")
    return ExtRef("builtins.object")


@_ext("builtins.next")
def _next(interp, args, kwargs):
    source = args[0]
    if isinstance(source, GenVal):
        try:
            return next(source.pygen)
        except StopIteration:
            source.done = True
            if len(args) > 1:
                return args[1]
            interp.raise_("builtins.StopIteration")
    if isinstance(source, AbsIter):
        item = source.next_item()
        if item is AbsIter.STOP:
            if len(args) > 1:
                return args[1]
            interp.raise_("builtins.StopIteration")
        return item
    if isinstance(source, (_Enumerate, _Islice, _Zip, _Iter, _Map)):
        if source.generator is None:
            source.generator = interp._fresh_iterator(source)
        try:
            return next(source.generator)
        except StopIteration:
            if len(args) > 1:
                return args[1]
            interp.raise_("builtins.StopIteration")
    raise Undecided("next() on %r" % (source,))


@_ext("builtins.iter")
def _iter(interp, args, kwargs):
    (source,) = args
    if isinstance(source, (GenVal, AbsIter, _Enumerate, _Islice, _Zip, _Iter, _Map)):
        return source
    return _Iter(source)


@_ext("builtins.compile")
def _compile(interp, args, kwargs):
    """compile(text, name, mode) of concrete texts is the real one; a SyntaxError is raised in the analysed code."""
    if len(args) < 3 or not all(isinstance(argument, str) for argument in args[:3]) or kwargs:
        raise Undecided("compile%r" % (tuple(args),))
    try:
        return compile(args[0], args[1], args[2])
    except (SyntaxError, ValueError) as error:
        interp.raise_("builtins." + type(error).__name__, str(error))


@_ext("builtins.ord")
def _ord(interp, args, kwargs):
    (value,) = args
    if isinstance(value, str):
        if len(value) != 1:
            interp.raise_("builtins.TypeError", "ord() expected a character")
        return ord(value)
    hook = interp.externals.get("ord")
    if hook is not None:
        return hook(interp, args, kwargs)
    raise Undecided("ord of %r" % (value,))


@_ext("builtins.chr")
def _chr(interp, args, kwargs):
    (value,) = args
    if _is_int(value):
        try:
            return chr(value)
        except (ValueError, OverflowError) as error:
            interp.raise_("builtins.ValueError", str(error))
    hook = interp.externals.get("chr")
    if hook is not None:
        return hook(interp, args, kwargs)
    raise Undecided("chr of %r" % (value,))


@_ext("builtins.int")
def _int(interp, args, kwargs):
    value = args[0]
    if isinstance(value, str) and all(_is_int(a) for a in args[1:]):
        try:
            return int(value, *args[1:])
        except ValueError as error:
            interp.raise_("builtins.ValueError", str(error))
    if _is_int(value):
        return value
    if isinstance(value, float) and len(args) == 1:
        try:
            return int(value)
        except (ValueError, OverflowError) as error:
            interp.raise_("builtins." + type(error).__name__, str(error))
    hook = interp.externals.get("int")
    if hook is not None:
        return hook(interp, args, kwargs)
    raise Undecided("int of %r" % (value,))


@_ext("builtins.abs")
def _abs(interp, args, kwargs):
    (value,) = args
    if _is_int(value):
        return abs(value)
    if isinstance(value, RInt):
        return RInt(abs(value.value))
    raise Undecided("abs of %r" % (value,))


@_ext("tokenize.ISEOF")
def _iseof(interp, args, kwargs):
    (value,) = args
    if not _is_int(value):
        raise Undecided("ISEOF of %r" % (value,))
    return _tokenize.ISEOF(value)


def _re_function(name):
    def function(interp, args, kwargs):
        flags = kwargs.get("flags", args[2] if len(args) > 2 else 0)
        if len(args) < 2 or not isinstance(args[0], str) or not isinstance(args[1], str) or not _is_int(flags):
            raise Undecided("re.%s with abstract arguments" % name)
        return _re_method(interp, ReObj(args[0], flags), name, [args[1]])

    return function


for _name in ("match", "search", "fullmatch"):
    _DEFAULT_EXTERNALS["re." + _name] = _re_function(_name)


@_ext("re.compile")
def _re_compile(interp, args, kwargs):
    pattern = args[0]
    flags = args[1] if len(args) > 1 else kwargs.get("flags", 0)
    if not isinstance(pattern, str) or not _is_int(flags):
        hook = interp.externals.get("re.compile:abstract")
        if hook is not None:
            return hook(interp, args, kwargs)
        raise Undecided("re.compile of abstract pattern")
    try:
        _re.compile(pattern, flags)
    except _re.error as error:
        interp.raise_("re.error", str(error))
    return ReObj(pattern, flags)


@_ext("copy.copy")
def _copy(interp, args, kwargs):
    (value,) = args
    if value is None:
        return None
    if isinstance(value, Obj):
        clone = Obj(value.cls, dict(value.attrs), label=(value.label or "obj") + "'")
        clone.copied_from = value
        return clone
    if isinstance(value, (list, dict, set)):
        return value.copy()
    if isinstance(value, (tuple, str, int)):
        return value
    raise Undecided("copy.copy of %r" % (value,))


@_ext("super-builtin.__init__")
def _super_init(interp, args, kwargs):
    return None


@_ext("builtins.hasattr")
def _hasattr(interp, args, kwargs):
    value, name = args
    if isinstance(value, Obj):
        try:
            interp.getattr(value, name)
            return True
        except Undecided:
            return False
    if isinstance(name, str) and (value is None or isinstance(value, (bool, int, float, str, bytes, tuple, frozenset, type(compile("0", "<x>", "eval"))))):
        return hasattr(value, name)  # immutable native values: the real answer
    raise Undecided("hasattr on %r" % (value,))


def stub(function):
    function._absint_stub = True
    return function


def run_call(model, chooser, qualname, args, kwargs=None, stubs=None, externals=None, setup=None):
    """
    Interpret one call of ``qualname``; returns (interp, outcome) with outcome
    ("return", value) | ("raise", exception Obj) | ("yielded", [items], terminal) for generators.
    """
    interp = Interp(model, chooser, stubs=stubs, externals=externals)
    info = model.func(qualname)
    if setup is not None:
        args, kwargs = setup(interp)
    try:
        value = interp.call_function(info, args, kwargs or {}, None)
        if isinstance(value, GenVal):
            items = []
            try:
                for item in interp.iterate(value):
                    items.append(item)
                    interp.event("yield", item)
            except AbsRaise as raised:
                return interp, ("raise", raised.value, items)
            return interp, ("return", None, items)
        return interp, ("return", value)
    except AbsRaise as raised:
        return interp, ("raise", raised.value)


def exc_name(value):
    return value.cls_name.rsplit(".", 1)[-1] if isinstance(value, Obj) else str(value)
