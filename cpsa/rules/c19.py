"""
C19 - generated SQL DDL mirrors the CID.
"""
import ast

from ..absint import AbsRaise, ClassRef, Interp, Obj, Opaque, RInt, Undecided, exc_name, fragments
from ..tablekit import decide, decide_kinds, stub, where_of

EXPLANATION = (
    "Static decision of C19 from cutplace/sql.py and IntegerFieldFormat.sql_ansi_type: (O19.1-3) SqlFactory.sql_fields / "
    "create_table_statement are interpreted from source on an abstract CID of three fields with stubbed ANSI types: one "
    "column per field in CID order, names that are keywords of the dialect (folded keyword sets) quoted, NOT NULL exactly "
    "for fields not allowed to be empty. (O19.4-6) for each of the four dialects IntegerFieldFormat.sql_ansi_type composed "
    "with the dialect's sql_type ladder is interpreted over region representatives: lower and upper limit each range over "
    "the boundary set {0, +-1, +-(2^7, 2^8, 2^15, 2^16, 2^31, 2^32, 2^63) and their neighbours} (the code applies only "
    "unit-slope affine maps, max and comparisons against the folded MAX_* constants to them, so the boundary set is "
    "exhaustive for the ladder); the chosen column type must be able to store both limits by the frozen capacity table, "
    "its printed size (if any) must be a digit count, and a type printed without size must be in _INT_TYPES. (O19.7) "
    "Decimal columns carry the rule's (scale, precision), text columns the upper length limit."
    " Added in rounds 6 and 7: The statement table also uses fields with native empty values (0, 1.5); ANSI int is"
    " decided as 32 bit (the module's own MAX_INTEGER), ANSI bigint as 64 bit."
    " Added in round 10: (O19.8) DecimalRange derives total and fractional digits from every number of every"
    " item (numbers of distinct digit shapes)."
)
ASSUMPTIONS = [
    "capacity table: tinyint 0..255 (unsigned, Transact-SQL), smallint +-2^15, int/integer +-2^31, bigint +-2^63, "
    "decimal(p)/number(p,0) +-(10^p - 1); ANSI 'int' and Oracle 'int' taken as 32 bit",
]

FACTORY = "cutplace.sql.SqlFactory"
DIALECTS = {
    "ANSI": "cutplace.sql.AnsiSqlDialect",
    "DB2": "cutplace.sql.Db2SqlDialect",
    "Transact": "cutplace.sql.TransactSqlDialect",
    "PL": "cutplace.sql.PlSqlDialect",
}
CAPACITY = {
    "tinyint": (0, 2 ** 8 - 1),
    "smallint": (-(2 ** 15), 2 ** 15 - 1),
    "int": (-(2 ** 31), 2 ** 31 - 1),
    "integer": (-(2 ** 31), 2 ** 31 - 1),
    "bigint": (-(2 ** 63), 2 ** 63 - 1),
}
# Oracle's 'int' is number(38): its capacity is not a power of two.  ANSI leaves the size of INTEGER to the implementation,
# but every implementation the other dialects of the module stand for stores 32 bits in it, and the module's own
# MAX_INTEGER says the same: ANSI int is decided as 32 bits, ANSI bigint (SQL:2003) as 64 bits.
UNDECIDED_CAPACITY = {("PL", "int")}
BOUNDARIES = sorted({sign * (2 ** power) + delta for power in (7, 8, 15, 16, 31, 32, 63) for sign in (1, -1) for delta in (-1, 0, 1)}
                    | {sign * (10 ** power) + delta for power in (10, 19, 20) for sign in (1, -1) for delta in (-1, 0, 1)} | {0, 1, -1})


_DIALECT_CACHE = {}


QUICK_BOUNDARIES = sorted({sign * (2 ** power) + delta for power in (8, 15, 31, 63) for sign in (1, -1) for delta in (-1, 0, 1)}
                          | {sign * (10 ** 19) + delta for sign in (1, -1) for delta in (-1, 0, 1)} | {0, 1, -1})


def _dialect(interp, model, name):
    """The dialect object holds only its folded keyword set: built once per run of the checker and shared."""
    key = (id(model), name)
    if key not in _DIALECT_CACHE:
        _DIALECT_CACHE[key] = interp.instantiate(ClassRef(model.cls(DIALECTS[name])), [], {})
    return _DIALECT_CACHE[key]


def _field(model, name, allowed_empty, ansi_type, empty_value=None):
    @stub
    def sql_ansi_type(interp, args, kwargs):
        return ansi_type

    return Obj(model.cls("cutplace.fields.AbstractFieldFormat"), {
        "_field_name": name, "_is_allowed_to_be_empty": allowed_empty, "_empty_value": empty_value, "sql_ansi_type": sql_ansi_type}, label=name)


def own_keywords(model, dialect_name):
    """The keyword list literal a dialect's own constructor assigns (folded from the syntax tree)."""
    from ..model import walk_own

    init = model.cls(DIALECTS[dialect_name]).methods.get("__init__")
    if init is None:
        return None
    lists = {}
    for node in walk_own(init.node):
        if isinstance(node, ast.Assign) and isinstance(node.value, ast.List) and all(isinstance(e, ast.Constant) for e in node.value.elts):
            for target in node.targets:
                if isinstance(target, ast.Name):
                    lists[target.id] = {e.value for e in node.value.elts}
    for node in walk_own(init.node):
        if isinstance(node, ast.Assign) and any(ast.unparse(t) == "self._keywords" for t in node.targets):
            names = [n.id for n in ast.walk(node.value) if isinstance(n, ast.Name) and n.id in lists]
            if names:
                return lists[names[0]]
    return None


def rule_keyword_sets(ctx):
    """O19.3: after construction each dialect answers is_keyword from the keyword list its OWN constructor spells out."""
    model = ctx.model
    ctx.res.minimum("O19.3", 4)
    from ..absint import Chooser

    for dialect_name in DIALECTS:
        interp = Interp(model, Chooser())
        dialect = interp.instantiate(ClassRef(model.cls(DIALECTS[dialect_name])), [], {})
        actual = interp.getattr(dialect, "keywords")
        expected = own_keywords(model, dialect_name)
        what = "%s dialect uses its own keyword list (%s words)" % (dialect_name, len(expected) if expected else "?")
        where = where_of(model, DIALECTS[dialect_name] + ".__init__")
        if expected is None:
            ctx.res.fail("O19.3", what, "%s.__init__:O19.3:keywords-not-found" % DIALECTS[dialect_name].replace("cutplace.", ""), where,
                         "no keyword list literal assigned to self._keywords in the constructor")
        elif set(actual) == expected:
            ctx.res.ok("O19.3", what, True, {"sample": sorted(expected)[:5]})
        else:
            missing = sorted(expected - set(actual))[:6]
            extra = sorted(set(actual) - expected)[:6]
            ctx.res.fail("O19.3", what, "%s.__init__:O19.3:keywords" % DIALECTS[dialect_name].replace("cutplace.", ""), where,
                         "after construction the %s dialect's keywords differ from the list its constructor spells out (missing e.g. %s, extra e.g. %s): "
                         "names reserved in this dialect are not quoted" % (dialect_name, missing, extra))


# reserved words every edition of the dialect's reference lists (spot check against the vendors' tables; the DB2 ones are
# the words whose entries carried footnote digits of the IBM table, F38)
WELL_KNOWN_KEYWORDS = {
    "ANSI": ["select", "table", "order", "group", "first", "last", "next"],
    "PL": ["select", "table", "order", "overlaps", "group"],
    "Transact": ["select", "table", "order", "group", "index"],
    "DB2": ["select", "table", "order", "group", "first", "last", "next", "old", "prior", "period", "organization", "sysdate",
            "systimestamp", "currval", "nextval", "end-exec"],
}


def rule_keyword_entries(ctx):
    """O19.3b: every entry of a keyword list is ONE word (no comma, no blank - "order,overlaps" quotes neither word), and
    the well-known reserved words of the dialect are entries."""
    model = ctx.model
    ctx.res.minimum("O19.3b", 8)
    for dialect_name in DIALECTS:
        words = own_keywords(model, dialect_name)
        where = where_of(model, DIALECTS[dialect_name] + ".__init__")
        if words is None:
            continue  # reported by O19.3
        broken = sorted(word for word in words if "," in word or " " in word or word != word.strip() or not word)
        what = "%s keyword list: every entry is one word" % dialect_name
        if broken:
            ctx.res.fail("O19.3b", what, "%s.__init__:O19.3b:entries" % DIALECTS[dialect_name].replace("cutplace.", ""), where,
                         "entries %r of the %s keyword list are not single words: the words in them are never recognised as keywords and stay "
                         "unquoted" % (broken, dialect_name))
        else:
            ctx.res.ok("O19.3b", what, True)
        missing = [word for word in WELL_KNOWN_KEYWORDS.get(dialect_name, []) if word not in words]
        what = "%s keyword list holds the well-known reserved words" % dialect_name
        if missing:
            ctx.res.fail("O19.3b", what, "%s.__init__:O19.3b:missing" % DIALECTS[dialect_name].replace("cutplace.", ""), where,
                         "reserved words %r are not entries of the %s keyword list (look for entries with a digit or punctuation glued on): "
                         "fields with these names are emitted unquoted" % (missing, dialect_name))
        else:
            ctx.res.ok("O19.3b", what, True)


def rule_columns(ctx):
    model = ctx.model
    ctx.res.minimum("O19.1", 1)
    ansi_words = own_keywords(model, "ANSI") or set()

    def cell(ch):
        dialect_name = ch.choose("dialect", list(DIALECTS))
        flags = [ch.choose(("empty allowed", index), [False, True]) for index in range(3)]
        own = own_keywords(model, dialect_name) or set()
        only_here = sorted(own - ansi_words)
        only_ansi = sorted(ansi_words - own)
        # a plain name, a word reserved in this dialect (preferably only there), a word reserved elsewhere only
        names = ["customer_id", only_here[0] if only_here else "select", (only_ansi[0] if only_ansi else "Order")]
        interp = Interp(model, ch)
        # empty values: the built-in defaults (None / "") or a value of the field's native type (documented parameter
        # empty_value of the field format constructors, e.g. 0 for an Integer field)
        empty_values = ch.choose("empty values", [(None, "", None), (0, None, 1.5)])
        fields = [_field(model, names[index], flags[index], ("varchar", 10 + index), empty_values[index]) for index in range(3)]
        cid = Obj(model.cls("cutplace.interface.Cid"), {"_field_formats": fields, "_field_names": names}, label="cid")
        dialect = _dialect(interp, model, dialect_name)
        factory = interp.instantiate(ClassRef(model.cls(FACTORY)), [cid, "t", dialect], {})
        try:
            statement = interp.call_function(model.func(FACTORY + ".create_table_statement"), [factory], {}, None)
        except AbsRaise as raised:
            return ("%s %s empty values %r" % (dialect_name, flags, empty_values), "raise " + exc_name(raised.value), "conforms")
        if not isinstance(statement, str):
            return ("%s %s" % (dialect_name, flags), "statement is not a concrete text: %r" % (statement,), "conforms")
        body = statement[statement.index("(") + 1: statement.rindex(")")]
        lines = [line.strip().rstrip(",") for line in body.strip().splitlines() if line.strip()]
        problems = []
        if len(lines) != 3:
            problems.append("%d column definitions for 3 fields" % len(lines))
        keywords = interp.getattr(dialect, "keywords")
        for index, line in enumerate(lines[:3]):
            if " default " in line:
                line = line[:line.index(" default ")]
            name = names[index]
            is_keyword = name.lower() in own
            expected_name = '"%s"' % name if is_keyword else name
            if not line.startswith(expected_name + " "):
                problems.append("column %d is %r, expected name %s" % (index, line, expected_name))
            type_word = "varchar2" if dialect_name == "PL" else "varchar"
            if "%s(%d)" % (type_word, 10 + index) not in line:
                problems.append("column %d does not carry %s(%d): %r" % (index, type_word, 10 + index, line))
            if line.endswith(" not null") == flags[index]:
                problems.append("column %d (%s, allowed to be empty: %s) is rendered %r" % (index, name, flags[index], line))
        return ("%s empty-allowed=%s empty values %r" % (dialect_name, flags, empty_values), "; ".join(problems) if problems else "conforms", "conforms")

    decide(ctx, "O19.1", "create_table_statement(3 fields)", FACTORY + ".create_table_statement", cell, min_cells=64)


def rule_integer_types(ctx):
    model = ctx.model
    ctx.res.minimum("O19.4", 4)
    int_types = None

    for dialect_name in DIALECTS:
        def cell(ch, dialect_name=dialect_name):
            boundaries = BOUNDARIES if ctx.thorough else QUICK_BOUNDARIES
            lower = ch.choose("lower", boundaries)
            upper = ch.choose("upper", [value for value in boundaries if value >= lower])
            def len_hook(interp_, args, kwargs):
                # digit count of a region representative: a step function whose breakpoints (powers of ten) are
                # part of the boundary set
                (value,) = args
                parts = fragments(value)
                if len(parts) == 1 and isinstance(parts[0], RInt):
                    return RInt(len(str(parts[0].value)))
                raise Undecided("len of %r" % (value,))

            interp = Interp(model, ch, externals={"len": len_hook})
            valid_range = Obj(model.cls("cutplace.ranges.Range"), {"_lower_limit": RInt(lower), "_upper_limit": RInt(upper),
                                                                   "_items": [(RInt(lower), RInt(upper))]}, label="range")
            field = Obj(model.cls("cutplace.fields.IntegerFieldFormat"), {
                "_field_name": "n", "_is_allowed_to_be_empty": False, "_empty_value": None, "valid_range": valid_range}, label="n")
            cid = Obj(model.cls("cutplace.interface.Cid"), {"_field_formats": [field], "_field_names": ["n"]}, label="cid")
            dialect = _dialect(interp, model, dialect_name)
            factory = interp.instantiate(ClassRef(model.cls(FACTORY)), [cid, "t", dialect], {})
            key = "%s lower=%s upper=%s" % (dialect_name, _show(lower), _show(upper))
            try:
                statement = interp.call_function(model.func(FACTORY + ".create_table_statement"), [factory], {}, None)
            except AbsRaise as raised:
                return (key, "raises " + exc_name(raised.value), "create_table_statement raised")
            parts = fragments(statement) if not isinstance(statement, str) else [statement]
            shown = [part if isinstance(part, str) else "<%s>" % part.value if isinstance(part, RInt) else "<?>" for part in parts]
            # "(%s, %s)" % (length, precision) arrives as the format text followed by its arguments (round 11: a
            # refactoring from concatenation to formatting was reported as "decimal without a digit count" - false alarm)
            resolved = []
            position = 0
            while position < len(shown):
                part = shown[position]
                placeholders = part.count("%s") + part.count("%d") if isinstance(parts[position], str) else 0
                if placeholders and position + placeholders < len(shown) + 0 and len(shown) - position - 1 >= placeholders:
                    arguments = shown[position + 1: position + 1 + placeholders]
                    for argument in arguments:
                        index_s, index_d = part.find("%s"), part.find("%d")
                        index = min(i for i in (index_s, index_d) if i >= 0)
                        part = part[:index] + argument + part[index + 2:]
                    position += placeholders
                resolved.append(part)
                position += 1
            text = "".join(resolved)
            column = text[text.index("(") + 1:].strip()
            column = column[: column.rindex(")")].strip() if ")" in column else column
            words = column.replace(",", " ").split()
            # words: name, type[(size...)], ...
            if len(words) < 2:
                return (key, "no column type", text)
            type_text = column[len(words[0]):].strip()
            type_name = type_text.split("(")[0].split()[0]
            sizes = []
            if type_text[len(type_name):].startswith("("):
                inside = type_text[len(type_name) + 1: type_text.index(")")]
                for item in inside.split(","):
                    item = item.strip()
                    if item.startswith("<") and item.endswith(">") and item != "<?>":
                        sizes.append(int(item[1:-1]))
                    elif item.lstrip("-").isdigit():
                        sizes.append(int(item))
                    else:
                        sizes.append(None)
            kind = detail = None
            if type_name in CAPACITY:
                low, high = CAPACITY[type_name]
                if sizes:
                    kind = "integer type %s printed with a size" % type_name
                    detail = "%s%s (the type name is missing from _INT_TYPES)" % (type_name, sizes)
                elif (dialect_name, type_name) in UNDECIDED_CAPACITY:
                    # how much an ANSI INTEGER holds is implementation-defined - but no implementation's integer type goes
                    # beyond 64 bits, so a limit outside the 64-bit range needs a wider type (decimal(n)) in any case;
                    # Oracle's int is number(38)
                    widest = (-(2 ** 63), 2 ** 63 - 1) if dialect_name == "ANSI" else (-(10 ** 38) + 1, 10 ** 38 - 1)
                    if lower < widest[0] or upper > widest[1]:
                        kind = "%s chosen for a range beyond what any %s integer type stores" % (type_name, dialect_name)
                        detail = "%s cannot store the range limit %s" % (type_name, _show(lower if lower < widest[0] else upper))
                elif lower < low or upper > high:
                    kind = "%s chosen for a range it cannot store" % type_name
                    detail = "%s cannot store the range limit %s" % (type_name, _show(lower if lower < low else upper))
            elif type_name in ("decimal", "number"):
                if not sizes or sizes[0] is None:
                    kind, detail = "%s without a digit count" % type_name, type_text
                else:
                    digits = sizes[0]
                    needed = max(len(str(abs(lower))), len(str(abs(upper))))
                    if digits > 100:
                        kind = "%s precision slot receives the limit value" % type_name
                        detail = "%s(%s) instead of a digit count" % (type_name, _show(digits))
                    elif digits < needed:
                        kind = "%s with too few digits" % type_name
                        detail = "%s(%d) cannot store a limit of %d digits" % (type_name, digits, needed)
            else:
                kind, detail = "unknown column type", type_name
            return (key, kind, detail)

        decide_kinds(ctx, "O19.4", "integer column type (%s)" % dialect_name, DIALECTS[dialect_name] + ".sql_type", cell, min_cells=300)


def _show(value):
    for base, powers in ((2, (7, 8, 15, 16, 31, 32, 63)), (10, (10, 19, 20))):
        for power in powers:
            for sign, sign_text in ((1, ""), (-1, "-")):
                for delta, delta_text in ((-1, "-1"), (0, ""), (1, "+1")):
                    if value == sign * base ** power + delta:
                        return "%s%d^%d%s" % (sign_text, base, power, delta_text)
    return str(value)


def rule_decimal_and_text(ctx):
    """O19.7: Decimal columns carry the rule's (scale, precision); text-like columns the upper length limit."""
    from ..absint import Chooser
    from ..world import World

    model = ctx.model
    ctx.res.minimum("O19.7", 3)

    def decimal_range_stub(scale, precision):
        @stub
        def handler(interp_, args, kwargs):
            return Obj(model.cls("cutplace.ranges.DecimalRange"), {"_scale": scale, "_precision": precision, "_items": None,
                                                                  "_lower_limit": None, "_upper_limit": None}, label="decimal range")

        return handler

    def cell(ch):
        scale, precision = ch.choose("rule digits", [(5, 2), (12, 0), (31, 12)])
        interp = Interp(model, ch, stubs={"cutplace.ranges.DecimalRange": decimal_range_stub(scale, precision),
                                          "cutplace.ranges.Range": stub(lambda i, a, k: Obj(model.cls("cutplace.ranges.Range"), {}))})
        world = World(model, interp, ch)
        field = interp.instantiate(ClassRef(model.cls("cutplace.fields.DecimalFieldFormat")), ["d", False, "", "RULE", world.data_format()], {})
        result = interp.call(interp.getattr(field, "sql_ansi_type"), [], {})
        return ("scale=%d precision=%d" % (scale, precision), result, ("decimal", scale, precision))

    decide(ctx, "O19.7", "Decimal column digits come from the rule", "cutplace.fields.DecimalFieldFormat.sql_ansi_type", cell, min_cells=3)

    def decimal_column_cell(ch):
        # cutplace names the total number of digits "scale" and the digits after the point "precision"; in every
        # dialect the column reads TYPE(total, after the point)
        dialect_name = ch.choose("dialect", list(DIALECTS))
        total, after_point = ch.choose("digits", [(7, 2), (12, 0), (31, 12)])
        interp = Interp(model, ch)
        fields = [_field(model, "amount", False, ("decimal", total, after_point))]
        cid = Obj(model.cls("cutplace.interface.Cid"), {"_field_formats": fields, "_field_names": ["amount"]}, label="cid")
        dialect = _dialect(interp, model, dialect_name)
        factory = interp.instantiate(ClassRef(model.cls(FACTORY)), [cid, "t", dialect], {})
        key = "%s decimal(%d, %d)" % (dialect_name, total, after_point)
        try:
            statement = interp.call_function(model.func(FACTORY + ".create_table_statement"), [factory], {}, None)
        except AbsRaise as raised:
            return (key, "raise " + exc_name(raised.value), "TYPE(%d, %d)" % (total, after_point))
        if not isinstance(statement, str):
            return (key, "statement is not a concrete text: %r" % (statement,), "TYPE(%d, %d)" % (total, after_point))
        import re as _re

        found = _re.search(r"amount\s+(\w+)\s*\(\s*(\d+)\s*,\s*(\d+)\s*\)", statement)
        actual = "TYPE(%s, %s)" % (found.group(2), found.group(3)) if found else statement.strip()
        return (key, actual, "TYPE(%d, %d)" % (total, after_point))

    decide(ctx, "O19.7", "decimal columns read TYPE(total digits, digits after the point) in every dialect",
           FACTORY + ".create_table_statement", decimal_column_cell, min_cells=12)

    def text_cell(ch):
        field_type = ch.choose("type", ["Text", "Choice", "Pattern", "RegEx", "Constant"])
        upper = ch.choose("upper length limit", [None, 1, 60])
        interp = Interp(model, ch)
        length = Obj(model.cls("cutplace.ranges.Range"), {"_upper_limit": upper, "_lower_limit": None, "_items": None})
        field = Obj(model.cls("cutplace.fields.%sFieldFormat" % field_type), {"_length": length, "_field_name": "t"})
        result = interp.call(interp.getattr(field, "sql_ansi_type"), [], {})
        return ("%s upper=%s" % (field_type, upper), result, ("varchar", upper))

    decide(ctx, "O19.7", "text column length is the upper length limit", "cutplace.fields.AbstractFieldFormat.sql_ansi_type", text_cell, min_cells=15)


def rule_limits_of_ranges(ctx):
    """O1.5 (shared with C01): the type of an Integer column and the default varchar length are computed from
    Range.lower_limit / upper_limit, which must be the smallest / largest limit over ALL items of the range."""
    from .c01 import RANGE, constructor_table

    ctx.res.minimum("O1.5", 1)
    constructor_table(ctx, "O1.5", RANGE, 5)
    # O19.8: "the total digits and fractional digits implied by the rule": DecimalRange derives them from every number of
    # every item (the item with the most digits before the point need not be the last one)
    from .c01 import DECIMAL_RANGE

    ctx.res.minimum("O19.8", 1)
    constructor_table(ctx, "O19.8", DECIMAL_RANGE, 5, digits=True)


from .common import rule_module_state  # noqa: E402

RULES = [rule_keyword_sets, rule_keyword_entries, rule_columns, rule_integer_types, rule_decimal_and_text, rule_limits_of_ranges, rule_module_state]
