"""
C10 - CID and data problems surface as cutplace errors, never as internal failures.
"""
import ast

from ..escape import ANY, EscapeAnalysis
from ..model import AnalysisError, walk_own
from ..tablekit import where_of
from ..tables import asserts as assert_table

EXPLANATION = (
    "Exception-escape analysis over the resolved call graph of the whole package: for every function the set of "
    "exception classes that can leave it is computed as a fixpoint from (a) raise statements, (b) a frozen, commented "
    "table of external raisers (int, chr, decimal.Decimal and ordering of Decimals converted from text, re.compile, "
    "the Python tokenizer incl. IndentationError, codecs.lookup, time.strptime, bytes.decode('unicode_escape'), constant "
    "dictionaries subscripted with input, list.index, file opening, text-stream read, csv iteration, zip/XML/xlrd parsers, "
    "eval, argparse) and (c) asserts that CID or data text can falsify (triage table of all 146 value-dependent asserts "
    "on the API paths; a new assert on a parameter is reported unless triaged); try/except removes what the handlers "
    "catch under the class lattice. At each API entry point (Cid.__init__/read, create_cid_from_string, validio.rows / "
    "validate, Reader.rows / validate_rows / close, Writer.write_row / close, applications.process behind main) the "
    "escaping classes must be inside the allowed set (InterfaceError for CID loading; DataError family, InterfaceError "
    "and OSError for reading; nothing but CutplaceError, OSError and SystemExit may reach main's exit-code-4 handler). "
    "Each violation names the raising site and the call chain from the entry point. Additionally the constructors of "
    "both range classes are interpreted on every abstract token sequence: every sequence must end in acceptance or "
    "InterfaceError (this catches unbound locals and other internal errors on malformed descriptions)."
    " Added in rounds 6 and 7: (O10.none) no value that may be None by construction reaches a parameter its callee"
    " asserts to be not None. (O10.count) a DistinctCount rule cannot call exit() (SystemExit is no Exception)."
    " next(x) counts as raising StopIteration unless x is a token stream of the same function; the tokenizer's"
    " UnicodeEncodeError / SystemError and the plain UnicodeError of exotic codecs when writing are in the raiser"
    " table."
    " Added in rounds 8 and 9: Asserts of a private helper are discharged when every caller guards the argument;"
    " formatting the result of eval() counts as raising ValueError; setattr() is followed into the property"
    " setters."
    " Added in round 10: (O20.2, shared with C20) the name-to-class maps never hold the abstract bases, whose"
    " hooks raise NotImplementedError. int(float(...)) raises OverflowError; Header / Sheet are also probed"
    " with Infinity, NaN and 1e999."
)
TRUSTED = ["cpsa/tables/raisers.py (external raisers) and cpsa/tables/asserts.py (assert triage), each line with its reason"]
ASSUMPTIONS = [
    "not modelled: StopIteration from the repository's own token generators (they end with ENDMARKER), TypeError / "
    "AttributeError / IndexError of type-correct code (C03/C17 kind rules cover the known cases), MemoryError, "
    "RecursionError, KeyboardInterrupt; exceptions raised by third-party plugin code",
]

CUTPLACE = "cutplace.errors.CutplaceError"
INTERFACE = "cutplace.errors.InterfaceError"
DATA = "cutplace.errors.DataError"
DATA_FORMAT = "cutplace.errors.DataFormatError"
OSERROR = "builtins.OSError"

ENTRY_POINTS = {
    # entry: (allowed ancestor classes, what it is)
    "cutplace.interface.Cid.__init__": ((INTERFACE, OSERROR, DATA_FORMAT), "loading a CID"),
    "cutplace.interface.Cid.read": ((INTERFACE, OSERROR, DATA_FORMAT), "loading a CID"),
    "cutplace.interface.create_cid_from_string": ((INTERFACE, OSERROR, DATA_FORMAT), "loading a CID"),
    "cutplace.validio.rows": ((DATA, INTERFACE, OSERROR), "reading data"),
    "cutplace.validio.validate": ((DATA, INTERFACE, OSERROR), "validating data"),
    "cutplace.validio.Reader.__init__": ((DATA, INTERFACE, OSERROR), "reading data"),
    "cutplace.validio.Reader.rows": ((DATA, INTERFACE, OSERROR), "reading data"),
    "cutplace.validio.Reader.validate_rows": ((DATA, INTERFACE, OSERROR), "validating data"),
    "cutplace.validio.Reader.close": ((DATA, INTERFACE, OSERROR), "closing a reader"),
    "cutplace.validio.Writer.write_row": ((DATA, INTERFACE, OSERROR), "writing data"),
    "cutplace.validio.Writer.close": ((DATA, INTERFACE, OSERROR), "closing a writer"),
    "cutplace.applications.process": ((CUTPLACE, OSERROR, "builtins.SystemExit"), "the command line (anything else is answered with exit code 4)"),
}

# escaping (origin function, class) pairs that are not a function of CID or data cell contents
NOT_INPUT = {
    ("fields.AbstractFieldFormat.validated_value", "builtins.NotImplementedError"): "abstract hook: only a plugin class that does not implement it",
    ("rowio.auto_rows", "builtins.NotImplementedError"): "API misuse: a BytesIO as CID source",
    ("rowio.AbstractRowWriter.write_row", "builtins.NotImplementedError"): "abstract method",
    ("validio.Writer.__init__", "builtins.NotImplementedError"): "API: writers exist for delimited and fixed only",
    ("interface.Cid._create_name_to_class_map", CUTPLACE): "clashing plugin class names: environment, not CID content (exit code 1 at the command line)",
    ("data.DataFormat.set_property", "builtins.KeyError"): "QUOTING_TO_CSV_QUOTE_MAP[quoting]: quoting comes from _validated_choice over the map's own keys (decided by the set_property table, C11 O11.2)",
    ("interface.import_plugins", ANY): "plugin code",
    ("applications.CutplaceApp.set_options", "builtins.KeyError"): "log level: argparse restricts --log to the keys of the map (choices=)",
    ("sql.write_create", "builtins.UnicodeError"): "the create script is written as UTF-8",
}

# (origin function, class, origin text) - finer than NOT_INPUT where the same call shape also occurs with input
def text_encoding_guard(model):
    """Does DataFormat.set_property refuse encodings that are no text encodings?  Recognised form: a trial ``"".encode(value)``
    (or ``.decode``) of the cell inside a handler that turns LookupError into an InterfaceError."""
    info = model.functions.get("cutplace.data.DataFormat.set_property")
    if info is None:
        return False
    for node in walk_own(info.node):
        if isinstance(node, ast.Try):
            trial = any(isinstance(call, ast.Call) and isinstance(call.func, ast.Attribute) and call.func.attr in ("encode", "decode")
                        and isinstance(call.func.value, ast.Constant) and call.args and isinstance(call.args[0], ast.Name)
                        for inner in node.body for call in ast.walk(inner))
            catches = any(handler.type is not None and "LookupError" in ast.unparse(handler.type) for handler in node.handlers)
            if trial and catches:
                return True
    return False


NOT_INPUT_SITES = {
    ("data.DataFormat.encoding@setter", "builtins.ValueError", "codecs.lookup(encoding)"):
        "set_property has tried the value as a text encoding before it assigns it (LookupError and ValueError refused there); other "
        "callers pass constants",
    ("fields.PatternFieldFormat.__init__", "re.error", "re.compile(self.pattern, re.IGNORECASE | re.MULTILINE)"):
        "self.pattern is the output of fnmatch.translate, which escapes everything it does not understand",
    ("fields.PatternFieldFormat.__init__", "builtins.ValueError", "re.compile(self.pattern, re.IGNORECASE | re.MULTILINE)"):
        "fnmatch.translate escapes '(' and '?', so the compiled text holds no inline flags that could contradict each other",
    ("fields.PatternFieldFormat.__init__", "builtins.OverflowError", "re.compile(self.pattern, re.IGNORECASE | re.MULTILINE)"):
        "fnmatch.translate escapes braces, so the compiled text holds no repetition count that could be too large",
    ("rowio.FixedRowWriter.write_row", "builtins.UnicodeError", "self._target_stream.write(self._line_separator)"):
        "the line separator is one of the ASCII constants",
}


def _structural(test):
    if isinstance(test, ast.Compare) and len(test.ops) == 1 and isinstance(test.ops[0], (ast.Is, ast.IsNot)) \
            and isinstance(test.comparators[0], ast.Constant) and test.comparators[0].value is None:
        return True
    if isinstance(test, ast.Call) and isinstance(test.func, ast.Name) and test.func.id == "isinstance":
        return True
    if isinstance(test, ast.BoolOp):
        return all(_structural(value) for value in test.values)
    if isinstance(test, ast.UnaryOp) and isinstance(test.op, ast.Not):
        return _structural(test.operand)
    return False


def _depends_on_parameter(func, test):
    """Does the condition mention a parameter of ``func`` or a local computed from one (one assignment deep)?"""
    arguments = func.node.args
    params = {a.arg for a in arguments.posonlyargs + arguments.args + arguments.kwonlyargs} - {"self", "cls"}
    derived = set(params)
    for _ in range(3):
        for node in walk_own(func.node):
            if isinstance(node, ast.Assign):
                used = {n.id for n in ast.walk(node.value) if isinstance(n, ast.Name)}
                if used & derived:
                    for target in node.targets:
                        for name in ast.walk(target):
                            if isinstance(name, ast.Name):
                                derived.add(name.id)
    mentioned = {n.id for n in ast.walk(test) if isinstance(n, ast.Name)}
    return bool(mentioned & derived)


def _guarded_by_every_caller(model, graph, func, test):
    """``assert <parameter>`` in a private helper: discharged when every call site in the package hands over an expression
    that a dominating test of the SAME expression has already found true (``if not x: raise ...`` before the call in an
    enclosing block, or the call inside ``if x:``).  This is what remains of a guard when a block is extracted into a
    helper that restates its precondition."""
    from ..model import FuncInfo
    from ..xnone import _params

    if graph is None:
        return False
    # ``assert <parameter>`` or ``assert <parameter> <comparison> <constant>``
    if isinstance(test, ast.Name):
        parameter = test.id
    elif isinstance(test, ast.Compare) and isinstance(test.left, ast.Name) and len(test.ops) == 1 \
            and isinstance(test.comparators[0], ast.Constant):
        parameter = test.left.id
    else:
        return False
    names = [name for name, _ in _params(func)]
    if parameter not in names or not func.name.startswith("_"):
        return False

    def restated(argument):
        """The asserted condition in the words of the caller."""
        if isinstance(test, ast.Name):
            return argument
        return ast.Compare(left=argument, ops=test.ops, comparators=test.comparators)

    sites = 0
    for caller in model.functions.values():
        if not caller.module.name.startswith(model.PACKAGE):
            continue
        for call in walk_own(caller.node):
            if not isinstance(call, ast.Call) or func not in [t for t in graph.resolve_call(caller, call) if isinstance(t, FuncInfo)]:
                continue
            bound = func.cls is not None and names and names[0] in ("self", "cls")
            positional = names[1:] if bound else names
            argument = None
            for name, value in list(zip(positional, call.args)) + [(k.arg, k.value) for k in call.keywords if k.arg]:
                if name == parameter:
                    argument = value
            if argument is None or not _truth_guarded(caller, restated(argument), call):
                return False
            sites += 1
    return sites > 0


def _truth_guarded(func, expr, call):
    wanted = ast.dump(expr)

    def positive(test):
        if isinstance(test, ast.BoolOp) and isinstance(test.op, ast.And):
            return any(positive(value) for value in test.values)
        return ast.dump(test) == wanted

    def negative(test):
        return isinstance(test, ast.UnaryOp) and isinstance(test.op, ast.Not) and ast.dump(test.operand) == wanted

    def contains(node):
        return any(inner is call for inner in ast.walk(node))

    def search(statements):
        for statement in statements:
            if not contains(statement):
                if isinstance(statement, ast.Assert) and positive(statement.test):
                    return True
                if isinstance(statement, ast.If) and negative(statement.test) and statement.body \
                        and isinstance(statement.body[-1], (ast.Return, ast.Raise, ast.Continue, ast.Break)):
                    return True
                continue
            if isinstance(statement, ast.If):
                if contains(statement.test):
                    return False
                if any(contains(s) for s in statement.body):
                    return positive(statement.test) or search(statement.body)
                return negative(statement.test) or search(statement.orelse)
            for field in ("body", "orelse", "finalbody"):
                block = getattr(statement, field, None)
                if isinstance(block, list) and any(isinstance(s, ast.stmt) and contains(s) for s in block):
                    return search(block)
            for handler in getattr(statement, "handlers", []):
                if contains(handler):
                    return search(handler.body)
            return False
        return False

    return search(func.node.body)


_SHAPES = {}


def _shape(condition):
    """The condition with its variable names replaced by placeholders in order of appearance (renaming-proof)."""
    if condition not in _SHAPES:
        try:
            tree = ast.parse(condition, mode="eval")
        except SyntaxError:
            _SHAPES[condition] = condition
            return condition
        names = {}
        for node in ast.walk(tree):
            if isinstance(node, ast.Name):
                names.setdefault(node.id, "v%d" % len(names))
        # ast.walk is breadth first; number by source position instead so that renamings keep the numbering
        ordered = sorted((n for n in ast.walk(tree) if isinstance(n, ast.Name)), key=lambda n: (n.lineno, n.col_offset))
        names = {}
        for node in ordered:
            names.setdefault(node.id, "v%d" % len(names))
        for node in ordered:
            node.id = names[node.id]
        _SHAPES[condition] = ast.unparse(tree)
    return _SHAPES[condition]


class AssertClassifier:
    def __init__(self):
        self.untriaged = []
        self.carried_over = []
        self.seen = {}

    def __call__(self, func, node):
        qualname = func.qualname.replace("cutplace.", "", 1)
        condition = ast.unparse(node.test)
        key = (qualname, condition)
        if key in assert_table.INPUT_STRUCTURAL:
            self.seen[key] = "input"
            return "input"
        if _structural(node.test):
            return "ignore"
        if qualname.endswith(assert_table.HOOK_ASSERT_FUNCTIONS_SUFFIX) and isinstance(node.test, ast.Name):
            self.seen[key] = "hook"
            return "ignore"
        if assert_table.SETTER_SUFFIX in qualname:
            self.seen[key] = "table"
            return "ignore"
        entry = assert_table.TRIAGE.get(key)
        if entry is None:
            # the function was renamed, extracted or moved within its module: the triage of the identical condition is
            # carried over when exactly one assert of that module has it
            module_prefix = qualname.split(".")[0] + "."
            shape = _shape(condition)
            same = [(k, v) for k, v in assert_table.TRIAGE.items() if _shape(k[1]) == shape and k[0].startswith(module_prefix)]
            classes = {v[0] for _, v in same}
            if same and len(classes) == 1:
                entry = same[0][1]
                self.carried_over.append((key, same[0][0][0]))
        if entry is not None:
            self.seen[key] = entry[0]
            return "input" if entry[0] == assert_table.INPUT else "ignore"
        if _guarded_by_every_caller(getattr(self, "model", None), getattr(self, "graph", None), func, node.test) if getattr(self, "model", None) else False:
            self.seen[key] = "guarded by every caller"
            return "ignore"
        if _depends_on_parameter(func, node.test):
            if key not in self.seen:
                self.untriaged.append(key)
            self.seen[key] = "untriaged"
            return "input"
        self.seen[key] = "local"
        return "ignore"


_ANALYSIS_CACHE = {}


def analysis(model):
    key = id(model)
    if key not in _ANALYSIS_CACHE:
        classifier = AssertClassifier()
        classifier.model = model
        from ..escape import CallGraph

        classifier.graph = CallGraph(model)
        _ANALYSIS_CACHE[key] = (EscapeAnalysis(model, classifier), classifier)
    return _ANALYSIS_CACHE[key]


def _allowed(lattice, cls_name, allowed):
    return any(lattice.is_subclass(cls_name, ancestor) for ancestor in allowed)


def _chain_text(item):
    steps = ["%s:%d" % (caller.replace("cutplace.", ""), line) for caller, line in item.chain]
    steps.append("%s:%d %s" % (item.origin[0].replace("cutplace.", ""), item.origin[1], item.origin[2]))
    return " -> ".join(steps)


def rule_escapes(ctx):
    model = ctx.model
    escape, classifier = analysis(model)
    ctx.res.analysed.update({"call_sites": escape.call_sites, "resolved_call_sites": escape.resolved_sites,
                             "fixpoint_rounds": escape.rounds})
    ctx.res.minimum("O10", 150)
    if escape.untabled_externals:
        raise AnalysisError("external callee(s) without an entry in tables/raisers.py (EXTERNAL or NO_RAISE): %s" % ", ".join(
            "%s (%s)" % item for item in sorted(escape.untabled_externals.items())))
    violations = {}  # key -> (item, [entries])
    for entry, (allowed, what) in ENTRY_POINTS.items():
        model.func(entry)  # anchor
        for item in escape.escapes(entry):
            origin_function = item.origin[0].replace("cutplace.", "", 1)
            site = "%s: %s" % (origin_function, item.origin[2])
            obligation = "%s: %s from %s" % (entry.replace("cutplace.", ""), item.cls.replace("cutplace.errors.", "").replace("builtins.", ""), site)
            if _allowed(escape.lattice, item.cls, allowed):
                ctx.res.ok("O10", obligation, True, {"chain": _chain_text(item)} if len(ctx.res.samples) < 6 else None)
                continue
            reason = NOT_INPUT.get((origin_function, item.cls)) or NOT_INPUT_SITES.get((origin_function, item.cls, item.origin[2]))
            if reason is None and item.cls == "builtins.LookupError" and item.origin[2].startswith(("io.open(", "open(")) and text_encoding_guard(model):
                reason = "the encoding is a property of the data format, and set_property refuses everything that is no text encoding"
            if reason is not None:
                ctx.res.ok("O10", obligation + " (not input-dependent: %s)" % reason, True)
                continue
            key = "%s:O10:%s:%s" % (origin_function, item.cls, _normalise(item.origin[2]))
            record = violations.setdefault(key, {"item": item, "entries": []})
            record["entries"].append(entry.replace("cutplace.", ""))
    for key, record in sorted(violations.items()):
        item = record["item"]
        info = model.functions.get(item.origin[0])
        where = "%s:%d (%s)" % (info.module.relpath if info else "?", item.origin[1], item.origin[0].replace("cutplace.", ""))
        short = item.cls.replace("builtins.", "")
        ctx.res.fail(
            "O10", "%s from %s does not leave the API" % (short, item.origin[0].replace("cutplace.", "")), key, where,
            "%s raised at %s can escape %s (%s) instead of a cutplace error; chain: %s"
            % (short, item.origin[2], ", ".join(record["entries"][:6]),
               ENTRY_POINTS["cutplace." + record["entries"][0]][1], _chain_text(item)),
            {"entries": record["entries"], "chain": _chain_text(item)},
        )
    for key, source in classifier.carried_over:
        ctx.res.note("assert triage carried over within the module: %s | %s (triaged for %s)" % (key[0], key[1], source))
    for key in classifier.untriaged:
        ctx.res.note("untriaged assert on a parameter treated as input-reachable: %s | %s" % key)
    ctx.res.analysed["asserts_classified"] = len(classifier.seen)


def _normalise(text):
    return " ".join(text.split())[:80]


def rule_main_mapping(ctx):
    """
    O10.main: whatever leaves process() because of a CID, a data file or the arguments is answered by main() with an exit
    code 0..3: in main's try statement the first handler that matches such an exception must not be the catch-all
    ("something unexpected happened, the program code must be fixed", exit code 4).
    """
    import ast

    from ..model import dotted

    model = ctx.model
    escape, _ = analysis(model)
    main = model.func("cutplace.applications.main")
    ctx.res.minimum("O10.main", 5)
    tries = [node for node in walk_own(main.node) if isinstance(node, ast.Try) and any(
        isinstance(call, ast.Call) and dotted(call.func) == "process" for inner in node.body for call in ast.walk(inner))]
    if len(tries) != 1:
        raise AnalysisError("main() does not call process() inside exactly one try statement")
    handlers = []
    for handler in tries[0].handlers:
        if handler.type is None:
            names = ["builtins.BaseException"]
        else:
            elements = handler.type.elts if isinstance(handler.type, ast.Tuple) else [handler.type]
            names = []
            for element in elements:
                text = dotted(element)
                resolved = model.resolve_dotted(main.module, text)
                if resolved is not None and hasattr(resolved, "qualname"):
                    names.append(resolved.qualname)
                elif text == "EnvironmentError":
                    names.append("builtins.OSError")
                else:
                    names.append("builtins." + text if "." not in text else text)
        gives_4 = any(isinstance(n, (ast.Assign, ast.Return)) and isinstance(n.value, ast.Constant) and n.value.value == 4 for n in ast.walk(handler))
        handlers.append((names, gives_4, handler.lineno))
    if not any(gives_4 for _, gives_4, _ in handlers):
        raise AnalysisError("main() has no handler that answers with exit code 4")
    for item in escape.escapes("cutplace.applications.process"):
        origin_function = item.origin[0].replace("cutplace.", "", 1)
        if not _allowed(escape.lattice, item.cls, (CUTPLACE, OSERROR, "builtins.SystemExit")):
            continue  # not an answer to an input: reported (or triaged) by O10
        short = item.cls.replace("cutplace.errors.", "").replace("builtins.", "")
        what = "main() answers %s from %s with an exit code below 4" % (short, origin_function)
        first = next(((names, gives_4, line) for names, gives_4, line in handlers
                      if any(escape.lattice.is_subclass(item.cls, name) for name in names)), None)
        if item.cls == "builtins.SystemExit" or escape.lattice.is_subclass(item.cls, "builtins.SystemExit"):
            ctx.res.ok("O10.main", what + " (SystemExit passes through: exit code of the argument parser)", True)
        elif first is None or first[1]:
            ctx.res.fail("O10.main", what, "applications.main:O10.main:%s" % item.cls, where_of(model, "cutplace.applications.main"),
                         "%s raised at %s (%s) reaches main()'s catch-all handler: the command line answers a defect of a CID / data file "
                         "with exit code 4 ('the program code must be fixed')" % (short, item.origin[2], origin_function),
                         {"chain": _chain_text(item)})
        else:
            ctx.res.ok("O10.main", what, True)


def rule_oserror_stays_oserror(ctx):
    """O18.3 (shared with C18): an unreadable file must leave the readers as OSError, not as a data error."""
    model = ctx.model
    escape, _ = analysis(model)
    ctx.res.minimum("O18.3", 4)
    readers = {
        "cutplace.rowio.delimited_rows": "io.open",
        "cutplace.rowio.fixed_rows": "io.open",
        "cutplace.rowio.excel_rows": "xlrd.open_workbook",
        "cutplace.rowio.ods_rows": "zipfile.ZipFile",
    }
    for reader, opener in readers.items():
        info = model.func(reader)
        escaping = [item for item in escape.escapes(reader) if escape.lattice.is_subclass(item.cls, OSERROR)]
        what = "%s lets the OSError of %s through unchanged" % (reader.replace("cutplace.", ""), opener)
        if escaping:
            ctx.res.ok("O18.3", what, True, {"site": _chain_text(escaping[0])})
        else:
            ctx.res.fail("O18.3", what, "%s:O18.3:%s" % (reader.replace("cutplace.", ""), opener), "%s (%s)" % (info.loc(), reader.replace("cutplace.", "")),
                         "a missing or unreadable file opened by %s is converted into a data error inside %s: the command line answers "
                         "exit code 1 instead of 3" % (opener, reader.replace("cutplace.", "")))


def rule_range_constructors(ctx):
    from .c01 import DECIMAL_RANGE, RANGE, constructor_table

    ctx.res.minimum("O10.ranges", 2)
    bound = 6 if ctx.thorough else 4
    constructor_table(ctx, "O10.ranges", RANGE, bound, mode="errors")
    constructor_table(ctx, "O10.ranges", DECIMAL_RANGE, bound, mode="errors")


def rule_setters(ctx):
    """The asserts of the DataFormat property setters are discharged by the set_property table (errors only)."""
    from .c11 import rule_set_property

    rule_set_property(ctx, "O10.setters", mode="errors")


def rule_delimited_error_helper(ctx, check_location=False):
    """
    _raise_delimited_data_format_error turns a csv failure into a DataFormatError for EVERY line number the csv reader
    may report (0 = before the first line, 1 = first line, later lines): the location arithmetic must not trip the
    assertions of Location.advance_line.
    """
    from ..absint import AbsRaise, Interp, Obj, Opaque, RInt, exc_name
    from ..tablekit import decide

    model = ctx.model
    ctx.res.minimum("O10.csv-error", 1)
    qualname = "cutplace.rowio._raise_delimited_data_format_error"

    def cell(ch):
        line_number = ch.choose("reader.line_num", [0, 1, 2, 3, 50])
        interp = Interp(model, ch, externals={"os.path.basename": lambda i, a, k: "data.csv"})
        reader = Obj("csv.reader", {"line_num": RInt(line_number)})
        try:
            interp.call_function(model.func(qualname), ["data.csv", reader, Opaque("csv.Error")], {}, None)
            outcome = "returned"
        except AbsRaise as raised:
            outcome = "raise " + exc_name(raised.value)
            location = raised.value.attrs.get("_location") if isinstance(raised.value, Obj) else None
            line = location.attrs.get("_line") if isinstance(location, Obj) else None
            line = line.value if isinstance(line, RInt) else line
            # csv counts the lines it has read: a failure while reading line k is reported with line_num = k, and
            # locations count from 0 (they are shown + 1)
            expected_line = max(line_number - 1, 0)
            if check_location and outcome == "raise DataFormatError" and line != expected_line:
                outcome = "raise DataFormatError naming line %s" % (None if line is None else line + 1)
                return ("line_num=%d" % line_number, outcome, "raise DataFormatError naming line %d" % (expected_line + 1))
        return ("line_num=%d" % line_number, outcome, "raise DataFormatError")

    decide(ctx, "O10.csv-error", "csv failure -> DataFormatError for every line number", qualname, cell, min_cells=5)


def rule_definite_assignment(ctx):
    """
    X-DEF: in every function reachable from the API entry points each read of a local name is preceded by an assignment
    on every path (guard booleans and repeated tests are treated as correlated) - otherwise CID or data text that steers
    execution down that path ends in UnboundLocalError.
    """
    import ast as _ast

    from ..xdef import possibly_unbound

    model = ctx.model
    escape, _ = analysis(model)
    reachable = escape.reachable(list(ENTRY_POINTS))
    ctx.res.minimum("O10.xdef", 150)
    # positive fixture: the rule must flag the classic shape on every run
    fixture = _ast.parse("def f(items):\n    for item in items:\n        if item:\n            found = item\n    return found\n").body[0]
    if [name for name, _, _ in possibly_unbound(fixture)] != ["found"]:
        ctx.res.error("X-DEF positive fixture not flagged")
    for qualname in sorted(reachable):
        func = model.functions[qualname]
        reports = possibly_unbound(func.node)
        what = "%s: every local is assigned before it is read" % qualname.replace("cutplace.", "")
        if not reports:
            ctx.res.ok("O10.xdef", what, False)
        for name, lineno, valuation in reports:
            ctx.res.fail("O10.xdef", what, "%s:O10.xdef:%s" % (qualname.replace("cutplace.", ""), name),
                         "%s:%d (%s)" % (func.module.relpath, lineno, qualname.replace("cutplace.", "")),
                         "local %r may be read before it is assigned (guards %s): UnboundLocalError instead of a cutplace error" % (name, valuation or "none"))


def rule_none_arguments(ctx):
    """
    X-NONE: ``assert x is not None`` is exempt from the assert triage because it restates the calling convention.  Here
    the convention is checked at the callers: no call site reachable from the API hands a value that may be None by
    construction (an attribute filled from a default-None constructor parameter such as CutplaceError.location, a
    default-None parameter of the caller, the literal) to a parameter its callee asserts, unless a test on the same
    expression dominates the call.
    """
    import ast as _ast

    from ..model import Model
    from ..xnone import NoneFlow

    model = ctx.model
    escape, _ = analysis(model)
    reachable = escape.reachable(list(ENTRY_POINTS))
    ctx.res.minimum("O10.none", 1)
    flow = NoneFlow(model, escape.graph)
    findings, judged = flow.findings(reachable)
    if judged < 40:
        ctx.res.error("X-NONE judged only %d argument(s) of not-None parameters" % judged)
    # positive example: CutplaceError.location must be known as possibly None on every run
    location_reason = flow._attribute_reason(model.cls("cutplace.errors.InterfaceError"), "location")
    if location_reason is None:
        ctx.res.error("X-NONE no longer sees that CutplaceError.location may be None")
    what = "no possibly-None value reaches a parameter that is asserted to be not None (%d arguments judged)" % judged
    if not findings:
        ctx.res.ok("O10.none", what, True, {"arguments_judged": judged, "nullable_attributes": {
            name: sorted(attrs) for name, attrs in flow.nullable.items() if attrs}})
    for func, call, target, parameter, text, reason in findings:
        ctx.res.fail("O10.none", what, "%s:O10.none:%s(%s=%s)" % (func.qualname.replace("cutplace.", ""), target.qualname.replace("cutplace.", ""), parameter, text),
                     "%s:%d (%s)" % (func.module.relpath, call.lineno, func.qualname.replace("cutplace.", "")),
                     "%s is passed as %s of %s, which asserts it is not None; it may be None: %s - AssertionError instead of a cutplace error"
                     % (text, parameter, target.qualname.replace("cutplace.", ""), reason))


def rule_count_expressions_cannot_leave_the_process(ctx):
    """O10.count: the rule of a DistinctCount check is evaluated with eval(); a name besides the count (exit, quit, an
    undeclared field behind a short-circuit) must be refused when the CID is loaded - SystemExit is no Exception, so no
    handler of the package would turn it into an interface error (C09's table)."""
    from .c09 import rule_distinct_count_names

    rule_distinct_count_names(ctx, "O10.count")


def rule_field_rows(ctx):
    """Field rows of a CID: every combination of mark, length shape, example and format is accepted or an InterfaceError."""
    from .c09 import rule_field_row

    rule_field_row(ctx, "O10.fieldrow", mode="errors")


from .common import rule_module_state, rule_undefined_attributes  # noqa: E402

def rule_types_one_can_name_are_concrete(ctx):
    """O20.2 (shared with C20): a type cell resolves through the name-to-class maps; they hold the subclasses of the abstract
    base and never the base itself - "Abstract" as a field type must be refused, not answered with NotImplementedError at the
    first value."""
    from .c20 import rule_class_resolution

    rule_class_resolution(ctx)


RULES = [rule_types_one_can_name_are_concrete, rule_escapes, rule_main_mapping, rule_oserror_stays_oserror, rule_range_constructors, rule_setters, rule_field_rows, rule_delimited_error_helper, rule_definite_assignment, rule_none_arguments, rule_count_expressions_cannot_leave_the_process, rule_undefined_attributes, rule_module_state]
