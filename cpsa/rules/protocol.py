"""
Decision tables of the validation driver (validio.py) shared by C04, C05, C06, C07, C08, C14 and C20.

Every table interprets the repository's own functions (BaseValidator.validate_row / close, Reader.__init__ /
rows, validio.rows / validate, Writer.*) on an abstract CID with two recording field formats and two recording
checks; the scenario chooses row widths, header / limit orderings, error modes and the outcome of every
collaborator call, exhaustively.  Each property projects the recorded run onto the clauses it states.
"""
from ..absint import AbsIter, AbsRaise, AText, Atom, GenVal, Interp, Obj, Opaque, Sym, Undecided, exc_name
from ..model import AnalysisError
from ..tablekit import decide, stub
from ..world import CHECK_BAD, CHECK_OK, FIELD_BAD, FIELD_OK, Mismatch, TraceCursor, World, message_mentions, show

VALIDATOR = "cutplace.validio.BaseValidator"
READER = "cutplace.validio.Reader"
WRITER = "cutplace.validio.Writer"


def _construct(interp, class_qualname, args, kwargs=None):
    from ..absint import ClassRef

    return interp.instantiate(ClassRef(interp.model.cls(class_qualname)), args, kwargs or {})


# =============================================================================== validate_row
def validate_row_run(model, ch):
    interp = Interp(model, ch)
    world = World(model, interp, ch)
    fields = [world.recording_field(0), world.recording_field(1)]
    checks = [world.recording_check(0), world.recording_check(1)]
    cid = world.cid(fields, checks, world.data_format())
    validator = _construct(interp, VALIDATOR, [cid])
    line = 4
    location = world.location(line=line)
    validator.attrs["_location"] = location
    world.current_location = location
    width = ch.choose("row width", [1, 2, 3])
    row = []
    kinds = []
    for column in range(width):
        # a surplus cell may be the empty text (a trailing delimiter, a padded sheet): the row is too long all the same
        kind = ch.choose(("cell kind", column), ["str", "not-a-str", "number", "empty"] if column < 2 else ["str", "empty"])
        kinds.append(kind)
        row.append(Atom("cell%d" % column, "cell%d" % column) if kind == "str" else "" if kind == "empty" else 7 if kind == "number" else Opaque("nonstr"))
    info = model.func(VALIDATOR + ".validate_row")
    try:
        interp.call_function(info, [validator, row], {}, None)
        outcome = ("return", None)
    except AbsRaise as raised:
        outcome = ("raise", raised.value)
    return {"interp": interp, "world": world, "width": width, "kinds": kinds, "row": row, "outcome": outcome,
            "location": location, "line": line, "validator": validator}


def validate_row_oracle(run, aspects=("location",)):
    """C04: count check first; fields in order with set_cell(i), stop at first failure, error names field and
    location; checks in declaration order only after all fields passed."""
    cursor = TraceCursor(run["interp"].events)
    outcome = run["outcome"]
    line = run["line"]

    def expect_raise(class_name, cell=None, mentions=None):
        if outcome[0] != "raise":
            raise Mismatch("row accepted, expected %s" % class_name)
        error = outcome[1]
        if exc_name(error) != class_name:
            raise Mismatch("raised %s, expected %s" % (exc_name(error), class_name))
        if "location" not in aspects:
            return
        error_location = error.attrs.get("_location")
        if not isinstance(error_location, Obj):
            raise Mismatch("%s carries no location" % class_name)
        if error_location is run["location"]:
            raise Mismatch("%s stores the live location cursor instead of a copy" % class_name)
        if error_location.attrs.get("_line") != line:
            raise Mismatch("%s located at line %r, expected %r" % (class_name, error_location.attrs.get("_line"), line))
        if cell is not None and error_location.attrs.get("_cell") != cell:
            raise Mismatch("%s located at cell %r, expected %r" % (class_name, error_location.attrs.get("_cell"), cell))
        if mentions is not None and not message_mentions(error, mentions):
            raise Mismatch("message of %s does not name field %s" % (class_name, mentions))

    try:
        if run["width"] != 2:
            expect_raise("DataError")
            cursor.done()
            return "conforms"
        # round 11: a cell may be the empty text - it goes to its field and, with the others, to every check like any
        # other text (a row of empty cells is a row: two of them violate IsUnique, and DistinctCount counts the value)
        shown = ["cell%d" % column if run["kinds"][column] == "str" else repr("") for column in range(2)]
        for column in range(2):
            name = "f%d" % column
            if run["kinds"][column] not in ("str", "empty"):
                expect_raise("FieldValueError", column, name)
                cursor.done()
                return "conforms"
            result = cursor.expect("validated", name, shown[column], "line=%d" % line, "cell=%d" % column)
            if result == FIELD_BAD:
                expect_raise("FieldValueError", column, name)
                cursor.done()
                return "conforms"
        for index in range(2):
            name = "c%d" % index
            result = cursor.expect("check_row", name, [("f0", shown[0]), ("f1", shown[1])], "line=%d" % line, "cell=0")
            if result == CHECK_BAD:
                expect_raise("CheckError")
                cursor.done()
                return "conforms"
        cursor.done()
        if outcome[0] != "return":
            raise Mismatch("raised %s for a row whose cells and checks all passed" % exc_name(outcome[1]))
        return "conforms"
    except Mismatch as mismatch:
        return str(mismatch)


def validate_row_table(ctx, rule, aspects=("location",)):
    def cell(ch):
        run = validate_row_run(ctx.model, ch)
        key = "width=%d cells=%s events=%s" % (
            run["width"], "/".join(run["kinds"]),
            ",".join("%s:%s" % (event[1], event[-1]) for event in run["interp"].events))
        return (key, validate_row_oracle(run, aspects), "conforms")

    return decide(ctx, rule, "validate_row(2 fields, 2 checks)", VALIDATOR + ".validate_row", cell, min_cells=15)


# =============================================================================== Reader.rows and the functions on top
def _reader_world(model, ch, entry, checks_end=(CHECK_OK,), n_rows_options=(0, 1, 2, 3), with_faults=True,
                  modes=("raise", "yield", "continue"), numeric="order"):
    """
    numeric="order": the header count and the limit are order symbols (all integers at once; only comparisons allowed).
    numeric="regions": used when the code does arithmetic on them - every value 0..rows+2 as a region representative;
    values beyond the number of rows plus the largest constant added behave like the largest representative.
    """
    rows_holder = {}

    @stub
    def raw_rows_stub(interp, args, kwargs):
        def produce(index):
            if rows_holder.get("warm_up"):
                return rows_holder["rows"][index] if index < len(rows_holder["rows"]) else AbsIter.STOP
            if rows_holder["fault_at"] == index:
                interp.event("container-fault", index, None)
                interp.raise_("cutplace.errors.DataFormatError", Opaque("str", True, ["<broken container>"]), None)
            if index >= len(rows_holder["rows"]):
                return AbsIter.STOP
            interp.event("fetch", index, None)
            return rows_holder["rows"][index]

        return AbsIter(produce, "raw rows")

    @stub
    def validate_row_stub(interp, args, kwargs):
        validator, row = args
        location = validator.attrs.get("_location")
        if rows_holder.get("warm_up"):
            return None  # first pass of a "second pass" run: every row is fine, nothing is recorded
        outcome = ch.choose(("validate_row", len(interp.events)), ["ok", "DataError"])
        row_id = rows_holder["ids"].get(id(row), "?")
        interp.event("validate_row", row_id, "line=%s" % (location.attrs.get("_line") if isinstance(location, Obj) else None), outcome)
        if outcome == "DataError":
            error = interp.make_exception("cutplace.errors.FieldValueError", Opaque("str", True, ["<bad row>"]), location)
            rows_holder["errors"][row_id] = error
            raise AbsRaise(error)

    stubs = {READER + "._raw_rows": raw_rows_stub, VALIDATOR + ".validate_row": validate_row_stub}
    interp = Interp(model, ch, stubs=stubs)
    world = World(model, interp, ch)
    checks = [world.recording_check(0, end_outcomes=checks_end), world.recording_check(1, end_outcomes=checks_end)]
    limit_kind = ch.choose("limit", ["none", "n"])
    mode = ch.choose("mode", list(modes)) if entry in ("Reader.rows", "Reader.rows twice", "rows()", "validate_rows") else "raise"
    n_rows = ch.choose("raw rows", list(n_rows_options))
    if numeric == "order":
        header = Sym("h", integer=True)
        limit = None if limit_kind == "none" else Sym("n", integer=True)
        # API contract: header >= 0 (DataFormat.header setter), limit >= 0 (asserted by Reader / rows / validate)
        interp.order.declare(("s", "h"), ">=", ("c", 0))
        interp.order.declare(("s", "n"), ">=", ("c", 0))
    else:
        from ..absint import RInt

        top = max(n_rows_options) + 2
        header = RInt(ch.choose("h", list(range(0, top + 1))))
        limit = None if limit_kind == "none" else RInt(ch.choose("n", list(range(0, top + 1))))
    fault_at = ch.choose("container fault", [None] + list(range(n_rows + 1))) if with_faults else None
    rows = [world.row(index, 2) for index in range(n_rows)]
    rows_holder.update({"rows": rows, "fault_at": fault_at, "ids": {id(row): index for index, row in enumerate(rows)}, "errors": {}})
    cid = world.cid([world.recording_field(0), world.recording_field(1)], checks, world.data_format(header=header))
    return {"interp": interp, "world": world, "cid": cid, "header": header, "limit": limit, "mode": mode, "rows": rows,
            "fault_at": fault_at, "holder": rows_holder, "n_rows": n_rows}


def reader_rows_run(model, ch, entry="Reader.rows", max_rows=3, numeric="order"):
    """entry: "Reader.rows" (generator of a Reader), "rows()" (validio.rows), "validate()" (validio.validate),
    "validate_rows" (Reader.validate_rows inside with, as the command line does)."""
    # the wrappers close the run themselves: their end checks may fail, also after the run was stopped by an error - which
    # must then stay the error the caller sees
    checks_end = (CHECK_OK, CHECK_BAD) if entry in ("rows()", "validate()") else (CHECK_OK,)
    run = _reader_world(model, ch, entry, checks_end=checks_end, n_rows_options=tuple(range(0, max_rows + 1)), numeric=numeric)
    interp, cid = run["interp"], run["cid"]
    stream = run["world"].stream()
    items = []
    reader = None
    try:
        if entry in ("Reader.rows", "Reader.rows twice"):
            reader = _construct(interp, READER, [cid, stream], {"on_error": run["mode"], "validate_until": run["limit"]})
            if entry == "Reader.rows twice":
                # a complete first pass over the same data; what is compared is the second pass on the same Reader
                run["holder"]["warm_up"] = True
                for _ in interp.iterate(interp.call_function(model.func(READER + ".rows"), [reader], {}, None)):
                    pass
                run["holder"]["warm_up"] = False
                del interp.events[:]
            generator = interp.call_function(model.func(READER + ".rows"), [reader], {}, None)
        elif entry == "rows()":
            generator = interp.call_function(model.func("cutplace.validio.rows"), [cid, stream, run["mode"], run["limit"]], {}, None)
        elif entry == "validate()":
            generator = None
            interp.call_function(model.func("cutplace.validio.validate"), [cid, stream], {"validate_until": run["limit"]}, None)
        elif entry == "validate_rows":
            generator = None
            reader = _construct(interp, READER, [cid, stream], {"on_error": run["mode"], "validate_until": run["limit"]})
            interp.call_function(model.func(READER + ".validate_rows"), [reader], {}, None)
        else:
            raise AnalysisError("unknown entry %s" % entry)
        if generator is not None:
            if not isinstance(generator, GenVal):
                raise Undecided("%s did not return a generator" % entry)
            for item in interp.iterate(generator):
                interp.event("yield", item, None)
                items.append(item)
        outcome = ("return", None)
    except AbsRaise as raised:
        outcome = ("raise", raised.value)
    run.update({"outcome": outcome, "items": items, "reader": reader, "entry": entry})
    return run


def _sign_const_sym(interp, constant, symbol):
    if isinstance(symbol, Sym):
        return interp.order.sign(("c", constant), ("s", symbol.key()))
    return (constant > symbol.value) - (constant < symbol.value)  # region representative


def reader_rows_oracle(run, aspects):
    """
    Walks the recorded run of Reader.rows against the statements of C04 (line numbering), C06 (modes, counters,
    container faults), C07 (header / limit window) and C20 (reset once before the first row, no calls outside the
    window).  ``aspects`` selects which clauses are compared: "window", "modes", "lines", "reset", "faults".
    """
    interp = run["interp"]
    cursor = TraceCursor([event for event in interp.events])
    outcome = run["outcome"]
    mode = run["mode"]
    entry = run["entry"]
    accepted = rejected = 0
    yielded_data_rows = 0
    try:
        never_started = (
            entry == "validate()" and run["limit"] is not None
            and _sign_const_sym(interp, 0, run["limit"]) >= 0
        )
        if never_started:
            # validate(..., validate_until=0) never starts reading: nothing but the end of the run happens
            # (a reset before the end verdict is permitted: the verdict must be the one of a fresh CID - C08)
            while cursor.peek_is("reset"):
                cursor.position += 1
            end_failed = _expect_close(cursor, entry, aspects)
            cursor.done()
            if end_failed != (outcome[0] == "raise" and exc_name(outcome[1]) == "CheckError"):
                raise Mismatch("end verdict %s but the run %s" % ("failed" if end_failed else "passed", "returned" if outcome[0] == "return" else "raised " + exc_name(outcome[1])))
            return "conforms"
        # every check is reset exactly once before anything else happens
        seen = set()
        while cursor.peek_is("reset"):
            name = cursor.events[cursor.position][1]
            cursor.position += 1
            if name in seen and "reset" in aspects:
                raise Mismatch("check %s reset twice" % name)
            seen.add(name)
        if "reset" in aspects and seen != {"c0", "c1"}:
            raise Mismatch("checks reset before the first row: %s, expected c0 and c1" % sorted(seen))
        stopped = None
        k = 0
        while stopped is None:
            k += 1
            index = k - 1
            if entry == "validate()" and run["limit"] is not None:
                # validate() stops pulling once `limit` rows were returned by rows()
                if _sign_const_sym(interp, yielded_data_rows, run["limit"]) >= 0:
                    stopped = "limit"
                    break
            if run["fault_at"] == index:
                cursor.expect("container-fault", index)
                stopped = "fault"
                break
            if index >= run["n_rows"]:
                stopped = "end"
                break
            cursor.expect("fetch", index)
            is_data = _sign_const_sym(interp, k, run["header"]) > 0
            is_validated = is_data and (run["limit"] is None or _sign_const_sym(interp, k, run["limit"]) <= 0)
            if "window" not in aspects:
                # take the window from what the code did: a validate_row event or an unvalidated yield of this row
                is_validated = cursor.peek_is("validate_row", index)
                is_data = is_validated or (
                    cursor.peek_is("yield") and cursor.events[cursor.position][1] is run["rows"][index]
                )
            if not is_data:
                continue
            if is_validated:
                if "lines" in aspects:
                    result = cursor.expect("validate_row", index, "line=%d" % index)
                else:
                    result = cursor.expect("validate_row", index)
                if result == "DataError":
                    error = run["holder"]["errors"].get(index)
                    if mode == "raise":
                        stopped = "raised"
                        if outcome[0] != "raise" or outcome[1] is not error:
                            raise Mismatch("mode raise: the row error of raw row %d was not raised%s" % (
                                k, " (%s was raised instead)" % exc_name(outcome[1]) if outcome[0] == "raise" else ""))
                        break
                    rejected += 1
                    if mode == "yield":
                        if entry not in ("validate()", "validate_rows"):
                            item = cursor.expect("yield")
                            if cursor.events[cursor.position - 1][1] is not error:
                                raise Mismatch("mode yield: rejected raw row %d did not produce its own error" % k)
                    continue
            accepted += 1
            yielded_data_rows += 1
            if entry not in ("validate()", "validate_rows"):
                cursor.expect("yield")
                if cursor.events[cursor.position - 1][1] is not run["rows"][index]:
                    raise Mismatch("raw row %d was not returned unchanged" % k)
        # end of data
        if stopped == "fault":
            if "faults" in aspects:
                if outcome[0] != "raise" or exc_name(outcome[1]) != "DataFormatError":
                    raise Mismatch("container fault at raw row %d did not stop reading with DataFormatError in mode %s%s" % (
                        k, mode, " (it was replaced by %s)" % exc_name(outcome[1]) if outcome[0] == "raise" else ""))
            if entry not in ("Reader.rows", "Reader.rows twice", "validate_rows"):
                _expect_close(cursor, entry, aspects)
            cursor.done()
            return "conforms"
        if stopped == "raised":
            if entry not in ("Reader.rows", "Reader.rows twice", "validate_rows"):
                _expect_close(cursor, entry, aspects)
            cursor.done()
            return "conforms"
        end_failed = False
        if entry not in ("Reader.rows", "Reader.rows twice", "validate_rows"):
            end_failed = _expect_close(cursor, entry, aspects)
        cursor.done()
        if end_failed:
            if outcome[0] != "raise" or exc_name(outcome[1]) != "CheckError":
                raise Mismatch("an end check failed after a complete pass but the run ended with %s" % (
                    "a normal return" if outcome[0] == "return" else exc_name(outcome[1])))
            return "conforms"
        if outcome[0] != "return":
            raise Mismatch("raised %s after a complete pass" % exc_name(outcome[1]))
        if "modes" in aspects and run["reader"] is not None:
            counters = (run["reader"].attrs.get("accepted_rows_count"), run["reader"].attrs.get("rejected_rows_count"))
            if counters != (accepted, rejected):
                raise Mismatch("counters (accepted, rejected) are %r, expected %r" % (counters, (accepted, rejected)))
        return "conforms"
    except Mismatch as mismatch:
        return str(mismatch)


def _expect_close(cursor, entry, aspects=("reset",)):
    """rows() and validate() run the end checks in declaration order and then clean every check up."""
    while "reset" not in aspects and cursor.peek_is("reset"):
        cursor.position += 1  # resets are the business of the tables that compare the reset protocol (C08, C20)
    result = cursor.expect("check_at_end", "c0")
    if result == CHECK_OK:
        result = cursor.expect("check_at_end", "c1")
    seen = set()
    while cursor.peek_is("cleanup"):
        seen.add(cursor.events[cursor.position][1])
        cursor.position += 1
    if seen != {"c0", "c1"}:
        raise Mismatch("cleanup ran for %s, expected c0 and c1" % sorted(seen))
    return result != CHECK_OK


def _rows_key(run):
    interp = run["interp"]
    facts = ", ".join("%s%s%s" % (a[1], rel, b[1]) for a, rel, b in interp.order.facts)
    if not isinstance(run["header"], Sym):
        facts = "h=%d%s" % (run["header"].value, "" if run["limit"] is None else ", n=%d" % run["limit"].value)
    calls = ",".join("%s:%s" % (event[1], event[-1]) for event in interp.events if event[0] == "validate_row")
    return "%s mode=%s limit=%s rows=%d fault=%s order[%s] validate_row[%s]" % (
        run["entry"], run["mode"], "none" if run["limit"] is None else "n", run["n_rows"], run["fault_at"], facts, calls)


def reader_rows_table(ctx, rule, aspects, entry="Reader.rows"):
    max_rows = 4 if ctx.thorough else 3

    numeric = ["order"]

    def cell(ch):
        run = reader_rows_run(ctx.model, ch, entry, max_rows, numeric[0])
        return (_rows_key(run), reader_rows_oracle(run, aspects), "conforms")

    qualname = {"Reader.rows": READER + ".rows", "Reader.rows twice": READER + ".rows", "rows()": "cutplace.validio.rows",
                "validate()": "cutplace.validio.validate", "validate_rows": READER + ".validate_rows"}[entry]
    table = "%s[%s]" % (entry, "+".join(sorted(aspects)))
    try:
        return decide(ctx, rule, table, qualname, cell, min_cells=40)
    except AnalysisError as error:
        if "on order symbol" not in str(error) and "range over abstract bounds" not in str(error):
            raise
        # the code computes with the header count or the limit: decide on region representatives instead
        numeric[0] = "regions"
        ctx.res.note("%s: %s does arithmetic on the header count / limit; decided on the values 0..%d instead of order symbols"
                     % (rule, table, max_rows + 2))
        return decide(ctx, rule, table, qualname, cell, min_cells=40)


# =============================================================================== close
def close_table(ctx, rule, class_qualname=VALIDATOR):
    model = ctx.model

    def cell(ch):
        interp = Interp(model, ch)
        world = World(model, interp, ch)
        checks = [world.recording_check(0), world.recording_check(1)]
        cid = world.cid([world.recording_field(0)], checks, world.data_format())
        validator = _construct(interp, VALIDATOR, [cid])
        validator.attrs["_location"] = world.location()
        calls = ch.choose("close calls", [1, 2])
        outcomes = []
        close_info = model.func(VALIDATOR + ".close")
        for _ in range(calls):
            try:
                interp.call_function(close_info, [validator], {}, None)
                outcomes.append("return")
            except AbsRaise as raised:
                outcomes.append("raise " + exc_name(raised.value))
        cursor = TraceCursor(interp.events)
        try:
            failed = False
            for index in range(2):
                if cursor.expect("check_at_end", "c%d" % index) == CHECK_BAD:
                    failed = True
                    break
            seen = []
            while cursor.peek_is("cleanup"):
                seen.append(cursor.events[cursor.position][1])
                cursor.position += 1
            if sorted(seen) != ["c0", "c1"]:
                raise Mismatch("cleanup ran for %s, expected every check exactly once" % seen)
            if outcomes[0] != ("raise CheckError" if failed else "return"):
                raise Mismatch("first close() gave %s" % outcomes[0])
            if calls == 2 and not failed:
                if outcomes[1] != "return":
                    raise Mismatch("second close() gave %s" % outcomes[1])
                cursor.done()  # second call: no events at all
            elif calls == 2:
                # every check is asked for its end verdict ONCE and cleaned up ONCE per run - also when the verdict was a
                # failure: a second close() (leaving a with block after an explicit close(), a finally clause) does nothing
                if outcomes[1] != "return":
                    raise Mismatch("second close() after a failed end check gave %s (the checks were asked again)" % outcomes[1])
                cursor.done()
            else:
                cursor.done()
            verdict = "conforms"
        except Mismatch as mismatch:
            verdict = str(mismatch)
        key = "calls=%d events=%s" % (calls, ",".join("%s.%s:%s" % (e[1], e[0], e[-1]) for e in interp.events))
        return (key, verdict, "conforms")

    return decide(ctx, rule, "close(2 checks)", VALIDATOR + ".close", cell, min_cells=4)


# =============================================================================== Writer
def install_writer_externals(interp):
    """Stubs of csv.writer / io.StringIO and the abstract formatted-row text used by the delimited row writer."""
    def csv_writer(interp_, args, kwargs):
        stream = args[0]
        terminator = kwargs.get("lineterminator", "\r\n")

        @stub
        def writerow(interp2, args2, kwargs2):
            if isinstance(stream, Obj) and stream.attrs.get("is_row_buffer"):
                # the row is formatted into an in-memory buffer and forwarded by the row writer; rows formatted without
                # emptying the buffer in between accumulate
                formatted = RowText(args2[0], terminator)
                content = stream.attrs.get("content")
                if isinstance(content, RowText):
                    stream.attrs["content"] = MultiRowText([content, formatted])
                elif isinstance(content, MultiRowText):
                    stream.attrs["content"] = MultiRowText(content.rows + [formatted])
                else:
                    stream.attrs["content"] = formatted
            elif isinstance(stream, Obj) and not isinstance(stream.cls, str):
                # a sink object of the repository's own (any class with a write method): csv.writer hands it the formatted
                # row in one write() call
                interp2.call(interp2.getattr(stream, "write"), [RowText(args2[0], terminator)], {})
            else:
                interp2.event("emit", args2[0], terminator)

        return Obj("csv.writer", {"writerow": writerow}, label="csv.writer")

    def string_io(interp_, args, kwargs):
        buffer = Obj("io.StringIO", {"is_row_buffer": True, "content": ""}, label="row buffer")
        buffer.attrs["seek"] = stub(lambda i, a, k: 0)
        buffer.attrs["truncate"] = stub(lambda i, a, k: buffer.attrs.__setitem__("content", ""))
        buffer.attrs["getvalue"] = stub(lambda i, a, k: buffer.attrs["content"])
        buffer.attrs["close"] = stub(lambda i, a, k: None)
        return buffer

    interp.externals["csv.writer"] = csv_writer
    interp.externals["io.StringIO"] = string_io
    interp.externals["text_endswith"] = lambda i, a, k: a[0].terminator.endswith(a[1]) if isinstance(a[0], RowText) and isinstance(a[1], str) \
        else (_ for _ in ()).throw(Undecided("endswith on %r" % (a[0],)))
    interp.externals["text_subscript"] = _row_text_subscript
    previous_binop = interp.externals.get("binop")

    def binop_with_rows(interp_, args, kwargs):
        import ast as _ast

        op, left, right = args
        if isinstance(op, _ast.Add) and isinstance(left, RowText) and isinstance(right, str):
            return RowText(left.row, left.terminator + right, left.cells_rewritten)
        if isinstance(op, _ast.Add) and isinstance(left, MultiRowText) and isinstance(right, str):
            last = left.rows[-1]
            return MultiRowText(left.rows[:-1] + [RowText(last.row, last.terminator + right, last.cells_rewritten)])
        if previous_binop is not None:
            return previous_binop(interp_, args, kwargs)
        return NotImplemented

    interp.externals["binop"] = binop_with_rows


def _writer_world(model, ch, format_name="delimited", interp=None, world=None, cid=None, header=None):
    holder = {"errors": {}, "ids": {}, "forms": {}}

    def identify(row):
        """Which of the rows handed to write_row is this - the very object, or (fixed format) a copy with padded cells?"""
        if id(row) in holder["ids"]:
            return holder["ids"][id(row)], "as given"
        for index, known in enumerate(holder.get("rows", [])):
            if isinstance(row, (list, tuple)) and len(row) == len(known) and all(
                    cell is original or getattr(cell, "padded_from", None) is original for cell, original in zip(row, known)):
                padded = [getattr(cell, "padded_from", None) is not None for cell in row]
                short = [getattr(original, "short", False) for original in known]
                return index, "padded to the field widths" if padded == short else "partly padded"
        return "?", None

    @stub
    def validate_row_stub(interp_, args, kwargs):
        validator, row = args
        outcome = ch.choose(("validate_row", len(interp_.events)), ["ok", "DataError"])
        row_id, form = identify(row)
        holder["forms"][row_id] = form
        interp_.event("validate_row", row_id, outcome)
        if outcome == "DataError":
            error = interp_.make_exception("cutplace.errors.FieldValueError", Opaque("str", True, ["<bad row>"]), None)
            holder["errors"][row_id] = error
            raise AbsRaise(error)

    if interp is None:
        interp = Interp(model, ch)
        world = World(model, interp, ch)
    interp.stubs[VALIDATOR + ".validate_row"] = validate_row_stub
    install_writer_externals(interp)
    if header is None:
        header = Sym("h", integer=True)
        interp.order.declare(("s", "h"), ">=", ("c", 0))
    if cid is None:
        checks = [world.recording_check(0), world.recording_check(1)]
        cid = world.cid([world.recording_field(0), world.recording_field(1)], checks, world.data_format(format_name, header=header))

    @stub
    def stream_write(interp_, args, kwargs):
        interp_.event("write", args[0], None)

    @stub
    def stream_close(interp_, args, kwargs):
        interp_.event("stream-close", None, None)

    target = Obj("io.StringIO", {"name": "<target>", "write": stream_write, "close": stream_close}, label="target")
    return {"interp": interp, "world": world, "cid": cid, "header": header, "holder": holder, "target": target}


class RowText(AText):
    """A row formatted by the (stubbed) csv writer: the cells of ``row`` followed by ``terminator``."""

    custom_eq = True

    def __init__(self, row, terminator, cells_rewritten=False):
        AText.__init__(self, AText.TEXT, "formatted row")
        self.row = row
        self.terminator = terminator
        self.cells_rewritten = cells_rewritten
        text = self

        @stub
        def replace(interp, args, kwargs):
            old, new = args[0], args[1]
            if not (isinstance(old, str) and isinstance(new, str) and old):
                raise Undecided("replace(%r, %r) on a formatted row" % (old, new))
            # a textual replacement cannot tell the terminator from the same characters inside a quoted cell
            return RowText(text.row, text.terminator.replace(old, new), cells_rewritten=True)

        self.methods = {"replace": replace}


class MultiRowText(AText):
    """Several formatted rows one after the other (a buffer that was not emptied between rows)."""

    custom_eq = True

    def __init__(self, rows):
        AText.__init__(self, AText.TEXT, "formatted rows")
        self.rows = list(rows)
        text = self

        @stub
        def replace(interp, args, kwargs):
            replaced = [interp.call(row.methods["replace"], list(args), dict(kwargs)) for row in text.rows]
            return MultiRowText(replaced)

        self.methods = {"replace": replace}


def _row_text_subscript(interp, args, kwargs):
    text, index = args
    if isinstance(text, MultiRowText) and isinstance(index, slice) and index.start is None and index.step is None \
            and isinstance(index.stop, int) and index.stop < 0 and -index.stop <= len(text.rows[-1].terminator):
        last = text.rows[-1]
        return MultiRowText(text.rows[:-1] + [RowText(last.row, last.terminator[: index.stop], last.cells_rewritten)])
    if isinstance(text, RowText) and isinstance(index, slice) and index.start is None and index.step is None \
            and isinstance(index.stop, int) and index.stop < 0 and -index.stop <= len(text.terminator):
        return RowText(text.row, text.terminator[: index.stop], text.cells_rewritten)
    raise Undecided("subscript %r of %r" % (index, text))


class FixedCell(AText):
    """A cell of a fixed-width row: exactly as wide as its field or shorter."""

    def __init__(self, name, column, short):
        AText.__init__(self, AText.TEXT, name)
        self.column = column
        self.short = short
        self.padded_from = None


class _PadAmount:
    def __init__(self, column):
        self.column = column


class _Padding:
    def __init__(self, column):
        self.column = column


LINE_DELIMITERS = ["any", "\n", "\r", "\r\n", None]


def write_rows_agreement_table(ctx, rule):
    """
    Sibling agreement inside the row writers: ``write_rows(rows)`` puts on the target stream exactly what ``write_row`` puts
    there row by row (same cells, same terminators, nothing rewritten inside cells), and moves the location as far.
    """
    from ..absint import ClassRef
    from ..tablekit import decide as _decide

    model = ctx.model

    def emitted(interp):
        result = []
        for event in interp.events:
            if event[0] == "write":
                text = event[1]
                parts = text.rows if isinstance(text, MultiRowText) else [text]
                for part in parts:
                    if isinstance(part, RowText):
                        result.append(("row %s" % show(part.row), part.terminator, "cells rewritten" if part.cells_rewritten else "cells intact"))
                    else:
                        result.append(("text", show(part) if not isinstance(part, str) else part, ""))
            elif event[0] == "emit":
                result.append(("row %s" % show(event[1]), event[2], "cells intact"))
        return result

    def run(ch, writer_class, line_delimiter, n_rows, bulk):
        interp = Interp(model, ch)
        install_writer_externals(interp)
        world = World(model, interp, ch)

        @stub
        def stream_write(interp_, args, kwargs):
            interp_.event("write", args[0], None)

        target = Obj("io.StringIO", {"name": "<target>", "write": stream_write, "close": stub(lambda i, a, k: None)}, label="target")
        data_format = world.data_format("delimited", _line_delimiter=line_delimiter)
        writer = interp.instantiate(ClassRef(model.cls(writer_class)), [target, data_format], {})
        rows = [world.row(index, 2) for index in range(n_rows)]
        try:
            if bulk:
                interp.call(interp.getattr(writer, "write_rows"), [rows], {})
            else:
                for row in rows:
                    interp.call(interp.getattr(writer, "write_row"), [row], {})
            outcome = "written"
        except AbsRaise as raised:
            outcome = "raise " + exc_name(raised.value)
        location = writer.attrs.get("_location")
        line = location.attrs.get("_line") if isinstance(location, Obj) else None
        return (outcome, emitted(interp), line)

    def cell(ch):
        line_delimiter = ch.choose("line delimiter", ["any", "\n", "\r", "\r\n"])
        n_rows = ch.choose("rows", [0, 1, 2, 3])
        one_by_one = run(ch, "cutplace.rowio.DelimitedRowWriter", line_delimiter, n_rows, False)
        at_once = run(ch, "cutplace.rowio.DelimitedRowWriter", line_delimiter, n_rows, True)
        return ("line delimiter %r, %d row(s)" % (line_delimiter, n_rows), at_once, one_by_one)

    ctx.res.minimum(rule, 1)
    return _decide(ctx, rule, "DelimitedRowWriter.write_rows agrees with write_row", "cutplace.rowio.AbstractRowWriter.write_rows", cell, min_cells=16)


def writer_run(model, ch, format_name="delimited", field_class=None, row_counts=None):
    run = _writer_world(model, ch, format_name)
    interp = run["interp"]
    if field_class is not None:
        # the recording fields keep their recording validated(); only the type the writer may look at changes
        for field in run["cid"].attrs["_field_formats"]:
            field.cls = model.cls(field_class)
    widths = []
    line_delimiter = ch.choose("line delimiter", LINE_DELIMITERS if format_name == "fixed" else LINE_DELIMITERS[:4])
    run["cid"].attrs["_data_format"].attrs["_line_delimiter"] = line_delimiter
    csv_keywords = {}
    if format_name == "fixed":
        # widths are part of the CID; region representatives: a cell is exactly as wide as its field or shorter.
        # Only width - len (unit slope) and comparisons are applied to them by the code under analysis.
        widths = [3, 2]
        for index, field in enumerate(run["cid"].attrs["_field_formats"]):
            width = widths[index]
            field.attrs["_length"] = Obj(model.cls("cutplace.ranges.Range"), {"_items": [(width, width)], "_lower_limit": width,
                                                                             "_upper_limit": width}, label="length%d" % index)

        def text_len(interp_, args, kwargs):
            (cell,) = args
            if isinstance(cell, FixedCell):
                if cell.short and cell.padded_from is None:
                    return 1
                if cell.padded_from is not None:
                    return 1 + len(cell.pad)
                return widths[cell.column]
            raise Undecided("len of %r" % (cell,))

        def binop_hook(interp_, args, kwargs):
            import ast as _ast

            op, left, right = args
            if isinstance(op, _ast.Add) and isinstance(left, FixedCell) and isinstance(right, str) and left.padded_from is None:
                padded = FixedCell(left.name + "+pad", left.column, left.short)
                padded.padded_from = left
                padded.pad = right
                return padded
            if isinstance(op, _ast.Add) and isinstance(right, FixedCell) and isinstance(left, str) and right.padded_from is None:
                padded = FixedCell("pad+" + right.name, right.column, right.short)
                padded.padded_from = right
                padded.pad = left
                padded.pad_left = True
                return padded
            return NotImplemented

        interp.externals["text_len"] = text_len
        interp.externals["binop"] = binop_hook
    else:
        original = interp.externals["csv.writer"]

        def csv_writer(interp_, args, kwargs):
            csv_keywords.update(kwargs)
            return original(interp_, args, kwargs)

        interp.externals["csv.writer"] = csv_writer
    n_rows = ch.choose("rows to write", row_counts or ([0, 1, 2, 3] if format_name != "fixed" else [0, 1, 2]))
    rows = []
    for index in range(n_rows):
        if format_name == "fixed":
            rows.append([FixedCell("r%dc%d" % (index, column), column, ch.choose(("short", index, column), [False, True]))
                         for column in range(2)])
        else:
            rows.append(run["world"].row(index, 2))
    run["holder"]["ids"] = {id(row): index for index, row in enumerate(rows)}
    run["holder"]["rows"] = rows
    outcomes = []
    writer = None
    try:
        writer = _construct(interp, WRITER, [run["cid"], run["target"]])
        interp.event("constructed", None, None)
        write_row = model.func(WRITER + ".write_row")
        for index, row in enumerate(rows):
            interp.event("call write_row", index, None)
            try:
                interp.call_function(write_row, [writer, row], {}, None)
                outcomes.append("written")
            except AbsRaise as raised:
                outcomes.append(raised.value)
        interp.event("call close", None, None)
        try:
            interp.call_function(model.func(WRITER + ".close"), [writer], {}, None)
            outcomes.append("closed")
        except AbsRaise as raised:
            outcomes.append(raised.value)
    except AbsRaise as raised:
        outcomes.append(("constructor", raised.value))
    run.update({"rows": rows, "outcomes": outcomes, "writer": writer, "n_rows": n_rows, "format": format_name,
                "line_delimiter": line_delimiter, "csv_keywords": csv_keywords})
    return run


def _expect_fixed_emit(cursor, row, line_delimiter, index):
    from ..absint import ExtRef, fragments

    if not cursor.peek_is("write"):
        raise Mismatch("accepted row %d was not emitted" % index)
    text = cursor.events[cursor.position][1]
    cursor.position += 1
    parts = [part for part in fragments(text) if not (isinstance(part, str) and part == "")]
    if len(parts) != len(row):
        raise Mismatch("row %d emitted as %d items, expected %d" % (index, len(parts), len(row)))
    for cell, part in zip(row, parts):
        if cell.short:
            if not (isinstance(part, FixedCell) and part.padded_from is cell and part.pad == " " * ([3, 2][cell.column] - 1)
                    and not getattr(part, "pad_left", False)):
                raise Mismatch("short cell %s of row %d was not right-padded with blanks to its width" % (cell.name, index))
        elif part is not cell:
            raise Mismatch("cell %s of row %d (already as wide as its field) was not emitted unchanged" % (cell.name, index))
    if line_delimiter is None:
        if cursor.peek_is("write"):
            raise Mismatch("line delimiter 'none': something was written after row %d" % index)
        return
    if not cursor.peek_is("write"):
        raise Mismatch("row %d was not terminated by a line delimiter" % index)
    terminator = cursor.events[cursor.position][1]
    cursor.position += 1
    if line_delimiter == "any":
        if not (isinstance(terminator, ExtRef) and terminator.name == "os.linesep") and terminator not in ("\n", "\r", "\r\n"):
            raise Mismatch("line delimiter 'any': row %d terminated by %r" % (index, terminator))
    elif terminator != line_delimiter:
        raise Mismatch("declared line delimiter %r but row %d is terminated by %r" % (line_delimiter, index, terminator))


def writer_oracle(run, aspects):
    """C14 / C20 writer side: reset before the first row, validate before emit past the header, nothing emitted for a
    rejected row, writer usable afterwards, close runs end checks and closes the delegate."""
    interp = run["interp"]
    cursor = TraceCursor(interp.events)
    fixed = run["format"] == "fixed"
    try:
        if run["outcomes"] and isinstance(run["outcomes"][-1], tuple):
            raise Mismatch("Writer constructor raised %s" % exc_name(run["outcomes"][-1][1]))
        seen = set()
        while cursor.peek_is("reset"):
            seen.add(cursor.events[cursor.position][1])
            cursor.position += 1
        if "reset" in aspects and seen != {"c0", "c1"}:
            raise Mismatch("a new Writer resets %s before its first row, expected c0 and c1" % sorted(seen))
        cursor.expect("constructed")
        written = 0
        for index in range(run["n_rows"]):
            cursor.expect("call write_row", index)
            while "reset" not in aspects and cursor.peek_is("reset"):
                cursor.position += 1
            is_validated = interp.order.sign(("c", written), ("s", run["header"].key())) >= 0
            rejected = False
            if is_validated:
                if cursor.expect("validate_row", index) == "DataError":
                    rejected = True
                    if run["outcomes"][index] is not run["holder"]["errors"].get(index):
                        raise Mismatch("rejected row %d did not raise its validation error" % index)
                if "padding" in aspects and fixed and any(cell.short for cell in run["rows"][index]) \
                        and run["holder"]["forms"].get(index) != "padded to the field widths":
                    # what is validated (fields, allowed characters, IsUnique / DistinctCount) must be what is written and
                    # later read back: 'ab' and 'ab ' are the same fixed-width value
                    raise Mismatch("fixed format: row %d is validated %s, but written padded to the field widths - the checks judge "
                                   "other values than a reader of the output sees" % (index, run["holder"]["forms"].get(index)))
            if not rejected:
                if fixed:
                    _expect_fixed_emit(cursor, run["rows"][index], run["line_delimiter"] if "delimiter" in aspects else run["line_delimiter"], index)
                elif cursor.peek_is("emit") or (cursor.peek_is("write") and isinstance(cursor.events[cursor.position][1], RowText)):
                    event = cursor.events[cursor.position]
                    cursor.position += 1
                    emitted, terminator = (event[1], event[2]) if event[0] == "emit" else (event[1].row, event[1].terminator)
                    if emitted is not run["rows"][index]:
                        raise Mismatch("row %d was not emitted unchanged" % index)
                    if event[0] == "write" and event[1].cells_rewritten:
                        raise Mismatch("row %d: the line terminator was exchanged by a textual replacement over the whole formatted row, "
                                       "which also rewrites the same characters inside cells" % index)
                    if "delimiter" in aspects:
                        declared = run["line_delimiter"]
                        if declared == "any":
                            if terminator not in ("\n", "\r", "\r\n"):
                                raise Mismatch("line delimiter 'any': row %d terminated by %r" % (index, terminator))
                        elif terminator != declared:
                            raise Mismatch("declared line delimiter %r but row %d is terminated by %r" % (declared, index, terminator))
                else:
                    raise Mismatch("accepted row %d was not emitted" % index)
                if run["outcomes"][index] != "written":
                    raise Mismatch("write_row raised %s for accepted row %d" % (exc_name(run["outcomes"][index]), index))
                written += 1
        cursor.expect("call close")
        failed = False
        for name in ("c0", "c1"):
            if cursor.expect("check_at_end", name) == CHECK_BAD:
                failed = True
                break
        cleaned = set()
        while cursor.peek_is("cleanup"):
            cleaned.add(cursor.events[cursor.position][1])
            cursor.position += 1
        if cleaned != {"c0", "c1"}:
            raise Mismatch("close cleaned up %s, expected c0 and c1" % sorted(cleaned))
        cursor.done()
        final = run["outcomes"][-1]
        if failed and (final == "closed" or exc_name(final) != "CheckError"):
            raise Mismatch("failed end check did not surface as CheckError from close()")
        if not failed and final != "closed":
            raise Mismatch("close() raised %s" % exc_name(final))
        if run["writer"].attrs.get("_delegated_writer") is not None:
            raise Mismatch("close() left the delegated writer open")
        return "conforms"
    except Mismatch as mismatch:
        return str(mismatch)


def fixed_writer_padding_table(ctx, rule):
    """What a fixed-width writer validates (fields, allowed characters, IsUnique / DistinctCount) is what it writes and what
    a reader of the output sees: the row padded to the field widths ('ab' and 'ab ' are the same fixed-width value)."""
    from ..tablekit import decide_kinds

    def cell(ch):
        run = writer_run(ctx.model, ch, "fixed")
        interp = run["interp"]
        forms = run["holder"]["forms"]
        problems = [index for index, row in enumerate(run["rows"])
                    if index in forms and any(cell_.short for cell_ in row) and forms[index] != "padded to the field widths"]
        key = "rows=%d cells=%s" % (run["n_rows"], "/".join("".join("s" if c.short else "=" for c in row) for row in run["rows"]))
        if problems:
            return (key, "fixed writer validates the row as given but writes it padded to the field widths",
                    "row %d validated %s" % (problems[0], forms[problems[0]]))
        return (key, None, None)

    ctx.res.minimum(rule, 1)
    return decide_kinds(ctx, rule, "Writer(fixed): validated values are the written values", WRITER + ".write_row", cell, min_cells=20)


def fixed_writer_padding_side_table(ctx, rule, field_class_names):
    """Whatever the type of a field, a short value is written with blanks on its right (that is what the fixed reader
    strips and what 'ab' == 'ab ' means): one row, every short / full combination, every field class."""
    def cell(ch):
        field_class = ch.choose("field class", list(field_class_names))
        run = writer_run(ctx.model, ch, "fixed", field_class=field_class, row_counts=[1])
        shorts = "".join("s" if cell_.short else "=" for row in run["rows"] for cell_ in row)
        calls = ",".join("%s:%s" % (event[1], event[-1]) for event in run["interp"].events if event[0] in ("validate_row", "check_at_end"))
        key = "%s delimiter=%r cells=%s calls[%s]" % (field_class.rsplit(".", 1)[-1], run["line_delimiter"], shorts, calls)
        return (key, writer_oracle(run, {"delimiter"}), "conforms")

    ctx.res.minimum(rule, 1)
    return decide(ctx, rule, "Writer(fixed): padding side per field type", WRITER + ".write_row", cell, min_cells=60)


def writer_table(ctx, rule, aspects, format_name="delimited"):
    def cell(ch):
        run = writer_run(ctx.model, ch, format_name)
        interp = run["interp"]
        facts = ", ".join("%s%s%s" % (a[1], rel, b[1]) for a, rel, b in interp.order.facts)
        calls = ",".join("%s:%s" % (event[1], event[-1]) for event in interp.events if event[0] in ("validate_row", "check_at_end"))
        shorts = "".join("s" if getattr(cell_, "short", False) else "=" for row in run["rows"] for cell_ in row)
        key = "%s delimiter=%r rows=%d%s order[%s] calls[%s]" % (format_name, run["line_delimiter"], run["n_rows"],
                                                                 (" cells=" + shorts) if shorts.strip("=") else "", facts, calls)
        return (key, writer_oracle(run, aspects), "conforms")

    return decide(ctx, rule, "Writer(%s)[%s]" % (format_name, "+".join(sorted(aspects))), WRITER + ".write_row", cell, min_cells=20)


# =============================================================================== histories on one CID (C08)
HISTORY_OPS = ["read+close", "read-abandon", "read-noclose", "reader-close-only", "write+close", "write-noclose", "writer-close-only",
               "rows()", "validate()", "validate-limit-0", "read-limit-0+close", "validate_rows+close", "two-readers-created-then-read",
               "writer created, another data set read, then written", "reader read, another data set read, then closed"]


OVERLAPPING_OPS = ("writer created, another data set read, then written", "reader read, another data set read, then closed")


def history_run(model, ch, length, overlapping=True):
    interp = Interp(model, ch)
    world = World(model, interp, ch)
    always_ok = (CHECK_OK,)
    checks = [world.recording_check(0, row_outcomes=always_ok, end_outcomes=always_ok),
              world.recording_check(1, row_outcomes=always_ok, end_outcomes=always_ok)]
    cid = world.cid([world.recording_field(0), world.recording_field(1)], checks, world.data_format("delimited", header=0))
    rows_holder = {"rows": []}

    @stub
    def raw_rows_stub(interp_, args, kwargs):
        rows = [world.row(index, 2) for index in range(2)]
        return AbsIter(lambda index: rows[index] if index < len(rows) else AbsIter.STOP, "raw rows")

    interp.stubs[READER + "._raw_rows"] = raw_rows_stub

    install_writer_externals(interp)
    # real validate_row: fields (recording, always ok) then checks
    for field in cid.attrs["_field_formats"]:
        name = field.attrs["_field_name"]

        @stub
        def validated(interp_, args, kwargs):
            return args[0]

        field.attrs["validated"] = validated
    ops = []
    for position in range(length):
        ops.append(ch.choose(("op", position), [op for op in HISTORY_OPS if overlapping or op not in OVERLAPPING_OPS]))
    for position, op in enumerate(ops):
        interp.event("run", position, op)
        try:
            stream = world.stream()
            if op == "writer created, another data set read, then written":
                # runs whose lifetimes overlap: the writer exists (and has reset the checks) before the other run starts
                target = Obj("io.StringIO", {"name": "<target>", "write": stub(lambda i, a, k: None), "close": stub(lambda i, a, k: None)},
                             label="target")
                writer = _construct(interp, WRITER, [cid, target])
                other = _construct(interp, READER, [cid, world.stream("other")])
                for _ in interp.iterate(interp.call_function(model.func(READER + ".rows"), [other], {}, None)):
                    pass
                interp.call(interp.getattr(other, "close"), [], {})
                interp.event("run", position, op + " (the write)")
                interp.call_function(model.func(WRITER + ".write_row"), [writer, world.row(0, 2)], {}, None)
                interp.call(interp.getattr(writer, "close"), [], {})
            elif op == "reader read, another data set read, then closed":
                first = _construct(interp, READER, [cid, world.stream("first")])
                for _ in interp.iterate(interp.call_function(model.func(READER + ".rows"), [first], {}, None)):
                    pass
                other = _construct(interp, READER, [cid, world.stream("other")])
                for _ in interp.iterate(interp.call_function(model.func(READER + ".rows"), [other], {}, None)):
                    pass
                interp.call(interp.getattr(other, "close"), [], {})
                interp.event("run", position, op + " (the late close)")
                interp.call(interp.getattr(first, "close"), [], {})
            elif op == "two-readers-created-then-read":
                # both readers exist before the first data set is read; each pass must still start with fresh checks
                readers = [_construct(interp, READER, [cid, world.stream("stream%d" % index)]) for index in range(2)]
                for index, reader in enumerate(readers):
                    interp.event("run", position, "%s (reader %d)" % (op, index + 1))
                    generator = interp.call_function(model.func(READER + ".rows"), [reader], {}, None)
                    for _ in interp.iterate(generator):
                        pass
                    interp.call(interp.getattr(reader, "close"), [], {})
            elif op.startswith("read") or op == "reader-close-only" or op == "validate_rows+close":
                reader = _construct(interp, READER, [cid, stream], {"validate_until": 0} if op == "read-limit-0+close" else {})
                if op == "reader-close-only":
                    interp.call(interp.getattr(reader, "close"), [], {})
                elif op == "validate_rows+close":
                    interp.call_function(model.func(READER + ".validate_rows"), [reader], {}, None)
                    interp.call(interp.getattr(reader, "close"), [], {})
                else:
                    generator = interp.call_function(model.func(READER + ".rows"), [reader], {}, None)
                    count = 0
                    for _ in interp.iterate(generator):
                        count += 1
                        if op == "read-abandon":
                            break
                    if op in ("read+close", "read-limit-0+close"):
                        interp.call(interp.getattr(reader, "close"), [], {})
            elif op.startswith("write"):
                target = Obj("io.StringIO", {"name": "<target>", "write": stub(lambda i, a, k: None), "close": stub(lambda i, a, k: None)},
                             label="target")
                writer = _construct(interp, WRITER, [cid, target])
                if op != "writer-close-only":
                    interp.call_function(model.func(WRITER + ".write_row"), [writer, world.row(0, 2)], {}, None)
                if op in ("write+close", "writer-close-only"):
                    interp.call(interp.getattr(writer, "close"), [], {})
            elif op == "rows()":
                generator = interp.call_function(model.func("cutplace.validio.rows"), [cid, stream], {}, None)
                for _ in interp.iterate(generator):
                    pass
            elif op == "validate()":
                interp.call_function(model.func("cutplace.validio.validate"), [cid, stream], {}, None)
            elif op == "validate-limit-0":
                interp.call_function(model.func("cutplace.validio.validate"), [cid, stream], {"validate_until": 0}, None)
        except AbsRaise as raised:
            interp.event("raised", exc_name(raised.value), None)
    return {"interp": interp, "ops": ops}


def history_oracle(run):
    """Within each run a check is reset before it first sees a row or is asked for its end-of-data verdict.
    Returns a list of (kind, text): kind names the operation and the unreset call, independent of the history."""
    problems = []
    fresh = {}
    current = None
    for event in run["interp"].events:
        if event[0] == "run":
            current = (event[1], event[2])
            fresh = {"c0": False, "c1": False}
        elif event[0] == "reset":
            fresh[event[1]] = True
        elif event[0] in ("check_row", "check_at_end"):
            if not fresh.get(event[1], False):
                problems.append(("%s: %s without reset" % (current[1], event[0]),
                                 "%s of %s in operation %d (%s) of history [%s] without a reset in that operation"
                                 % (event[0], event[1], current[0], current[1], " > ".join(run["ops"]))))
                fresh[event[1]] = True  # report once per run and check
        elif event[0] == "raised":
            problems.append(("%s: raised %s" % (current[1], event[1]), "operation %d (%s) raised %s" % (current[0], current[1], event[1])))
    return problems


def history_table(ctx, rule, length, overlapping=True):
    """``overlapping``: also runs whose lifetimes overlap (a writer created before, a reader closed after another run)."""
    from ..absint import explore
    from ..tablekit import where_of

    histories = 0
    kinds = {}
    for chooser, run in explore(lambda ch: history_run(ctx.model, ch, length, overlapping)):
        histories += 1
        for kind, text in history_oracle(run):
            kinds.setdefault(kind, text)
    what = "histories of %d operation(s) on one CID reset every check before use" % length
    if histories < len(HISTORY_OPS) - len(OVERLAPPING_OPS):
        raise AnalysisError("history table explored only %d histories" % histories)
    if not kinds:
        ctx.res.ok(rule, what, True, {"histories": histories, "operations": HISTORY_OPS}, cells=histories)
    first = True
    for kind, text in sorted(kinds.items()):
        operation = kind.split(":")[0]
        anchor = WRITER + ".write_row" if operation.startswith("write") else (
            "cutplace.validio.validate" if operation.startswith("validate-") or operation == "validate()" else VALIDATOR + ".close")
        ctx.res.fail(rule, what + ": " + kind, "validio:%s:histories:%s" % (rule, kind), where_of(ctx.model, anchor),
                     "state carries over between data sets: " + text, {"histories_explored": histories},
                     cells=histories if first else 0)
        first = False
    return histories, kinds


# =============================================================================== every run is closed (typestate)
def rule_validators_are_closed(ctx, rule_id):
    """
    The end-of-data verdict of the checks (DistinctCount, plugin checks) and their cleanup happen in close().  Every place
    of the package that creates a Reader or Writer therefore has to close it on every path: the construction is the
    context expression of a ``with`` statement, or the object is bound to a name on which close() is called in a
    ``finally`` block (or which is handed to ``closing()``).  A loop over ``rows()`` without close() reports "n rows
    accepted" for data whose DistinctCount check fails.  Covers every module of the package, the GUI included.
    """
    import ast

    model = ctx.model
    validator_names = {"Reader", "Writer"}
    sites = []
    for module in model.modules.values():
        if not module.name.startswith(model.PACKAGE):
            continue
        parents = {}
        for parent in ast.walk(module.tree):
            for child in ast.iter_child_nodes(parent):
                parents[id(child)] = parent
        for node in ast.walk(module.tree):
            if not isinstance(node, ast.Call):
                continue
            callee = node.func
            name = callee.attr if isinstance(callee, ast.Attribute) else (callee.id if isinstance(callee, ast.Name) else None)
            if name not in validator_names:
                continue
            if isinstance(callee, ast.Attribute) and not (isinstance(callee.value, ast.Name) and callee.value.id in ("validio", "cutplace")):
                continue
            if isinstance(callee, ast.Name) and module.name != model.PACKAGE + ".validio" and name not in module.imports:
                continue
            # the enclosing function (or the module)
            scope = node
            while id(scope) in parents and not isinstance(scope, (ast.FunctionDef, ast.AsyncFunctionDef, ast.Module)):
                scope = parents[id(scope)]
            parent = parents.get(id(node))
            verdict = None
            if isinstance(parent, ast.withitem) and parent.context_expr is node:
                verdict = "context manager"
            elif isinstance(parent, ast.Assign) and len(parent.targets) == 1 and isinstance(parent.targets[0], ast.Name):
                bound = parent.targets[0].id
                for inner in ast.walk(scope):
                    if isinstance(inner, ast.Try):
                        for statement in inner.finalbody:
                            for call in ast.walk(statement):
                                if isinstance(call, ast.Call) and isinstance(call.func, ast.Attribute) and call.func.attr == "close" \
                                        and isinstance(call.func.value, ast.Name) and call.func.value.id == bound:
                                    verdict = "closed in a finally block"
                    if isinstance(inner, ast.withitem):
                        expr = inner.context_expr
                        if isinstance(expr, ast.Name) and expr.id == bound:
                            verdict = "used as context manager"
                        if isinstance(expr, ast.Call) and expr.args and isinstance(expr.args[0], ast.Name) and expr.args[0].id == bound \
                                and (getattr(expr.func, "id", None) == "closing" or getattr(expr.func, "attr", None) == "closing"):
                            verdict = "closing()"
            elif isinstance(parent, ast.Return):
                verdict = "returned to the caller"
            sites.append((module, node, getattr(scope, "name", "<module>"), name, verdict))
    if len(sites) < 3:
        raise AnalysisError("%s: only %d construction site(s) of Reader / Writer found in the package" % (rule_id, len(sites)))
    ctx.res.minimum(rule_id, 3)
    for module, node, scope_name, name, verdict in sites:
        what = "%s:%s creates a %s and closes it on every path" % (module.relpath, scope_name, name)
        if verdict is not None:
            ctx.res.ok(rule_id, what + " (%s)" % verdict, True)
        else:
            ctx.res.fail(rule_id, what, "%s.%s:%s:%s never closed" % (module.name.replace("cutplace.", ""), scope_name, rule_id, name),
                         "%s:%d (%s)" % (module.relpath, node.lineno, scope_name),
                         "a %s is created here but neither used as a context manager nor closed in a finally block: the checks are never "
                         "asked for their end-of-data verdict (a failing DistinctCount goes unreported) and never cleaned up" % name)


# =============================================================================== a CID given as path
def validators_accept_cid_path_table(ctx, rule):
    """Reader and Writer document ``cid_or_path``: constructed with the path of a CID they load it themselves and then
    work with the loaded CID exactly as if it had been handed over (nothing may ask the path text for CID attributes)."""
    model = ctx.model

    def cell(ch):
        kind = ch.choose("validator", ["Reader", "Writer"])
        format_name = ch.choose("format", ["delimited", "fixed"])
        run = _writer_world(model, ch, format_name, header=0)
        interp, cid = run["interp"], run["cid"]
        if format_name == "fixed":
            for index, field in enumerate(cid.attrs["_field_formats"]):
                field.attrs["_length"] = Obj(model.cls("cutplace.ranges.Range"), {"_items": [(3, 3)], "_lower_limit": 3, "_upper_limit": 3},
                                             label="length%d" % index)
        loaded = []

        @stub
        def load_cid(interp_, args, kwargs):
            loaded.append(list(args))
            return cid

        interp.stubs["cutplace.interface.Cid"] = load_cid
        key = "%s(%s CID given as path)" % (kind, format_name)
        try:
            if kind == "Reader":
                validator = _construct(interp, READER, ["customers_cid.ods", run["world"].stream()])
            else:
                validator = _construct(interp, WRITER, ["customers_cid.ods", run["target"]])
        except AbsRaise as raised:
            return (key, "raise " + exc_name(raised.value), "works with the loaded CID")
        if loaded != [["customers_cid.ods"]]:
            return (key, "CID loaded with %r" % (loaded,), "works with the loaded CID")
        return (key, "works with the loaded CID" if validator.attrs.get("_cid") is cid else "uses %r as CID" % (validator.attrs.get("_cid"),),
                "works with the loaded CID")

    ctx.res.minimum(rule, 1)
    return decide(ctx, rule, "Reader / Writer constructed with the path of a CID", VALIDATOR + ".__init__", cell, min_cells=4)


# =============================================================================== a row the row writer refuses
def writer_refusal_after_checks_table(ctx, rule):
    """
    "Emits nothing for a row it rejected ... reading the produced output back accepts every row": a row can still be
    refused after validate_row() accepted it - the row writer raises DataFormatError when a character cannot be encoded.
    Such a row is not in the output, so no check may have registered it (an IsUnique key, a distinct value); otherwise
    the next row is a "duplicate" of a row that was never written and the end-of-data verdict counts it.  The real
    validate_row() runs with recording checks; the target stream refuses the first row with a UnicodeEncodeError.
    """
    from ..tablekit import decide_kinds

    model = ctx.model

    def cell(ch):
        format_name = ch.choose("format", ["delimited", "fixed"])
        interp = Interp(model, ch)
        world = World(model, interp, ch)
        always_ok = (CHECK_OK,)
        checks = [world.recording_check(0, row_outcomes=always_ok, end_outcomes=always_ok)]
        cid = world.cid([world.recording_field(0), world.recording_field(1)], checks, world.data_format(format_name, header=0))
        install_writer_externals(interp)
        for index, field in enumerate(cid.attrs["_field_formats"]):
            field.attrs["validated"] = stub(lambda interp_, args, kwargs: args[0])
            if format_name == "fixed":
                field.attrs["_length"] = Obj(model.cls("cutplace.ranges.Range"), {"_items": [(2, 2)], "_lower_limit": 2, "_upper_limit": 2},
                                             label="length%d" % index)
        writes = []

        @stub
        def stream_write(interp_, args, kwargs):
            writes.append(args[0])
            if len(writes) == 1:
                interp_.raise_("builtins.UnicodeEncodeError", "'ascii' codec can't encode character")

        target = Obj("io.TextIOWrapper", {"name": "<target>", "write": stream_write, "close": stub(lambda i, a, k: None)}, label="target")
        if format_name == "fixed":
            interp.externals["len"] = lambda interp_, args, kwargs: 2  # every cell is as wide as its field
        writer = _construct(interp, WRITER, [cid, target])
        row = world.row(0, 2)
        del interp.events[:]
        key = "%s: the target refuses the row (UnicodeEncodeError)" % format_name
        try:
            interp.call_function(model.func(WRITER + ".write_row"), [writer, row], {}, None)
            return (key, "a row that could not be written is reported as written", "no DataFormatError")
        except AbsRaise as raised:
            if exc_name(raised.value) != "DataFormatError":
                return (key, "the refusal surfaces as " + exc_name(raised.value), exc_name(raised.value))
        registered = [event for event in interp.events if event[0] == "check_row"]
        if registered:
            return (key, "a row the row writer refuses was already registered by the checks", "check_row called for %s" % (registered[0][1],))
        return (key, None, None)

    ctx.res.minimum(rule, 1)
    return decide_kinds(ctx, rule, "Writer: a row refused by the row writer", WRITER + ".write_row", cell, min_cells=2)


# =============================================================================== a writer given a path closes its file
def row_writer_close_table(ctx, rule):
    """
    "Writing the table and reading the result back": a row writer that was given a PATH opened the file itself, so its
    close() (and with it leaving the ``with`` block, and validio.Writer.close()) has to close that file - otherwise the rows
    stay in the buffer of the text layer and reading the path back yields an empty table.  A stream handed over by the
    caller stays open.  Every subclass of AbstractRowWriter that overrides close() is covered by interpreting its close().
    """
    model = ctx.model
    writer_classes = [cls for cls in model.subclasses(model.cls("cutplace.rowio.AbstractRowWriter")) if cls.name in ("DelimitedRowWriter", "FixedRowWriter")]

    def cell(ch):
        class_qualname = ch.choose("writer", [cls.qualname for cls in writer_classes])
        target_kind = ch.choose("target", ["path", "stream of the caller"])
        rows = ch.choose("rows written", [0, 1])
        interp = Interp(model, ch)
        world = World(model, interp, ch)
        install_writer_externals(interp)
        closes = []
        opened = Obj("io.TextIOWrapper", {"name": "data.csv", "write": stub(lambda i, a, k: None),
                                          "close": stub(lambda i, a, k: closes.append("file opened by the writer"))}, label="opened file")
        given = Obj("io.StringIO", {"name": "<stream>", "write": stub(lambda i, a, k: None),
                                    "close": stub(lambda i, a, k: closes.append("stream of the caller"))}, label="stream")
        interp.externals["io.open"] = lambda i, a, k: opened
        interp.externals["builtins.open"] = lambda i, a, k: opened
        interp.externals["len"] = lambda interp_, args, kwargs: 2
        fixed = class_qualname.endswith("FixedRowWriter")
        data_format = world.data_format("fixed" if fixed else "delimited", header=0)
        arguments = ["data.csv" if target_kind == "path" else given, data_format]
        if fixed:
            arguments.append([("f0", 2), ("f1", 2)])
        key = "%s(%s), %d row(s), close()" % (class_qualname.rsplit(".", 1)[-1], target_kind, rows)
        try:
            writer = _construct(interp, class_qualname, arguments)
            for index in range(rows):
                interp.call(interp.getattr(writer, "write_row"), [world.row(index, 2)], {})
            interp.call(interp.getattr(writer, "close"), [], {})
        except AbsRaise as raised:
            return (key, "raise " + exc_name(raised.value), "closed: " + ("the file it opened" if target_kind == "path" else "nothing"))
        expected = ["file opened by the writer"] if target_kind == "path" else []
        show = lambda items: "closed: " + (", ".join(items) if items else "nothing")  # noqa: E731
        return (key, show(closes), show(expected))

    ctx.res.minimum(rule, 1)
    return decide(ctx, rule, "row writers: close() closes the file the writer opened", "cutplace.rowio.AbstractRowWriter.close", cell, min_cells=8)
