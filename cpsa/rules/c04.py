"""
C04 - a row is accepted iff all cells and row checks pass; errors name the culprit.
"""
from ..absint import AbsRaise, Chooser, Interp, Obj, Opaque, RInt, fragments
from ..tablekit import decide, where_of
from ..world import World
from . import protocol

EXPLANATION = (
    "Static decision of C04: (O4.1) BaseValidator.validate_row is interpreted from source on an abstract CID with two "
    "recording fields and two recording checks for every row width {<, =, >}, every cell kind {text, not a str} and every "
    "outcome of every collaborator; each run must follow 'count check first, cells in column order with the cursor on "
    "that column, stop at the first failure, error = FieldValueError carrying a COPY of the cursor at that row and column "
    "and naming the field, checks in declaration order only after all cells passed'. (O4.2) Reader.rows is interpreted "
    "for 0..3 raw rows, every header/limit ordering, mode and outcome: the cursor's line at the time row k is validated "
    "is k-1 (rows are numbered from 1 with header rows counted, because Location.__str__ renders line+1 / cell+1, decided "
    "over region representatives with unit-slope arithmetic only). (O4.3) CutplaceError stores copies of locations."
    " Added in rounds 6 and 7: (O4.6/O4.7) the item that is judged is the cell of the sheet (C15's ODS cell texts,"
    " C16's Excel cell values). (O4.8) Location, its copy, its text and Reader() over every kind of source name"
    " (path, stream with a text name, none, None, a file descriptor, 0, empty, bytes): a source without a usable"
    " name is shown as <io>."
    " Added in rounds 8 and 9: (O4.9) covered cells and row containers keep the items of a row in place (C15's"
    " table)."
    " Added in round 10: (O4.1) a row with surplus items is too long also when the surplus items are empty;"
    " number items are no texts; the checks get the cells, not the typed values the fields return. (O17.4,"
    " shared with C17) a field judges the same text cell alike under every Format."
)
ASSUMPTIONS = ["field.validated and check.check_row behave as decided under C02/C03/C05; raw readers deliver the file's rows (C12-C16)"]

LOCATION = "cutplace.errors.Location"


def rule_validate_row(ctx):
    ctx.res.minimum("O4.1", 1)
    protocol.validate_row_table(ctx, "O4.1")


def rule_cursor(ctx):
    ctx.res.minimum("O4.2", 4)
    protocol.reader_rows_table(ctx, "O4.2", {"lines"}, "Reader.rows")
    # a second pass over the data with the same Reader numbers its rows from the start again
    protocol.reader_rows_table(ctx, "O4.2", {"lines"}, "Reader.rows twice")
    model = ctx.model

    # Location.__init__ starts at line 0 / cell 0; advance_line adds one and resets the cell; __str__ is 1-based
    def location_cell(ch):
        has_cell = ch.choose("has_cell", [True, False])
        line = ch.choose("line", [0, 1, 7])
        cell_index = ch.choose("cell", [0, 2])
        interp = Interp(model, ch, externals={"os.path.basename": lambda i, a, k: "<file>"})
        from ..absint import ClassRef

        location = interp.instantiate(ClassRef(model.cls(LOCATION)), ["<file>"], {"has_cell": has_cell})
        start = (location.attrs.get("_line"), location.attrs.get("_cell"))
        if start != (0, 0):
            return ("start", start, (0, 0))
        location.attrs["_line"] = RInt(line, "line")
        location.attrs["_cell"] = RInt(cell_index, "cell")
        text = interp.call_function(model.func(LOCATION + ".__str__"), [location], {}, None)
        numbers = [part.value for part in fragments(text) if isinstance(part, RInt)]
        expected = [line + 1, cell_index + 1] if has_cell else [line + 1]
        if numbers != expected:
            return ("render has_cell=%s line=%d cell=%d" % (has_cell, line, cell_index), numbers, expected)
        interp.call_function(model.func(LOCATION + ".advance_line"), [location], {}, None)
        after = (getattr(location.attrs.get("_line"), "value", location.attrs.get("_line")),
                 getattr(location.attrs.get("_cell"), "value", location.attrs.get("_cell")))
        return ("advance has_cell=%s line=%d cell=%d" % (has_cell, line, cell_index), after, (line + 1, 0))

    decide(ctx, "O4.2", "Location(start 0/0, advance_line +1 and cell 0, __str__ 1-based)", LOCATION + ".__str__", location_cell, min_cells=12)

    def set_cell_cell(ch):
        target = ch.choose("set_cell", [0, 1, 5])
        interp = Interp(model, ch)
        world = World(model, interp, ch)
        location = world.location()
        location.attrs["_cell"] = 3
        interp.call_function(model.func(LOCATION + ".set_cell"), [location, target], {}, None)
        return ("set_cell(%d)" % target, location.attrs.get("_cell"), target)

    decide(ctx, "O4.2", "Location.set_cell stores the column", LOCATION + ".set_cell", set_cell_cell, min_cells=3)


def rule_location_copies(ctx):
    """O4.3 / O6.4: errors keep copies of the cursor they were given."""
    model = ctx.model
    ctx.res.minimum("O4.3", 2)
    interp = Interp(model, Chooser())
    world = World(model, interp, Chooser())
    live = world.location("live")
    other = world.location("other")
    error = interp.make_exception("cutplace.errors.DataError", "message", live, "see also", other)
    problems = []
    if not (isinstance(error.attrs.get("_location"), Obj) and getattr(error.attrs["_location"], "copied_from", None) is live):
        problems.append("CutplaceError.__init__ stores the location it is given without copy.copy")
    if not (isinstance(error.attrs.get("_see_also_location"), Obj) and getattr(error.attrs["_see_also_location"], "copied_from", None) is other):
        problems.append("CutplaceError.__init__ stores see_also_location without copy.copy")
    where = where_of(model, "cutplace.errors.CutplaceError.__init__")
    if problems:
        ctx.res.fail("O4.3", "errors copy their location", "errors.CutplaceError.__init__:O4.3:copy", where, "; ".join(problems))
    else:
        ctx.res.ok("O4.3", "CutplaceError.__init__ stores copy.copy(location) and copy.copy(see_also_location)", True)
    newer = world.location("newer")
    interp.call_function(model.func("cutplace.errors.CutplaceError.prepend_message"), [error, "prefix", newer], {}, None)
    stored = error.attrs.get("_location")
    if isinstance(stored, Obj) and getattr(stored, "copied_from", None) is newer:
        ctx.res.ok("O4.3", "CutplaceError.prepend_message stores copy.copy(new_location)", True)
    else:
        ctx.res.fail("O4.3", "prepend_message copies its location", "errors.CutplaceError.prepend_message:O4.3:copy",
                     where_of(model, "cutplace.errors.CutplaceError.prepend_message"),
                     "prepend_message stores the live cursor: a yielded error would move with the reader")
    # Location.__copy__ produces an independent object with the same coordinates
    live.attrs["_line"] = 5
    from ..absint import _DEFAULT_EXTERNALS  # noqa: F401

    copy_method = model.func(LOCATION + ".__copy__")
    interp2 = Interp(model, Chooser(), externals={"builtins.type": lambda i, a, k: __import__("cpsa.absint", fromlist=["ClassRef"]).ClassRef(model.cls(LOCATION))})
    clone = interp2.call_function(copy_method, [live], {}, None)
    if isinstance(clone, Obj) and clone is not live and clone.attrs.get("_line") == 5 and clone.attrs is not live.attrs:
        ctx.res.ok("O4.3", "Location.__copy__ returns a distinct object with the same line/cell", True)
    else:
        ctx.res.fail("O4.3", "Location.__copy__ is independent", "errors.Location.__copy__:O4.3:independent",
                     where_of(model, LOCATION + ".__copy__"), "copy of a location shares state with the original or loses its coordinates")


def rule_raw_rows_dispatch(ctx):
    """O4.4: the rows that are validated are the rows of the source: Reader._raw_rows passes every row on unchanged (a row with surplus empty cells stays too long)."""
    from .c17 import raw_rows_dispatch_table

    ctx.res.minimum("O4.4", 1)
    raw_rows_dispatch_table(ctx, "O4.4")


def rule_blank_lines_are_rows(ctx):
    """O4.9 (round 11, C12's table): the delimited reader hands on the row without items that stands for a blank line, so
    row numbers - in errors, for the header and for the validation limit - are those of the data."""
    from .c12 import rule_every_csv_row_is_passed_on

    rule_every_csv_row_is_passed_on(ctx, "O4.9")


from .common import rule_module_state  # noqa: E402

def rule_ods_rows_keep_their_cells(ctx):
    """O4.5: the item count that is checked is the sheet's: the ODS reader keeps empty rows and (runs of) empty cells at the
    end of a row (C15's table)."""
    from .c15 import rule_empty_rows, rule_row_containers_and_covered_cells

    ctx.res.minimum("O4.5", 1)
    rule_empty_rows(ctx, "O4.5")
    # ... and the positions hidden by a merged cell (covered cells, also as a run) and rows inside row containers
    rule_row_containers_and_covered_cells(ctx, "O4.9")


def rule_items_are_the_cells_of_the_sheet(ctx):
    """O4.6 / O4.7: "every item is accepted by the field in the same position" is about the item the sheet holds: the ODS
    reader delivers every character of a cell (blanks stored as text:s, tabs, line breaks, text after them - C15's table)
    and the Excel reader the text of the stored value (0 and FALSE are "0", not empty - C16's table)."""
    from .c15 import rule_cell_texts
    from .c16 import rule_cell_values

    rule_cell_texts(ctx, "O4.6")
    rule_cell_values(ctx, "O4.7")


SOURCE_KINDS = [
    # (label, how the source looks, the name the location must show)
    ("path", "data/customers.csv", "customers.csv"),
    ("stream without a name attribute (io.StringIO)", {}, "<io>"),
    ("stream opened from a path", {"name": "data/customers.csv"}, "customers.csv"),
    ("stream whose name is None (tempfile.SpooledTemporaryFile)", {"name": None}, "<io>"),
    ("stream whose name is a file descriptor (os.fdopen, tempfile.TemporaryFile)", {"name": 3}, "<io>"),
    ("stream whose name is 0 (open(0))", {"name": 0}, "<io>"),
    ("stream whose name is empty", {"name": ""}, "<io>"),
    ("stream whose name is bytes (opened with a bytes path)", {"name": b"customers.csv"}, "<io>"),
]


def rule_locations_name_every_kind_of_source(ctx, rule_id="O4.8"):
    """O4.8: "a data error whose location names the input": whatever the data is read from - a path, or a stream whose
    ``name`` is a text, missing, None, a file descriptor or bytes - the Reader and the raw readers' Location can be
    built, copied (errors keep copies) and rendered; a source without a usable name is shown as ``<io>``."""
    import os

    from ..absint import ClassRef, Undecided

    model = ctx.model
    ctx.res.minimum(rule_id, 1)

    def basename(interp, args, kwargs):
        (value,) = args
        if isinstance(value, (str, bytes)):
            return os.path.basename(value)
        interp.raise_("builtins.TypeError", "expected str, bytes or os.PathLike object, not %s" % type(value).__name__)

    def cell(ch):
        label, shape, shown = ch.choose("source", SOURCE_KINDS)
        through = ch.choose("through", ["Location", "Reader"])
        interp = Interp(model, ch, externals={"os.path.basename": basename,
                                              "attr:io.TextIOWrapper.name": lambda i, a, k: i.raise_("builtins.AttributeError", "name")})
        world = World(model, interp, ch)
        source = shape if isinstance(shape, str) else Obj("io.TextIOWrapper", dict(shape), label="stream")
        key = "%s: %s" % (through, label)
        try:
            if through == "Location":
                location = interp.instantiate(ClassRef(model.cls(LOCATION)), [source], {"has_cell": True})
            else:
                cid = world.cid([world.recording_field(0)], [], world.data_format("delimited", header=0))
                reader = protocol._construct(interp, protocol.READER, [cid, source])
                location = reader.attrs.get("_location")
                if not isinstance(location, Obj):
                    return (key, "Reader has no location", "location shown as %r" % shown)
            copied = interp.call_function(model.func(LOCATION + ".__copy__"), [location], {}, None)
            text = interp.call_function(model.func(LOCATION + ".__str__"), [copied], {}, None)
        except AbsRaise as raised:
            from ..absint import exc_name

            return (key, "raise " + exc_name(raised.value), "location shown as %r" % shown)
        parts = fragments(text)
        first = parts[0] if parts else None
        rendered = first if isinstance(first, str) else repr(first)
        ok = isinstance(first, str) and first.startswith(shown + " (")
        return (key, "location shown as %r" % shown if ok else "location rendered as %r" % (rendered,), "location shown as %r" % shown)

    decide(ctx, rule_id, "Location / Reader over every kind of source name", LOCATION + ".__init__", cell, min_cells=16)


def rule_csv_errors_name_their_line(ctx):
    """O10.csv-error (shared with C10/C06): a row the csv reader cannot parse is reported with the number of that line."""
    from .c10 import rule_delimited_error_helper

    rule_delimited_error_helper(ctx, check_location=True)


def rule_fields_judge_cells_alike_in_every_format(ctx):
    """O17.4 (shared with C17): the verdict of C04 composes the per-field verdicts of C02/C03 for all four data formats: a
    field must give the same text cell the same verdict whatever the Format says (the documented Excel midnight rule aside)."""
    from .c17 import rule_format_independent_hooks

    rule_format_independent_hooks(ctx)


RULES = [rule_blank_lines_are_rows, rule_fields_judge_cells_alike_in_every_format, rule_validate_row, rule_cursor, rule_location_copies, rule_raw_rows_dispatch, rule_ods_rows_keep_their_cells, rule_items_are_the_cells_of_the_sheet, rule_locations_name_every_kind_of_source, rule_csv_errors_name_their_line, rule_module_state]
