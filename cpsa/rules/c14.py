"""
C14 - a validating writer emits only conforming rows; its output validates again.
"""
from . import protocol

EXPLANATION = (
    "Static decision of the writer-side clauses of C14: Writer.__init__ / write_row / close together with the row writers "
    "of rowio.py are interpreted from source on an abstract CID (recording checks, stubbed validate_row, stubbed csv "
    "writer / target stream) for 0..3 rows, every ordering of the header count against the number of rows written, and "
    "every validation outcome. Per run: past the header every row is validated BEFORE anything is emitted, a rejected row "
    "raises its own error, emits nothing and leaves the writer usable, accepted rows are emitted unchanged and in order, "
    "close() runs the end checks in declaration order, cleans up and closes the delegated writer. Read-back equality is "
    "not decided (composition with C12/C13)."
    " Added in rounds 6 and 7: (O14.7) padding side per field type: blanks on the right whatever the class of the"
    " field. (O14.8) Reader / Writer constructed with the path of a CID. (O14.9) a row the row writer refuses"
    " after validation must not be registered by the checks (known finding)."
    " Added in rounds 8 and 9: (O14.10) a row writer given a path closes the file it opened."
    " Added in round 10: (O12.1, shared with C12) the csv writer quotes what the csv reader needs quoted: both"
    " are configured from the same keywords. Number items in a row are refused like any other non-text."
)
ASSUMPTIONS = ["csv.writer.writerow / stream.write emit what they are given (C12 decides the dialect side)"]


def rule_writer(ctx):
    ctx.res.minimum("O14.1", 2)
    protocol.writer_table(ctx, "O14.1", {"reset", "delimiter"}, "delimited")
    protocol.writer_table(ctx, "O14.1", {"reset", "delimiter"}, "fixed")
    protocol.fixed_writer_padding_table(ctx, "O14.5")
    from .c03 import field_classes

    protocol.fixed_writer_padding_side_table(ctx, "O14.7", [cls.qualname for cls in field_classes(ctx.model)])
    # "a CID-bound writer": bound by the CID object or by the path of the CID
    protocol.validators_accept_cid_path_table(ctx, "O14.8")
    protocol.writer_refusal_after_checks_table(ctx, "O14.9")
    protocol.row_writer_close_table(ctx, "O14.10")


def rule_validation_is_the_readers(ctx):
    """
    "Its output validates again" composes the writer with the validation the reader applies.  The writer table stubs
    validate_row; what validate_row and the built-in checks do with a row is decided by C04/C05's tables, which are
    obligations of C14 as well: a rejected (never emitted) row must leave no trace in any check (O5.3), IsUnique must
    refuse every repetition of a key, not only the second (O5.1), DistinctCount counts what was emitted (O5.2).
    """
    from .c05 import rule_distinct_count, rule_is_unique, rule_only_accepted_rows

    rule_only_accepted_rows(ctx)
    rule_is_unique(ctx)
    rule_distinct_count(ctx)


from .common import rule_module_state  # noqa: E402

def rule_write_rows_agrees_with_write_row(ctx):
    """O14.3: writing many rows at once emits what writing them one by one emits (sibling agreement in the row writer)."""
    from . import protocol

    protocol.write_rows_agreement_table(ctx, "O14.3")


def rule_fixed_files_keep_their_line_ends(ctx):
    """O14.4: fixed-width data read from a path is opened with newline="" (C12's rule for the fixed reader and the writers)."""
    from .c12 import rule_newline

    rule_newline(ctx, "O14.4", (("cutplace.rowio.fixed_rows", "r"), ("cutplace.rowio.AbstractRowWriter.__init__", "w")))


def rule_leading_blanks_survive(ctx):
    """O14.6: with "skip initial space" the reader drops blanks after an item delimiter unless the cell is quoted; minimal
    quoting does not quote a cell for its leading blank (frozen csv fact), so a written cell ' x' reads back as 'x' unless
    the writer quotes everything in that configuration."""
    import csv

    from ..absint import AbsRaise, exc_name
    from ..tablekit import decide_kinds
    from .c12 import _run_reader_writer

    ctx.res.minimum("O14.6", 1)

    def cell(ch):
        attributes = {"_item_delimiter": ",", "_quote_character": '"', "_escape_character": '"', "_line_delimiter": "any",
                      "_quoting": ch.choose("quoting", [csv.QUOTE_MINIMAL, csv.QUOTE_ALL]),
                      "_skip_initial_space": ch.choose("skip initial space", [False, True])}
        key = "quoting=%s skip initial space=%s" % ("all" if attributes["_quoting"] == csv.QUOTE_ALL else "minimal", attributes["_skip_initial_space"])
        try:
            seen, _ = _run_reader_writer(ctx.model, ch, attributes)
        except AbsRaise as raised:
            return (key, "writer set-up raises " + exc_name(raised.value), "")
        reader_keywords = dict(seen["reader"][1]) if "reader" in seen else {}
        writer_keywords = dict(seen["writer"][1]) if "writer" in seen else {}
        if reader_keywords.get("skipinitialspace") and writer_keywords.get("quoting") != csv.QUOTE_ALL:
            return (key, "cells with leading blanks are written unquoted although the reader skips initial space",
                    "writer quoting=%r" % (writer_keywords.get("quoting"),))
        return (key, None, None)

    decide_kinds(ctx, "O14.6", "leading blanks survive skip initial space", "cutplace.rowio.DelimitedRowWriter.__init__", cell, min_cells=4)


def rule_written_values_are_quoted_for_the_reader(ctx):
    """O12.1 (shared with C12): "reading the produced output back returns the written values" needs the csv writer and the
    csv reader to be configured alike - including which characters make the writer quote an item."""
    from .c12 import rule_dialect

    rule_dialect(ctx)


RULES = [rule_written_values_are_quoted_for_the_reader, rule_writer, rule_validation_is_the_readers, rule_write_rows_agrees_with_write_row, rule_fixed_files_keep_their_line_ends, rule_leading_blanks_survive, rule_module_state]
