"""
C15 - ODS sheets are read as the logical table they contain.
"""
from ..absint import AbsRaise, Atom, GenVal, Interp, Obj, Opaque, Undecided, exc_name, fragments
from ..tablekit import decide_kinds, stub, where_of

EXPLANATION = (
    "Static decision of C15: rowio.ods_rows is interpreted from source on abstract OpenDocument trees (an element model "
    "with tag / attrib / text / tail / children, find / findall with the reader's own namespace map, iteration, iter, "
    "itertext; cell texts are equality atoms, so the result must be composed of exactly the right fragments in the right "
    "order). Documents cover every construct the statement names, one at a time and combined with column runs: plain "
    "text, empty cell, empty paragraph, text:s (with and without text:c), text:tab, text:line-break, text wrapped in a "
    "span with tail text, several paragraphs, number-columns-repeated (1, 2, 3, and the faults 0, -1, 'x'), "
    "number-rows-repeated, 1..3 sheets x requested sheet 1..4. Expected: the logical table of the requested sheet; a "
    "missing sheet or a non-positive / non-numeric repeat count is a DataFormatError. Container faults (not a zip, no "
    "content.xml, malformed XML) are decided by the escape analysis (C06 O6.3 / C10)."
    " Added in rounds 6 and 7: (O15.5) an empty file, a file that is no archive, an archive without content.xml"
    " and malformed XML end in DataFormatError before any row, whatever the reader finds out about the file"
    " beforehand; negative blank counts are refused."
    " Added in rounds 8 and 9: Cell encodings with a comment (office:annotation) on a filled / an empty cell;"
    " counts padded with non-XML white space are refused."
)
ASSUMPTIONS = ["ElementTree decodes encodings and XML specials; the abstract element model mirrors the ElementTree API subset used"]

NS = {
    "office": "urn:oasis:names:tc:opendocument:xmlns:office:1.0",
    "table": "urn:oasis:names:tc:opendocument:xmlns:table:1.0",
    "text": "urn:oasis:names:tc:opendocument:xmlns:text:1.0",
}


def q(prefixed):
    prefix, name = prefixed.split(":")
    return "{%s}%s" % (NS[prefix], name)


class Element:
    def __init__(self, tag, attrib=None, text=None, tail=None, children=None):
        self.tag = q(tag)
        self.attrib = dict((q(k), v) for k, v in (attrib or {}).items())
        self.text = text
        self.tail = tail
        self.children = list(children or [])


def wrap(element):
    """Abstract object the interpreted code sees (one per element, so that ``is`` works as on real trees)."""
    if getattr(element, "wrapped", None) is not None:
        return element.wrapped
    obj = Obj("xml.etree.ElementTree.Element", {}, label=element.tag.split("}")[1])
    obj.element = element
    element.wrapped = obj

    def resolve(path, namespaces):
        if not isinstance(path, str):
            raise Undecided("xpath %r" % (path,))
        steps = []
        descend = False
        text = path
        if text.startswith(".//"):
            descend = True
            text = text[3:]
        elif text.startswith("./"):
            text = text[2:]
        for step in text.split("/"):
            if ":" in step:
                prefix, name = step.split(":")
                if not isinstance(namespaces, dict) or prefix not in namespaces:
                    raise Undecided("namespace prefix %r" % prefix)
                steps.append("{%s}%s" % (namespaces[prefix], name))
            elif step.startswith("{"):
                steps.append(step)
            else:
                raise Undecided("xpath step %r" % step)
        return steps, descend

    def select(path, namespaces):
        steps, descend = resolve(path, namespaces)
        current = [element]
        for index, step in enumerate(steps):
            found = []
            for item in current:
                pool = _descendants(item) if (descend and index == 0) else item.children
                found.extend(child for child in pool if child.tag == step)
            current = found
        return current

    @stub
    def findall(interp, args, kwargs):
        namespaces = kwargs.get("namespaces", args[1] if len(args) > 1 else None)
        return [wrap(child) for child in select(args[0], namespaces)]

    @stub
    def find(interp, args, kwargs):
        namespaces = kwargs.get("namespaces", args[1] if len(args) > 1 else None)
        found = select(args[0], namespaces)
        return wrap(found[0]) if found else None

    @stub
    def iter_(interp, args, kwargs):
        tag = args[0] if args else None
        return [wrap(item) for item in [element] + _descendants(element) if tag is None or item.tag == tag]

    @stub
    def itertext(interp, args, kwargs):
        return list(_itertext(element))

    @stub
    def get(interp, args, kwargs):
        return element.attrib.get(args[0], args[1] if len(args) > 1 else None)

    obj.attrs.update({"findall": findall, "find": find, "iter": iter_, "itertext": itertext, "get": get, "tag": element.tag,
                      "attrib": element.attrib, "text": element.text, "tail": element.tail})
    return obj


def _descendants(element):
    result = []
    for child in element.children:
        result.append(child)
        result.extend(_descendants(child))
    return result


def _itertext(element):
    if element.text is not None:
        yield element.text
    for child in element.children:
        yield from _itertext(child)
        if child.tail is not None:
            yield child.tail


def text_atom(name):
    return Atom(name, name)


# cell encodings: name -> (builder of the children of table:table-cell, expected fragments)
def cell_encodings():
    a, b = text_atom("A"), text_atom("B")
    return {
        "plain": ([Element("text:p", text=a)], [a]),
        "empty-cell": ([], []),
        "empty-paragraph": ([Element("text:p")], []),
        "text:s": ([Element("text:p", text=a, children=[Element("text:s", tail=b)])], [a, " ", b]),
        "text:s c=3": ([Element("text:p", text=a, children=[Element("text:s", {"text:c": "3"}, tail=b)])], [a, "   ", b]),
        "text:tab": ([Element("text:p", text=a, children=[Element("text:tab", tail=b)])], [a, "\t", b]),
        "text:line-break": ([Element("text:p", text=a, children=[Element("text:line-break", tail=b)])], [a, "\n", b]),
        "span+tail": ([Element("text:p", children=[Element("text:span", text=a, tail=b)])], [a, b]),
        "two paragraphs": ([Element("text:p", text=a), Element("text:p", text=b)], [a, "\n", b]),
        "empty paragraph first": ([Element("text:p"), Element("text:p", text=a)], ["\n", a]),
        "two empty paragraphs first": ([Element("text:p"), Element("text:p"), Element("text:p", text=a)], ["\n\n", a]),
        "empty paragraph last": ([Element("text:p", text=a), Element("text:p")], [a, "\n"]),
        "empty paragraph between": ([Element("text:p", text=a), Element("text:p"), Element("text:p", text=b)], [a, "\n\n", b]),
        "nested spans": ([Element("text:p", text=a, children=[Element("text:span", children=[Element("text:span", text=b)])])], [a, b]),
        "text:s first": ([Element("text:p", children=[Element("text:s", tail=a)])], [" ", a]),
        "text:s inside span": ([Element("text:p", children=[Element("text:span", text=a, children=[Element("text:s", {"text:c": "2"}, tail=b)])])], [a, "  ", b]),
        "text:tab inside span": ([Element("text:p", children=[Element("text:span", text=a, children=[Element("text:tab", tail=b)])])], [a, "\t", b]),
        "text:line-break inside nested span": ([Element("text:p", text=a, children=[Element("text:span", children=[
            Element("text:span", children=[Element("text:line-break")], tail=b)])])], [a, "\n", b]),
        "text:s last": ([Element("text:p", text=a, children=[Element("text:s")])], [a, " "]),
        "two text:s in a row": ([Element("text:p", text=a, children=[Element("text:s"), Element("text:s", {"text:c": "2"}, tail=b)])], [a, "   ", b]),
        # a comment is no content of the cell: its paragraphs sit inside office:annotation, not directly in the cell
        "comment on a filled cell": ([Element("office:annotation", children=[Element("text:p", text=b)]), Element("text:p", text=a)], [a]),
        "comment on an empty cell": ([Element("office:annotation", children=[Element("text:p", text=b)])], []),
    }


def normalise(value):
    if value is None:
        return ["<None>"]
    parts = fragments(value) if not isinstance(value, str) else [value]
    result = []
    for part in parts:
        if isinstance(part, str):
            if part == "":
                continue
            if result and isinstance(result[-1], str):
                result[-1] += part
            else:
                result.append(part)
        else:
            result.append(part)
    return result


def same_fragments(actual, expected):
    actual, expected = normalise(actual), _merge(expected)
    if len(actual) != len(expected):
        return False
    return all((x is y) or (isinstance(x, str) and isinstance(y, str) and x == y) for x, y in zip(actual, expected))


def _merge(expected):
    result = []
    for part in expected:
        if isinstance(part, str) and result and isinstance(result[-1], str):
            result[-1] += part
        elif not (isinstance(part, str) and part == ""):
            result.append(part)
    return result


def show(value):
    return "".join(part if isinstance(part, str) else "<%s>" % getattr(part, "name", part) for part in normalise(value))


def build_document(sheets):
    """sheets: list of lists of rows; row = (row attrib, [cells]); cell = (cell attrib, children)."""
    tables = []
    for rows in sheets:
        row_elements = []
        for row_attrib, cells in rows:
            cell_elements = [Element("table:table-cell", attrib, children=children) for attrib, children in cells]
            row_elements.append(Element("table:table-row", row_attrib, children=cell_elements))
        tables.append(Element("table:table", children=[Element("table:table-column")] + row_elements))
    spreadsheet = Element("office:spreadsheet", children=tables)
    return Element("office:document-content", children=[Element("office:body", children=[spreadsheet])])


def run_ods_rows(model, ch, document, sheet, fault=None):
    """fault: None, "empty file", "not a zip archive", "no content.xml" or "malformed XML" - what the standard library
    answers for such a file (its size, zipfile.BadZipFile, KeyError from ZipFile.read, ElementTree.ParseError)."""
    root = wrap(document)

    @stub
    def content_root(interp, args, kwargs):
        return root

    def iterate_hook(interp, args, kwargs):
        (value,) = args
        if isinstance(value, Obj) and hasattr(value, "element"):
            return [wrap(child) for child in value.element.children]
        raise Undecided("iteration over %r" % (value,))

    def len_hook(interp, args, kwargs):
        (value,) = args
        if isinstance(value, Obj) and hasattr(value, "element"):
            return len(value.element.children)
        raise Undecided("len of %r" % (value,))

    def subscript_hook(interp, args, kwargs):
        value, index = args
        if isinstance(value, Obj) and hasattr(value, "element") and isinstance(index, (int, slice)):
            children = [wrap(child) for child in value.element.children]
            try:
                return children[index]
            except IndexError:
                interp.raise_("builtins.IndexError", "child index out of range")
        raise Undecided("subscript %r of %r" % (index, value))

    def binop_hook(interp, args, kwargs):
        import ast as _ast

        op, left, right = args
        if isinstance(op, _ast.Add) and (isinstance(left, Atom) or isinstance(right, Atom)):
            return Opaque("str", True, fragments(left) + fragments(right))
        if isinstance(op, _ast.Mult) and isinstance(left, Atom):
            return NotImplemented
        return NotImplemented

    # the container: whatever helper opens the archive and parses content.xml, it ends with the root of the tree that
    # xml.etree.ElementTree.parse returned for the bytes of the member "content.xml"
    content = Opaque("bytes", True, ["<content.xml>"])

    @stub
    def archive_read(interp_, args, kwargs):
        if fault == "no content.xml":
            interp_.raise_("builtins.KeyError", "There is no item named 'content.xml' in the archive")
        if fault == "damaged content.xml member":  # round 11: the directory is intact, the deflate stream is not
            interp_.raise_("zlib.error", "Error -3 while decompressing data: invalid stored block lengths")
        return content

    archive = Obj("zipfile.ZipFile", {"read": archive_read, "close": stub(lambda i, a, k: None)}, label="archive")

    def open_archive(interp_, args, kwargs):
        if fault in ("empty file", "not a zip archive"):
            interp_.raise_("zipfile.BadZipFile", "File is not a zip file")
        return archive
    tree = Obj("xml.etree.ElementTree.ElementTree", {"getroot": stub(lambda i, a, k: root)}, label="tree")

    def with_hook(interp_, args, kwargs):
        (manager,) = args
        return manager, (lambda exc: None)

    def bytes_io(interp_, args, kwargs):
        return Obj("io.BytesIO", {"content": args[0] if args else None}, label="xml stream")

    def parse(interp_, args, kwargs):
        source = args[0] if args else None
        if isinstance(source, Obj) and source.attrs.get("content") is content or source is content:
            if fault == "malformed XML":
                interp_.raise_("xml.etree.ElementTree.ParseError", "not well-formed (invalid token): line 1, column 0")
            if fault == "XML in an undeclared encoding":  # round 11: expat answers LookupError / ValueError, not ParseError
                interp_.raise_("builtins.LookupError", "unknown encoding: no-such-encoding")
            return tree
        raise Undecided("ElementTree.parse(%r)" % (source,))

    stubs = {}
    if "cutplace.rowio.ods_rows.ods_content_root" in model.functions and fault is None:
        stubs["cutplace.rowio.ods_rows.ods_content_root"] = content_root
    size = 0 if fault == "empty file" else 4096
    file_probes = {"os.path.isfile": lambda i, a, k: True, "os.path.exists": lambda i, a, k: True, "os.path.isdir": lambda i, a, k: False,
                   "os.path.getsize": lambda i, a, k: size,
                   "os.stat": lambda i, a, k: Obj("os.stat_result", {"st_size": size}, label="stat")}
    interp = Interp(model, ch, stubs=stubs,
                    externals={"zipfile.ZipFile": open_archive, **file_probes, "contextlib.closing": lambda i, a, k: a[0], "with": with_hook,
                               "io.BytesIO": bytes_io, "xml.etree.ElementTree.parse": parse,
                               "iterate": iterate_hook, "len": len_hook, "binop": binop_hook, "subscript": subscript_hook, "os.path.basename": lambda i, a, k: "x"})
    rows = []
    try:
        generator = interp.call_function(model.func("cutplace.rowio.ods_rows"), ["book.ods", sheet], {}, None)
        for row in interp.iterate(generator):
            rows.append(row)
        return rows, "rows"
    except AbsRaise as raised:
        return rows, "raise " + exc_name(raised.value)


def rule_cell_texts(ctx, rule_id="O15.1"):
    model = ctx.model
    ctx.res.minimum(rule_id, 1)
    encodings = cell_encodings()
    plain = encodings["plain"]

    def cell(ch):
        name = ch.choose("encoding", list(encodings))
        repeat = ch.choose("number-columns-repeated", [None, "1", "2", "3"])
        children, expected = encodings[name]
        attrib = {} if repeat is None else {"table:number-columns-repeated": repeat}
        other = text_atom("C")
        document = build_document([[({}, [(attrib, children), ({}, [Element("text:p", text=other)])])]])
        rows, outcome = run_ods_rows(model, ch, document, 1)
        key = "cell=%s columns-repeated=%s" % (name, repeat)
        if outcome != "rows":
            return (key, "%s: %s" % (name, outcome), outcome)
        count = int(repeat) if repeat else 1
        if len(rows) != 1 or not isinstance(rows[0], list) or len(rows[0]) != count + 1:
            return (key, "%s: wrong table shape" % ("column run" if repeat else name), "rows=%r" % (rows,))
        for value in rows[0][:count]:
            if not same_fragments(value, expected):
                return (key, "cell text lost or altered for encoding %s" % name, "read %r, logical text %r" % (show(value), show(expected)))
        if not same_fragments(rows[0][count], [other]):
            return (key, "%s: following cell altered" % name, show(rows[0][count]))
        return (key, None, None)

    decide_kinds(ctx, rule_id, "ods_rows(cell text encodings x column runs)", "cutplace.rowio.ods_rows", cell, min_cells=60)


def rule_repeats_and_sheets(ctx):
    model = ctx.model
    ctx.res.minimum("O15.2", 3)

    def repeat_cell(ch):
        # "1_0" and non-ASCII digits are numbers for Python's int() but not for ODF (positiveInteger)
        repeat = ch.choose("number-columns-repeated", ["0", "-1", "x", "", "1.5", "1_0", "\u0661", "\u00a02", "2\u2028"])
        a = text_atom("A")
        document = build_document([[({}, [({"table:number-columns-repeated": repeat}, [Element("text:p", text=a)])])]])
        rows, outcome = run_ods_rows(model, ch, document, 1)
        if outcome == "raise DataFormatError":
            return ("columns-repeated=%r" % repeat, None, None)
        return ("columns-repeated=%r" % repeat, "broken column repeat count not refused with DataFormatError", outcome)

    decide_kinds(ctx, "O15.2", "ods_rows(broken repeat counts)", "cutplace.rowio.ods_rows", repeat_cell, min_cells=9)

    def blank_count_cell(ch):
        count = ch.choose("text:c", ["x", "", "1.5", "1_0", "\u0662", "-1", "-3", "\u00a02"])
        a = text_atom("A")
        document = build_document([[({}, [({}, [Element("text:p", text=a, children=[Element("text:s", {"text:c": count})])])])]])
        rows, outcome = run_ods_rows(model, ch, document, 1)
        if outcome == "raise DataFormatError":
            return ("text:c=%r" % count, None, None)
        return ("text:c=%r" % count, "broken blank count (text:c) not refused with DataFormatError", outcome if outcome != "rows" else "read %r" % ([show(v) for v in rows[0]] if rows else rows,))

    decide_kinds(ctx, "O15.2", "ods_rows(broken blank counts)", "cutplace.rowio.ods_rows", blank_count_cell, min_cells=7)

    def rows_cell(ch):
        repeat = ch.choose("number-rows-repeated", [None, "1", "2", "3"])
        a, b = text_atom("A"), text_atom("B")
        attrib = {} if repeat is None else {"table:number-rows-repeated": repeat}
        document = build_document([[(attrib, [({}, [Element("text:p", text=a)])]), ({}, [({}, [Element("text:p", text=b)])])]])
        rows, outcome = run_ods_rows(model, ch, document, 1)
        key = "rows-repeated=%s" % repeat
        if outcome != "rows":
            return (key, "row run: " + outcome, outcome)
        count = int(repeat) if repeat else 1
        texts = [show(row[0]) if isinstance(row, list) and row else "?" for row in rows]
        if texts != ["<A>"] * count + ["<B>"]:
            return (key, "runs of equal rows (number-rows-repeated) are not expanded", "read rows %r" % (texts,))
        return (key, None, None)

    decide_kinds(ctx, "O15.2", "ods_rows(row runs)", "cutplace.rowio.ods_rows", rows_cell, min_cells=4)

    def broken_rows_repeated_cell(ch):
        repeat = ch.choose("number-rows-repeated", ["0", "-1", "x", "", "1_0"])
        a = text_atom("A")
        document = build_document([[({"table:number-rows-repeated": repeat}, [({}, [Element("text:p", text=a)])])]])
        rows, outcome = run_ods_rows(model, ch, document, 1)
        if outcome == "raise DataFormatError":
            return ("rows-repeated=%r" % repeat, None, None)
        return ("rows-repeated=%r" % repeat, "broken row repeat count not refused with DataFormatError", outcome)

    decide_kinds(ctx, "O15.2", "ods_rows(broken row repeat counts)", "cutplace.rowio.ods_rows", broken_rows_repeated_cell, min_cells=5)

    def sheet_cell(ch):
        sheet_count = ch.choose("sheets", [1, 2, 3])
        sheet = ch.choose("requested", [1, 2, 3, 4])
        atoms = [text_atom("S%d" % index) for index in range(sheet_count)]
        document = build_document([[({}, [({}, [Element("text:p", text=atom)])])] for atom in atoms])
        rows, outcome = run_ods_rows(model, ch, document, sheet)
        key = "sheets=%d requested=%d" % (sheet_count, sheet)
        if sheet > sheet_count:
            if outcome == "raise DataFormatError":
                return (key, None, None)
            return (key, "missing sheet not refused with DataFormatError", outcome)
        if outcome == "rows" and len(rows) == 1 and same_fragments(rows[0][0], [atoms[sheet - 1]]):
            return (key, None, None)
        return (key, "wrong sheet read", "%s %r" % (outcome, [show(row[0]) for row in rows if row]))

    decide_kinds(ctx, "O15.2", "ods_rows(sheet selection)", "cutplace.rowio.ods_rows", sheet_cell, min_cells=12)


def rule_container_faults(ctx, rule_id="O15.5"):
    """A file that is empty, not a zip archive, lacks content.xml or holds malformed XML fails with a data-format error -
    before any row is delivered, and whatever the reader finds out about the file beforehand (size, kind)."""
    model = ctx.model
    ctx.res.minimum(rule_id, 1)

    def cell(ch):
        fault = ch.choose("container", ["empty file", "not a zip archive", "no content.xml", "malformed XML", "damaged content.xml member",
                                         "XML in an undeclared encoding"])
        sheet = ch.choose("sheet", [1, 2])
        a = text_atom("A")
        document = build_document([[({}, [({}, [Element("text:p", text=a)])])], [({}, [({}, [Element("text:p", text=a)])])]])
        rows, outcome = run_ods_rows(model, ch, document, sheet, fault=fault)
        key = "%s, sheet %d" % (fault, sheet)
        if outcome == "raise DataFormatError" and not rows:
            return (key, None, None)
        return (key, "broken container not refused with DataFormatError",
                "%d row(s), then %s" % (len(rows), "end of data (no error)" if outcome == "rows" else outcome))

    decide_kinds(ctx, rule_id, "ods_rows(broken containers)", "cutplace.rowio.ods_rows", cell, min_cells=12)


def rule_row_containers_and_covered_cells(ctx, rule_id="O15.3"):
    """
    O15.3: the rows of a sheet are its table:table-row elements in document order wherever the format allows them - directly
    in the table or inside table:table-header-rows / table:table-rows / table:table-row-group (nested groups too); the cells
    of a row are its table:table-cell AND table:covered-table-cell elements (the positions under a merged cell) in order.
    """
    model = ctx.model
    ctx.res.minimum(rule_id, 2)

    def row(cells):
        return Element("table:table-row", children=[Element("table:table-cell", children=[Element("text:p", text=cell)]) for cell in cells])

    def container_cell(ch):
        container = ch.choose("container", ["table:table-header-rows", "table:table-rows", "table:table-row-group",
                                            "table:table-row-group in table:table-row-group"])
        wrapped = ch.choose("wrapped rows", ["first", "middle", "last", "all"])
        atoms = [text_atom(name) for name in ("A", "B", "C")]
        rows = [row([atom]) for atom in atoms]

        def wrap_rows(elements):
            if " in " in container:
                return Element("table:table-row-group", children=[Element("table:table-row-group", children=elements)])
            return Element(container, children=elements)

        if wrapped == "all":
            body = [wrap_rows(rows)]
        else:
            index = {"first": 0, "middle": 1, "last": 2}[wrapped]
            body = rows[:index] + [wrap_rows([rows[index]])] + rows[index + 1:]
        table = Element("table:table", children=[Element("table:table-column")] + body)
        document = Element("office:document-content", children=[Element("office:body", children=[Element("office:spreadsheet", children=[table])])])
        result, outcome = run_ods_rows(model, ch, document, 1)
        key = "%s around the %s row(s)" % (container, wrapped)
        if outcome != "rows":
            return (key, "rows in a row container: " + outcome, outcome)
        texts = [show(r[0]) if isinstance(r, list) and len(r) == 1 else repr(r) for r in result]
        if texts != ["<A>", "<B>", "<C>"]:
            return (key, "rows inside a row container are not read in document order", "read %r" % (texts,))
        return (key, None, None)

    decide_kinds(ctx, rule_id, "ods_rows(rows inside header-rows / rows / row-group)", "cutplace.rowio.ods_rows", container_cell, min_cells=16)

    def covered_cell(ch):
        shape = ch.choose("covered cells", ["one", "run of 2", "at the start", "at the end"])
        a, c = text_atom("A"), text_atom("C")
        plain = lambda atom: Element("table:table-cell", children=[Element("text:p", text=atom)])  # noqa: E731
        covered = {"one": [Element("table:covered-table-cell")],
                   "run of 2": [Element("table:covered-table-cell", {"table:number-columns-repeated": "2"})],
                   "at the start": [Element("table:covered-table-cell")], "at the end": [Element("table:covered-table-cell")]}[shape]
        if shape == "at the start":
            cells, expected = covered + [plain(a), plain(c)], ["", "<A>", "<C>"]
        elif shape == "at the end":
            cells, expected = [plain(a), plain(c)] + covered, ["<A>", "<C>", ""]
        else:
            cells, expected = [plain(a)] + covered + [plain(c)], ["<A>"] + [""] * (2 if shape == "run of 2" else 1) + ["<C>"]
        table = Element("table:table", children=[Element("table:table-column"), Element("table:table-row", children=cells)])
        document = Element("office:document-content", children=[Element("office:body", children=[Element("office:spreadsheet", children=[table])])])
        result, outcome = run_ods_rows(model, ch, document, 1)
        key = "covered cells: " + shape
        if outcome != "rows":
            return (key, "covered cells: " + outcome, outcome)
        texts = [show(value) if not (isinstance(value, str) and value == "") else "" for value in (result[0] if result else [])]
        if len(result) != 1 or texts != expected:
            return (key, "cells under a merged cell (table:covered-table-cell) do not keep their position", "read %r, logical row %r" % (texts, expected))
        return (key, None, None)

    decide_kinds(ctx, rule_id, "ods_rows(covered cells keep their position)", "cutplace.rowio.ods_rows", covered_cell, min_cells=4)


def rule_empty_rows(ctx, rule_id="O15.2"):
    model = ctx.model

    def empty_row_cell(ch):
        position = ch.choose("empty row", ["first", "middle", "last"])
        shape = ch.choose("shape", ["row of empty cells", "row without cells", "one repeated empty cell"])
        a, b = text_atom("A"), text_atom("B")
        empty = {"row of empty cells": [({}, []), ({}, [])], "row without cells": [],
                 "one repeated empty cell": [({"table:number-columns-repeated": "2"}, [])]}[shape]
        filled = [({}, [({}, [Element("text:p", text=a)])]), ({}, [({}, [Element("text:p", text=b)])])]
        index = {"first": 0, "middle": 1, "last": 2}[position]
        rows_in = filled[:index] + [({}, empty)] + filled[index:]
        document = build_document([rows_in])
        rows, outcome = run_ods_rows(model, ch, document, 1)
        key = "empty row %s (%s)" % (position, shape)
        if outcome != "rows":
            return (key, "empty row: " + outcome, outcome)
        if len(rows) != 3:
            return (key, "an empty row of the sheet is not returned (row numbers of all later rows shift)", "%d rows read instead of 3" % len(rows))
        width = {"row of empty cells": 2, "row without cells": 0, "one repeated empty cell": 2}[shape]
        if not isinstance(rows[index], list) or len(rows[index]) != width:
            return (key, "an empty row does not keep its cells", "%r instead of %d empty texts" % (rows[index], width))
        if any(not (isinstance(value, str) and value == "") for value in rows[index]):
            return (key, "cells of an empty row are not empty texts", repr(rows[index]))
        return (key, None, None)

    decide_kinds(ctx, rule_id, "ods_rows(empty rows keep their place)", "cutplace.rowio.ods_rows", empty_row_cell, min_cells=9)


from .common import rule_module_state  # noqa: E402

RULES = [rule_cell_texts, rule_repeats_and_sheets, rule_empty_rows, rule_row_containers_and_covered_cells, rule_container_faults, rule_module_state]
