"""
C13 - fixed-width reading is lossless and aligned.
"""
import ast

from ..absint import AbsRaise, AText, Frame, FuncRef, GenVal, Interp, Obj, Undecided, exc_name
from ..model import dotted, walk_own
from ..tablekit import decide, stub, where_of

EXPLANATION = (
    "Static decision of C13 over the character-class abstraction {CR, LF, other}: rowio.fixed_rows (including its nested "
    "delimiter automaton and the one-character push-back) is interpreted from source on every abstract character stream "
    "up to a length bound (5 quick / 7 thorough), for two width lists and the five line-delimiter settings. The reader only "
    "ever compares what it reads with the delimiter constants and measures lengths, so one 'other' character stands for "
    "all non-delimiter characters. Per run the oracle is the statement itself: either DataFormatError is raised - and then "
    "no segmentation of the stream into full-width records separated by permitted delimiters (final one optional) may "
    "exist - or rows are returned whose items have exactly their declared width and which, interleaved with permitted "
    "delimiters, reproduce the stream character for character (identity-tracked, so a dropped, duplicated or reordered "
    "character is a mismatch). Structural side rules: the only row.append is under len(item) == field_length; every raise "
    "in fixed_rows is a DataFormatError with the location; widths come from field_names_and_lengths."
    " Added in rounds 6 and 7: (O13.9) a stream whose name is missing, None, a file descriptor or bytes can be"
    " read like any other (C04's source-name table)."
    " Added in rounds 8 and 9: A data character compared with a literal outside CR / LF is a choice (both answers"
    " explored)."
    " Added in round 10: (O13.4) raise helper(...) counts as a located DataFormatError when every return of"
    " the helper is DataFormatError(message, <its location parameter>)."
)
ASSUMPTIONS = ["the text stream's read(n) returns up to n characters and '' only at the end of input"]

FIXED_ROWS = "cutplace.rowio.fixed_rows"


class Ch:
    """One abstract character of the stream: CR, LF or 'other' (stands for every non-delimiter character)."""

    def __init__(self, kind, position):
        self.kind = kind
        self.position = position
        self.blank = False

    def __repr__(self):
        return "%s%d" % ({"CR": "\\r", "LF": "\\n", "X": "x"}[self.kind], self.position)


class Chunk(AText):
    """Result of read(n): a (possibly empty) sequence of abstract characters."""

    custom_eq = True

    def __init__(self, chars):
        AText.__init__(self, AText.TEXT if chars else AText.EMPTY, "chunk", chars=list(chars))
        chunk = self

        def pad(side):
            @stub
            def method(interp, args, kwargs):
                width = args[0] if args else 0
                if not isinstance(width, int) or isinstance(width, bool):
                    raise Undecided("padding to %r" % (width,))
                missing = max(0, width - len(chunk.chars))
                # padding characters are not characters of the stream (position -1): a row holding them does not
                # reproduce the input
                filler = [Ch("X", -1) for _ in range(missing)]
                if side == "left":
                    return Chunk(list(chunk.chars) + filler)
                if side == "right":
                    return Chunk(filler + list(chunk.chars))
                return Chunk(filler[: missing // 2] + list(chunk.chars) + filler[missing // 2:])

            return method

        self.methods = {"ljust": pad("left"), "rjust": pad("right"), "center": pad("center")}

    def text(self):
        return "".join({"CR": "\r", "LF": "\n", "X": "x"}[c.kind] for c in self.chars)


def _chunk_externals(chooser=None):
    assumed = {}

    def text_eq(interp, args, kwargs):
        left, right = args
        if isinstance(right, Chunk) and not isinstance(left, Chunk):
            left, right = right, left
        if isinstance(left, Chunk) and isinstance(right, str):
            if any(c.kind == "X" for c in left.chars):
                if all(ch in "\r\n" for ch in right):
                    return False
                # a literal with other characters (an end-of-file marker, a byte order mark ...): 'x' stands for every
                # non-delimiter character, so the comparison may hold - both answers are explored, one per literal
                same_shape = len(right) == len(left.chars) and all(
                    (c.kind == "X") == (ch not in "\r\n") and (c.kind == "X" or {"CR": "\r", "LF": "\n"}[c.kind] == ch)
                    for c, ch in zip(left.chars, right))
                if not same_shape:
                    return False
                if chooser is None:
                    raise Undecided("chunk == %r" % right)
                if right not in assumed:
                    assumed[right] = chooser.choose(("the data characters are", right), [False, True])
                return assumed[right]
            return left.text() == right
        if isinstance(left, Chunk) and isinstance(right, Chunk):
            return left.chars == right.chars
        if isinstance(left, Chunk) and right is None:
            return False
        raise Undecided("text equality %r == %r" % (left, right))

    def contains(interp, args, kwargs):
        container, item = args
        if isinstance(container, Chunk) and isinstance(item, str) and item and all(c in "\r\n" for c in item):
            # the delimiter characters are the only ones the abstraction tells apart
            return item in container.text()
        raise Undecided("membership of %r in %r" % (item, container))

    def binop(interp, args, kwargs):
        op, left, right = args
        if isinstance(op, ast.Add) and isinstance(left, Chunk) and isinstance(right, Chunk):
            return Chunk(left.chars + right.chars)
        if isinstance(op, (ast.Add, ast.Mod)) and (isinstance(left, Chunk) or isinstance(right, Chunk)) and (
                isinstance(left, str) or isinstance(right, str)):
            from ..absint import Opaque

            return Opaque("str", True)
        return NotImplemented

    def in_str(interp, args, kwargs):
        item, container = args
        if isinstance(item, Chunk) and isinstance(container, str) and all(ch in "\r\n" for ch in container):
            if any(c.kind == "X" for c in item.chars):
                return False
            return item.text() in container
        raise Undecided("membership of %r in %r" % (item, container))

    return {"text_eq": text_eq, "binop": binop, "text_len": lambda i, a, k: len(a[0].chars), "contains": contains, "in_str": in_str}


def _make_stream(ch, max_length):
    """Lazily chosen abstract stream with an identity per character."""
    consumed = []
    state = {"ended": False}

    @stub
    def read(interp, args, kwargs):
        (count,) = args
        if not isinstance(count, int) or isinstance(count, bool) or count < 0:
            raise Undecided("read(%r)" % (count,))
        chars = []
        for _ in range(count):
            if state["ended"]:
                break
            options = ["X", "CR", "LF", "END"] if len(consumed) < max_length else ["END"]
            kind = ch.choose(("char", len(consumed)), options)
            if kind == "END":
                state["ended"] = True
                break
            char = Ch(kind, len(consumed))
            consumed.append(char)
            chars.append(char)
        interp.event("read", count, "".join(repr(c) for c in chars))
        return Chunk(chars)

    @stub
    def close(interp, args, kwargs):
        interp.event("close", None, None)

    return Obj("io.StringIO", {"read": read, "close": close, "name": "<fixed>"}, label="stream"), consumed, state


PERMITTED = {
    "any": [("LF",), ("CR", "LF"), ("CR",)],
    "\n": [("LF",)],
    "\r": [("CR",)],
    "\r\n": [("CR", "LF")],
    None: [()],
}


def _segmentations_exist(kinds, record_length, setting, position=0, first=True):
    """
    Is the stream (list of kinds) a well-formed sequence of full records separated by permitted delimiters (the
    final one optional)?  Under 'any' a CR directly followed by LF is read as ONE delimiter (the documented CRLF):
    a stream that is only well-formed when that LF is taken as data of the next record is ambiguous and is not
    required to be accepted.
    """
    total = len(kinds)
    if position == total:
        return True
    if position + record_length > total:
        return False
    after = position + record_length
    if after == total:
        return True  # final delimiter optional
    candidates = PERMITTED[setting]
    if setting == "any" and tuple(kinds[after:after + 2]) == ("CR", "LF"):
        candidates = [("CR", "LF")]
    for delimiter in candidates:
        end = after + len(delimiter)
        if end <= total and tuple(kinds[after:end]) == delimiter:
            if _segmentations_exist(kinds, record_length, setting, end, False):
                return True
    return False


def _viable_prefix(kinds, record_length, setting):
    """Can the consumed characters be continued to a well-formed stream?  (The reader must not reject such a prefix.)"""
    import itertools

    for extra in range(0, record_length + 3):
        for extension in itertools.product(("X", "CR", "LF"), repeat=extra):
            if _segmentations_exist(list(kinds) + list(extension), record_length, setting):
                return True
    return False


def _check_rows(rows, consumed, widths, setting):
    """Rows must have the declared widths and, interleaved with permitted delimiters, reproduce the consumed stream."""
    position = 0
    total = len(consumed)
    for row_index, row in enumerate(rows):
        if not isinstance(row, list) or len(row) != len(widths):
            return "row %d has %s items, expected %d" % (row_index, len(row) if isinstance(row, list) else "?", len(widths))
        for item, width in zip(row, widths):
            if not isinstance(item, Chunk) or len(item.chars) != width:
                return "row %d: item of %s characters for a field of width %d" % (row_index, len(item.chars) if isinstance(item, Chunk) else "?", width)
            for char in item.chars:
                if position >= total or consumed[position] is not char:
                    return "row %d does not continue the input at character %d (a character was dropped, repeated or reordered)" % (row_index, position)
                position += 1
        if row_index < len(rows) - 1 or position < total:
            # a delimiter must follow (optional only after the final row at the end of input)
            matched = False
            kinds = [c.kind for c in consumed]
            for delimiter in sorted(PERMITTED[setting], key=len, reverse=True):
                end = position + len(delimiter)
                if tuple(kinds[position:end]) == delimiter:
                    # the next row (or the end) must start right after it
                    next_start = rows[row_index + 1][0].chars[0] if row_index + 1 < len(rows) else None
                    if (next_start is None and end == total) or (next_start is not None and end < total and consumed[end] is next_start) \
                            or (next_start is not None and delimiter == () and consumed[end] is next_start):
                        matched = True
                        position = end
                        break
            if not matched:
                return "between row %d and what follows the input does not hold a delimiter permitted by the setting" % row_index
    if position != total:
        return "input characters from %d on were consumed but not returned" % position
    return None


def fixed_rows_cell(model, ch, max_length):
    setting = ch.choose("line delimiter", ["any", "\n", "\r", "\r\n", None])
    widths = ch.choose("widths", [[1], [2], [2, 1]])
    stream, consumed, state = _make_stream(ch, max_length)
    interp = Interp(model, ch, externals=_chunk_externals(ch))
    fields = [("f%d" % index, width) for index, width in enumerate(widths)]
    rows = []
    try:
        generator = interp.call_function(model.func(FIXED_ROWS), [stream, "utf-8", fields, setting], {}, None)
        if not isinstance(generator, GenVal):
            raise Undecided("fixed_rows is not a generator")
        for row in interp.iterate(generator):
            rows.append(row)
        outcome = "return"
    except AbsRaise as raised:
        outcome = "raise " + exc_name(raised.value)
    kinds = [c.kind for c in consumed]
    shown = "".join({"CR": "r", "LF": "n", "X": "x"}[k] for k in kinds) + ("$" if state["ended"] else "~")
    key = "delimiter=%r widths=%s stream=%s" % (setting, widths, shown)
    if not state["ended"] and outcome == "return":
        return (key, "returned without reaching the end of the input", "conforms")
    well_formed = state["ended"] and _segmentations_exist(kinds, sum(widths), setting)
    if outcome == "return":
        problem = _check_rows(rows, consumed, widths, setting)
        return (key, problem or "conforms", "conforms")
    if outcome != "raise DataFormatError":
        return (key, outcome, "conforms")
    if well_formed:
        return (key, "well-formed input rejected with DataFormatError", "conforms")
    if not state["ended"] and _viable_prefix(kinds, sum(widths), setting):
        return (key, "rejected with DataFormatError after a prefix that well-formed inputs start with", "conforms")
    # rows yielded before the error must still be a faithful prefix
    position = 0
    for row in rows:
        for item in row:
            for char in (item.chars if isinstance(item, Chunk) else []):
                if position < len(consumed) and consumed[position] is not char:
                    # skip delimiters
                    while position < len(consumed) and consumed[position] is not char:
                        position += 1
                position += 1
    return (key, "conforms", "conforms")


def rule_fixed_rows(ctx):
    ctx.res.minimum("O13.6", 1)
    max_length = 7 if ctx.thorough else 5
    decide(ctx, "O13.6", "fixed_rows(streams<=%d)" % max_length, FIXED_ROWS, lambda ch: fixed_rows_cell(ctx.model, ch, max_length),
           min_cells=500, key_name="fixed_rows", max_report=8)


def _returns_located_error(model, info, call):
    """``raise helper(..., location)``: a function of the same module whose every return is DataFormatError(message, <parameter>)
    and that is handed something other than None for that parameter."""
    helper = info.module.functions.get(call.func.id) if hasattr(info.module, "functions") else None
    if helper is None:
        helper = model.functions.get("%s.%s" % (info.module.name, call.func.id))
    if helper is None:
        return False
    parameters = [a.arg for a in helper.node.args.posonlyargs + helper.node.args.args]
    returns = [n for n in ast.walk(helper.node) if isinstance(n, ast.Return)]
    if not returns or any(isinstance(n, ast.Raise) for n in ast.walk(helper.node)):
        return False
    for node in returns:
        made = node.value if isinstance(node.value, ast.Call) else None
        if made is None or not (dotted(made.func) or "").endswith("DataFormatError"):
            return False
        location = made.args[1] if len(made.args) >= 2 else next((k.value for k in made.keywords if k.arg == "location"), None)
        if not isinstance(location, ast.Name) or location.id not in parameters:
            return False
        position = parameters.index(location.id)
        handed = call.args[position] if position < len(call.args) else next((k.value for k in call.keywords if k.arg == location.id), None)
        if handed is None or (isinstance(handed, ast.Constant) and handed.value is None):
            return False
    return True


def rule_structure(ctx):
    """O13.4: every raise in fixed_rows (and its nested automaton) is a DataFormatError that is given a location."""
    model = ctx.model
    info = model.func(FIXED_ROWS)
    ctx.res.minimum("O13.4", 1)
    raises = [n for n in ast.walk(info.node) if isinstance(n, ast.Raise)]
    bad = []
    for node in raises:
        call = node.exc if isinstance(node.exc, ast.Call) else None
        if call is not None and isinstance(call.func, ast.Name) and _returns_located_error(model, info, call):
            continue
        class_ok = call is not None and (dotted(call.func) or "").endswith("DataFormatError")
        location = None
        if call is not None:
            location = call.args[1] if len(call.args) >= 2 else next((k.value for k in call.keywords if k.arg == "location"), None)
        located = location is not None and not (isinstance(location, ast.Constant) and location.value is None)
        if not (class_ok and located):
            bad.append(node.lineno)
    if bad or len(raises) < 4:
        ctx.res.fail("O13.4", "raises are located DataFormatErrors", "rowio.fixed_rows:O13.4:raises", where_of(model, FIXED_ROWS),
                     "raise statements at lines %s are not DataFormatError(message, <location>) (found %d raises)" % (bad, len(raises)))
    else:
        ctx.res.ok("O13.4", "all %d raise statements of fixed_rows are DataFormatError(message, <location>)" % len(raises), True)


def rule_raw_rows_dispatch(ctx):
    """O13.7: the declared line delimiter (including 'none') reaches fixed_rows unchanged."""
    from .c17 import raw_rows_dispatch_table

    ctx.res.minimum("O13.7", 1)
    raw_rows_dispatch_table(ctx, "O13.7")


from .common import rule_module_state  # noqa: E402

def rule_fixed_files_keep_their_line_ends(ctx):
    """O13.8: fixed-width data read from a path is opened with newline="" (C12's rule for the fixed reader and the writers)."""
    from .c12 import rule_newline

    rule_newline(ctx, "O13.8", (("cutplace.rowio.fixed_rows", "r"), ("cutplace.rowio.AbstractRowWriter.__init__", "w")))


def rule_any_stream_can_be_read(ctx):
    """O13.9: "for any character stream": a stream whose name is missing, None, a file descriptor or bytes is read like any
    other - the Reader and the location of the fixed reader's errors can be built and rendered (C04's table)."""
    from .c04 import rule_locations_name_every_kind_of_source

    rule_locations_name_every_kind_of_source(ctx, "O13.9")


RULES = [rule_fixed_rows, rule_structure, rule_raw_rows_dispatch, rule_fixed_files_keep_their_line_ends, rule_any_stream_can_be_read, rule_module_state]
