"""
C05 - uniqueness and distinct-count checks are decided over the whole data set.
"""
import ast

from ..absint import AbsRaise, Atom, Interp, Obj, Opaque, Undecided, exc_name
from ..model import walk_own
from ..tablekit import decide, stub, where_of
from ..world import World
from . import protocol

EXPLANATION = (
    "Static decision of C05: (O5.1) IsUniqueCheck.reset/check_row are interpreted from source on every sequence of 1..3 "
    "rows (4 thorough) whose key fields take values from a two-letter alphabet of equality atoms (plus a non-key field), "
    "with ONE live location cursor that moves between rows as in the reader; a row must be rejected iff an earlier row "
    "of the run has the same values in ALL key fields, the error sits at the later row and its see-also location is the "
    "row of the first occurrence (which fails if the stored location is not a copy), and a reset forgets everything. "
    "(O5.2) DistinctCountCheck: check_row/check_at_end over the same sequences; the count handed to the expression is the "
    "number of distinct values, and the end verdict fails iff the expression is false; the expression is 'count' + the "
    "rule after the field name. (O5.3) checks see a row only if all its cells passed - validate_row table. (O5.4) every "
    "attribute a check mutates while checking is re-initialised by its reset()."
    " Added in rounds 6 and 7: (O5.4c) cleanup() of a check does not write the bookkeeping check_row /"
    " check_at_end / reset work on. (O5.8) every Reader / Writer the package creates (GUI included) is closed on"
    " every path, so the end-of-data verdict is always asked. (O5.9) a row the row writer refuses after validation"
    " must not be registered by the checks (known finding)."
    " Added in round 10: (O5.3) check_row receives the cells of the row, not the typed values the fields"
    " return (duplicates are decided on the texts)."
)
ASSUMPTIONS = ["Python's eval of the comparison text; dictionary look-up by tuple equality"]

IS_UNIQUE = "cutplace.checks.IsUniqueCheck"
DISTINCT = "cutplace.checks.DistinctCountCheck"


def _composed_text_eq(ch):
    """Equality of two texts composed of values known only up to equality: the same sequence of fragments is the same text;
    otherwise, if both hold several values, the texts CAN coincide although the values differ ('a, b' + 'a' against 'a' +
    'b, a'): both answers are explored.  Keys built that way are not injective."""
    asked = []

    def hook(interp, args, kwargs):
        left, right = args
        same = len(left.parts) == len(right.parts) and all(
            (x is y) or (isinstance(x, Atom) and isinstance(y, Atom) and x == y) or (isinstance(x, str) and isinstance(y, str) and x == y)
            for x, y in zip(left.parts, right.parts))
        if same:
            return True
        atoms = [sum(1 for part in side.parts if isinstance(part, Atom)) for side in (left, right)]
        if min(atoms) >= 2:
            asked.append(None)
            return ch.choose(("composed texts coincide", len(asked)), [False, True])
        return False

    return hook


def _is_unique_cell(model, ch, max_rows):
    interp = Interp(model, ch, externals={"composed_text_eq": _composed_text_eq(ch)})
    world = World(model, interp, ch)
    key_fields = ch.choose("key fields", [["f0"], ["f0", "f1"]])
    check = Obj(model.cls(IS_UNIQUE), {"_field_names_to_check": list(key_fields), "_description": "unique",
                                       "_row_key_to_location_map": None}, label="is_unique")
    interp.call_function(model.func(IS_UNIQUE + ".reset"), [check], {}, None)
    n_rows = ch.choose("rows", list(range(1, max_rows + 1)))
    reset_before_last = ch.choose("reset before last row", [False, True]) if n_rows >= 2 else False
    live = world.location("live")
    values = []
    outcomes = []
    for index in range(n_rows):
        row_values = {"f0": ch.choose(("f0", index), ["a", "b"]), "f1": ch.choose(("f1", index), ["a", "b"]),
                      "f2": ch.choose(("f2", index), ["a", "b"]) if index == n_rows - 1 else "a"}
        values.append(row_values)
        field_map = {name: Atom("%s@%d" % (name, index), name + "=" + letter) for name, letter in row_values.items()}
        if reset_before_last and index == n_rows - 1:
            interp.call_function(model.func(IS_UNIQUE + ".reset"), [check], {}, None)
        live.attrs["_line"] = index
        try:
            interp.call_function(model.func(IS_UNIQUE + ".check_row"), [check, field_map, live], {}, None)
            outcomes.append(None)
        except AbsRaise as raised:
            outcomes.append(raised.value)
    live.attrs["_line"] = 99  # the reader moves on
    # oracle
    first_seen = {}
    problems = []
    for index, row_values in enumerate(values):
        if reset_before_last and index == n_rows - 1:
            first_seen = {}
        key = tuple(row_values[name] for name in key_fields)
        error = outcomes[index]
        if key in first_seen:
            if error is None:
                problems.append("row %d repeats the key of row %d but was accepted" % (index, first_seen[key]))
            elif exc_name(error) != "CheckError":
                problems.append("duplicate row %d raised %s" % (index, exc_name(error)))
            else:
                location = error.attrs.get("_location")
                see_also = error.attrs.get("_see_also_location")
                if not isinstance(location, Obj) or location.attrs.get("_line") != index:
                    problems.append("duplicate row %d reported at line %r" % (index, location.attrs.get("_line") if isinstance(location, Obj) else None))
                if not isinstance(see_also, Obj) or see_also.attrs.get("_line") != first_seen[key]:
                    problems.append("duplicate row %d refers back to line %r instead of first occurrence %d" % (
                        index, see_also.attrs.get("_line") if isinstance(see_also, Obj) else None, first_seen[key]))
        else:
            if error is not None:
                problems.append("row %d has a new key but raised %s" % (index, exc_name(error)))
            first_seen[key] = index
    shown = " ".join("".join(v[name] for name in ("f0", "f1", "f2")) for v in values)
    return ("key=%s rows=[%s]%s" % ("+".join(key_fields), shown, " reset-before-last" if reset_before_last else ""),
            "; ".join(problems) if problems else "conforms", "conforms")


def rule_is_unique(ctx):
    ctx.res.minimum("O5.1", 1)
    max_rows = 4 if ctx.thorough else 3
    decide(ctx, "O5.1", "IsUnique(rows<=%d)" % max_rows, IS_UNIQUE + ".check_row", lambda ch: _is_unique_cell(ctx.model, ch, max_rows), min_cells=100, key_name="IsUnique")


def _distinct_cell(model, ch, max_rows):
    seen_eval = []
    verdicts = ["True", "False"]

    def eval_hook(interp_, args, kwargs):
        expression, global_vars, local_vars = args
        verdict = ch.choose(("eval", len(seen_eval)), verdicts)
        seen_eval.append((expression, dict(local_vars) if isinstance(local_vars, dict) else local_vars, verdict))
        return verdict == "True"

    interp = Interp(model, ch, externals={"builtins.eval": eval_hook})
    world = World(model, interp, ch)
    check = Obj(model.cls(DISTINCT), {"_field_name_to_count": "f1", "_expression": "count >= 2", "_description": "distinct",
                                      "_distinct_value_to_count_map": None, "_location": None}, label="distinct")
    interp.call_function(model.func(DISTINCT + ".reset"), [check], {}, None)
    n_rows = ch.choose("rows", list(range(0, max_rows + 1)))
    reset_before_last = ch.choose("reset before last row", [False, True]) if n_rows >= 2 else False
    letters = []
    location = world.location()
    for index in range(n_rows):
        # "-" is the empty value (a field that may be empty): it counts like any other value
        letter = ch.choose(("f1", index), ["a", "-", "c"][: 2 if index < 2 else 3])
        if reset_before_last and index == n_rows - 1:
            interp.call_function(model.func(DISTINCT + ".reset"), [check], {}, None)
            letters = []
        letters.append(letter)
        field_map = {"f0": Atom("f0@%d" % index, "f0=%d" % index), "f1": "" if letter == "-" else Atom("f1@%d" % index, "f1=" + letter)}
        try:
            interp.call_function(model.func(DISTINCT + ".check_row"), [check, field_map, location], {}, None)
        except AbsRaise as raised:
            return ("rows=%s" % "".join(letters), "check_row raised " + exc_name(raised.value), "conforms")
    try:
        interp.call_function(model.func(DISTINCT + ".check_at_end"), [check, location], {}, None)
        outcome = None
    except AbsRaise as raised:
        outcome = raised.value
    problems = []
    if len(seen_eval) != 1:
        problems.append("end verdict evaluated the expression %d times" % len(seen_eval))
    else:
        expression, local_vars, verdict = seen_eval[0]
        if expression != "count >= 2":
            problems.append("evaluated %r instead of the check's expression" % (expression,))
        if not isinstance(local_vars, dict) or local_vars.get("count") != len(set(letters)):
            problems.append("count handed to the expression is %r, distinct values: %d" % (
                local_vars.get("count") if isinstance(local_vars, dict) else local_vars, len(set(letters))))
        if verdict == "False" and (outcome is None or exc_name(outcome) != "CheckError"):
            problems.append("expression false but the end check " + ("passed" if outcome is None else "raised " + exc_name(outcome)))
        if verdict == "True" and outcome is not None:
            problems.append("expression true but the end check raised " + exc_name(outcome))
    return ("rows=%s%s eval=%s" % ("".join(letters), " reset-before-last" if reset_before_last else "",
                                   seen_eval[0][2] if seen_eval else "-"),
            "; ".join(problems) if problems else "conforms", "conforms")


def rule_distinct_count(ctx):
    model = ctx.model
    ctx.res.minimum("O5.2", 3)
    max_rows = 4 if ctx.thorough else 3
    decide(ctx, "O5.2", "DistinctCount(rows<=%d)" % max_rows, DISTINCT + ".check_at_end", lambda ch: _distinct_cell(model, ch, max_rows), min_cells=30, key_name="DistinctCount")

    # _eval: any evaluation failure and any non-boolean result is an InterfaceError
    def eval_cell(ch):
        behaviour = ch.choose("eval", ["True", "False", "number", "raises"])

        def eval_hook(interp_, args, kwargs):
            if behaviour == "raises":
                interp_.raise_("builtins.NameError", "x")
            return {"True": True, "False": False, "number": 7}[behaviour]

        interp = Interp(model, ch, externals={"builtins.eval": eval_hook})
        # the bookkeeping starts as the check's own reset() leaves it, whatever private structure that is
        from ..tablekit import init_literal_attrs

        check = Obj(model.cls(DISTINCT), dict(init_literal_attrs(model, model.cls(DISTINCT)), _expression="count >= 2", _location=None))
        try:
            interp.call_function(model.lookup_method(model.cls(DISTINCT), "reset"), [check], {}, None)
            result = interp.call_function(model.func(DISTINCT + "._eval"), [check], {}, None)
            actual = result
        except AbsRaise as raised:
            actual = "raise " + exc_name(raised.value)
        expected = {"True": True, "False": False, "number": "raise InterfaceError", "raises": "raise InterfaceError"}[behaviour]
        return (behaviour, actual, expected)

    decide(ctx, "O5.2", "DistinctCount._eval", DISTINCT + "._eval", eval_cell, min_cells=4)

    # expression = "count" + rule after the field name (constructor, tokens stubbed with the positions of the rule text)
    import token as _token

    def init_cell(ch):
        rule, end_column, expected_expression = ch.choose("rule", [("f1 >= 2", 2, "count >= 2"), ("f0<3", 2, "count<3"), ("f1==1", 2, "count==1")])
        evaluated = []

        def eval_hook(interp_, args, kwargs):
            evaluated.append(args[0])
            return True

        @stub
        def tokens_stub(interp_, args, kwargs):
            from ..absint import AbsIter

            name = rule[:end_column]
            sequence = [(_token.NAME, name, (1, 0), (1, end_column), rule), (_token.OP, ">=", (1, 3), (1, 5), rule),
                        (_token.ENDMARKER, "", (2, 0), (2, 0), "")]
            return AbsIter(lambda index: sequence[index] if index < len(sequence) else AbsIter.STOP, "tokens")

        interp = Interp(model, ch, stubs={"cutplace._tools.generated_tokens": tokens_stub}, externals={"builtins.eval": eval_hook})
        check = Obj(model.cls(DISTINCT), {})
        try:
            interp.call_function(model.func(DISTINCT + ".__init__"), [check, "description", rule, ["f0", "f1"], World(model, interp, ch).location()], {}, None)
        except AbsRaise as raised:
            return (rule, "raise " + exc_name(raised.value), expected_expression)
        return (rule, (check.attrs.get("_field_name_to_count"), check.attrs.get("_expression")), (rule[:end_column], expected_expression))

    decide(ctx, "O5.2", "DistinctCount.__init__ expression", DISTINCT + ".__init__", init_cell, min_cells=3)


def rule_only_accepted_rows(ctx):
    ctx.res.minimum("O5.3", 1)
    protocol.validate_row_table(ctx, "O5.3", aspects=())


def check_classes(model):
    return model.subclasses(model.cls("cutplace.checks.AbstractCheck"))


def _self_attrs_written(func_node):
    """Attributes of self that are assigned or mutated (subscript store, augmented assignment, mutating call)."""
    written = set()
    for node in walk_own(func_node):
        targets = []
        if isinstance(node, ast.Assign):
            targets = node.targets
        elif isinstance(node, (ast.AugAssign, ast.AnnAssign)):
            targets = [node.target]
        elif isinstance(node, ast.Delete):
            targets = node.targets
        for target in targets:
            base = target
            while isinstance(base, ast.Subscript):
                base = base.value
            if isinstance(base, ast.Attribute) and isinstance(base.value, ast.Name) and base.value.id == "self":
                written.add(base.attr)
        if isinstance(node, ast.Call) and isinstance(node.func, ast.Attribute) and node.func.attr in (
                "append", "add", "update", "extend", "setdefault", "pop", "clear", "insert", "remove", "discard"):
            base = node.func.value
            if isinstance(base, ast.Attribute) and isinstance(base.value, ast.Name) and base.value.id == "self":
                written.add(base.attr)
    return written


def rule_reset_completeness(ctx):
    model = ctx.model
    ctx.res.minimum("O5.4", 3)
    for cls in check_classes(model):
        mutated = set()
        for name in ("check_row", "check_at_end"):
            method = cls.methods.get(name)
            if method is not None:
                mutated |= _self_attrs_written(method.node)
        reset = model.lookup_method(cls, "reset")
        restored = set()
        if reset is not None:
            for node in walk_own(reset.node):
                if isinstance(node, ast.Assign):
                    for target in node.targets:
                        if isinstance(target, ast.Attribute) and isinstance(target.value, ast.Name) and target.value.id == "self":
                            restored.add(target.attr)
        missing = sorted(mutated - restored)
        what = "%s.reset() re-initialises every attribute its check methods mutate (%s)" % (cls.name, ", ".join(sorted(mutated)) or "none")
        if missing:
            ctx.res.fail("O5.4", what, "%s:O5.4:%s" % (cls.qualname.replace("cutplace.", ""), ",".join(missing)),
                         "%s:%d (%s)" % (cls.module.relpath, cls.node.lineno, cls.name),
                         "%s mutates %s while checking but reset() does not re-initialise it: state survives into the next data set"
                         % (cls.name, ", ".join(missing)))
        else:
            ctx.res.ok("O5.4", what, True)


def rule_cleanup_keeps_bookkeeping(ctx):
    """O5.4c: cleanup() runs when ANY validator on the CID is closed - also an abandoned or forgotten one that is closed (or
    garbage collected) while a later run is under way.  It may release resources of its own, but the bookkeeping that
    check_row / check_at_end work on belongs to the run in progress: cleanup() must not write it."""
    model = ctx.model
    ctx.res.minimum("O5.4c", 3)
    for cls in check_classes(model):
        bookkeeping = set()
        for name in ("check_row", "check_at_end"):
            method = model.lookup_method(cls, name)
            if method is not None:
                bookkeeping |= _self_attrs_written(method.node)
                for helper in _self_methods_called(model, cls, method.node):
                    bookkeeping |= _self_attrs_written(helper.node)
        reset = model.lookup_method(cls, "reset")
        if reset is not None:
            bookkeeping |= _self_attrs_written(reset.node)
        cleanup = model.lookup_method(cls, "cleanup")
        written = set()
        if cleanup is not None:
            written = _self_attrs_written(cleanup.node)
            for helper in _self_methods_called(model, cls, cleanup.node):
                written |= _self_attrs_written(helper.node)
        touched = sorted(written & bookkeeping)
        what = "%s.cleanup() leaves the bookkeeping of the run in progress alone (%s)" % (cls.name, ", ".join(sorted(bookkeeping)) or "none")
        if touched:
            ctx.res.fail("O5.4c", what, "%s.cleanup:O5.4c:%s" % (cls.qualname.replace("cutplace.", ""), ",".join(touched)),
                         "%s:%d (%s.cleanup)" % (cleanup.module.relpath, cleanup.node.lineno, cls.name),
                         "%s.cleanup() writes %s: closing an earlier, abandoned validator on the same CID wipes the keys / counts of the run "
                         "that is under way" % (cls.name, ", ".join(touched)))
        else:
            ctx.res.ok("O5.4c", what, True)


def _self_methods_called(model, cls, func_node):
    found = []
    for node in walk_own(func_node):
        if isinstance(node, ast.Call) and isinstance(node.func, ast.Attribute) and isinstance(node.func.value, ast.Name) \
                and node.func.value.id == "self":
            method = model.lookup_method(cls, node.func.attr)
            if method is not None and method.name not in ("reset",):
                found.append(method)
    return found


def rule_same_data_set_only(ctx):
    """O5.5: 'an earlier row of the SAME data set' - every pass over a data set starts with reset checks (C08's histories)."""
    ctx.res.minimum("O5.5", 1)
    protocol.history_table(ctx, "O5.5", 3 if ctx.thorough else 2)


def rule_reset_restores_fresh_state(ctx):
    """O5.4 (semantic part): after any rows, reset() leaves a built-in check in exactly the state of a fresh reset."""
    model = ctx.model
    ctx.res.minimum("O5.4b", 1)
    setups = {
        IS_UNIQUE: {"_field_names_to_check": ["f0"]},
        DISTINCT: {"_field_name_to_count": "f0", "_expression": "count >= 1"},
    }

    def snapshot(check, names):
        return {name: (type(value)(value) if isinstance(value, (dict, set, list)) else value) for name, value in check.attrs.items() if name in names}

    def cell(ch):
        class_qualname = ch.choose("check", list(setups))
        rows_before = ch.choose("rows before the reset", [1, 2])
        interp = Interp(model, ch, externals={"composed_text_eq": _composed_text_eq(ch)})
        world = World(model, interp, ch)
        from ..tablekit import init_literal_attrs

        initial = dict(init_literal_attrs(model, model.cls(class_qualname)))
        initial.update(setups[class_qualname], _description="check")
        check = Obj(model.cls(class_qualname), dict(initial), label="check")
        interp.call_function(model.func(class_qualname + ".reset"), [check], {}, None)
        # the bookkeeping: whatever reset() sets up or replaces, under whatever private names
        state_names = {name for name, value in check.attrs.items() if name not in initial or value is not initial[name]} - {"_description"}
        if not state_names:
            return ("%s after %d row(s)" % (class_qualname.rsplit(".", 1)[-1], rows_before), "reset() sets up no state", "reset() sets up the bookkeeping")
        fresh = snapshot(check, state_names)
        location = world.location()
        for index in range(rows_before):
            try:
                interp.call_function(model.func(class_qualname + ".check_row"),
                                     [check, {"f0": Atom("v%d" % index, "v%d" % index)}, location], {}, None)
            except AbsRaise:
                pass
        interp.call_function(model.func(class_qualname + ".reset"), [check], {}, None)
        after = snapshot(check, state_names)
        return ("%s after %d row(s)" % (class_qualname.rsplit(".", 1)[-1], rows_before), after, fresh)

    decide(ctx, "O5.4b", "reset() restores the fresh state", IS_UNIQUE + ".reset", cell, min_cells=4)


from .common import rule_module_state  # noqa: E402

def rule_rows_are_numbered_physically(ctx):
    """O5.6: "located at the later row and referring back to the row of the first occurrence" needs the row counter of the
    reader to advance for every raw row - also after a row that was rejected and yielded or skipped (C04's cursor table)."""
    ctx.res.minimum("O5.6", 1)
    protocol.reader_rows_table(ctx, "O5.6", {"lines"}, "Reader.rows")


def rule_rejected_rows_leave_no_key(ctx):
    """
    O5.7: "rejected if and only if an earlier ACCEPTED row of the same data set has the same values": a row that an
    IsUnique check let pass but a LATER-declared check rejected was not accepted, so its key must not make a following row
    a duplicate.  validate_row is interpreted with two real IsUnique checks (on f0 and on f1) over rows of equality atoms.
    """
    from ..tablekit import decide_kinds
    from .protocol import VALIDATOR, _construct

    model = ctx.model
    ctx.res.minimum("O5.7", 1)

    def cell(ch):
        interp = Interp(model, ch, externals={"composed_text_eq": _composed_text_eq(ch)})
        world = World(model, interp, ch)
        checks = []
        for name, field in (("unique f0", "f0"), ("unique f1", "f1")):
            check = Obj(model.cls(IS_UNIQUE), {"_field_names_to_check": [field], "_description": name, "_row_key_to_location_map": None,
                                               "_location": None}, label=name)
            interp.call_function(model.func(IS_UNIQUE + ".reset"), [check], {}, None)
            checks.append(check)
        fields = [world.recording_field(0, outcomes=("ok",)), world.recording_field(1, outcomes=("ok",))]
        cid = world.cid(fields, checks, world.data_format())
        validator = _construct(interp, VALIDATOR, [cid])
        location = world.location(line=0)
        validator.attrs["_location"] = location
        world.current_location = location
        n_rows = ch.choose("rows", [2, 3])
        letters = []
        accepted_keys = ({}, {})
        problems = []
        for index in range(n_rows):
            pair = (ch.choose(("f0", index), ["a", "b"]), ch.choose(("f1", index), ["x", "y"]))
            letters.append("".join(pair))
            row = [Atom("f0@%d" % index, "f0=" + pair[0]), Atom("f1@%d" % index, "f1=" + pair[1])]
            location.attrs["_line"] = index
            try:
                interp.call_function(model.func(VALIDATOR + ".validate_row"), [validator, row], {}, None)
                outcome = "accepted"
            except AbsRaise as raised:
                outcome = "rejected (%s)" % exc_name(raised.value)
            duplicate = pair[0] in accepted_keys[0] or pair[1] in accepted_keys[1]
            if duplicate and outcome == "accepted":
                problems.append("row %d repeats a key of an accepted row but was accepted" % index)
            if not duplicate:
                if outcome != "accepted":
                    problems.append("row %d (%s) shares no key with an ACCEPTED earlier row but was %s" % (index, letters[-1], outcome))
                else:
                    accepted_keys[0][pair[0]] = index
                    accepted_keys[1][pair[1]] = index
        key = "rows=[%s]" % " ".join(letters)
        if problems:
            return (key, "a row rejected by a later check leaves its key in an earlier IsUnique check", problems[0])
        return (key, None, None)

    decide_kinds(ctx, "O5.7", "validate_row(two IsUnique checks)", VALIDATOR + ".validate_row", cell, min_cells=20)


def rule_rows_refused_by_the_row_writer(ctx):
    """O5.9: "an earlier ACCEPTED row": a row the row writer refuses after validate_row() (a character the target's
    encoding cannot represent) was not accepted, so it must not be registered by the checks (C14's table)."""
    protocol.writer_refusal_after_checks_table(ctx, "O5.9")


def rule_every_run_is_finished(ctx):
    """O5.8: "finishing the validation fails if and only if ...": every Reader / Writer the package creates is closed."""
    protocol.rule_validators_are_closed(ctx, "O5.8")


RULES = [rule_is_unique, rule_distinct_count, rule_reset_restores_fresh_state, rule_only_accepted_rows, rule_reset_completeness, rule_cleanup_keeps_bookkeeping, rule_same_data_set_only, rule_rows_are_numbered_physically, rule_rejected_rows_leave_no_key, rule_rows_refused_by_the_row_writer, rule_every_run_is_finished, rule_module_state]
