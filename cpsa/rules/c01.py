"""
C01 - range descriptions accept exactly the values they describe.

Decided here (see DESIGN.md section 4, C01):
  O1.1/O1.2  every documented ellipsis spelling is transported, through the repository's own rewriting of
             the description, to a lexeme the pinned tokenizer emits as ONE operator token
  O1.3       membership tables of Range.validate / DecimalRange.validate / Range._item_contains over all
             orderings of probe and limits (Ord domain)
  O1.4/5/7   constructor tables: Range.__init__ / DecimalRange.__init__ interpreted on every abstract token
             sequence up to a bound; resulting items and overall limits equal the reference reading of the
             documented grammar
  O1.6       limit spellings: NAME/NUMBER/STRING dispatch, base-0 integers, symbolic-name table
"""
import ast
import token as _token

from ..absint import (
    AbsIter,
    AbsRaise,
    AText,
    Interp,
    Obj,
    Opaque,
    Sym,
    Undecided,
    exc_name,
    run_call,
)
from ..model import AnalysisError, dotted, walk_own
from ..tablekit import decide, init_literal_attrs, stub, where_of

EXPLANATION = (
    "Static decision of C01 from the syntax trees of cutplace/ranges.py and _tools.py: (1) the three documented "
    "ellipsis spellings are pushed through the repository's own description rewriting (interpreted from source on "
    "these three constants) and must arrive as a lexeme in the standard library's token.EXACT_TOKEN_TYPES; (2) "
    "Range.validate, DecimalRange.validate and Range._item_contains are interpreted over order symbols for every weak "
    "ordering of probe value and item limits (1-2 items quick, 3 thorough) and compared with the oracle 'accepted iff "
    "inside some item, limits inclusive, missing limit unbounded'; (3) both constructors are interpreted on every "
    "abstract token sequence up to a length bound (token kinds NAME/NUMBER/STRING/hyphen/ellipsis/comma/other/end "
    "with symbolic values) and the resulting items and overall lower/upper limits are compared with a reference "
    "reading of the documented grammar; (4) the limit helpers are checked for base-0 integer parsing, the folded "
    "symbolic-name table and single-character strings. No cutplace code is imported or executed."
    " Added in rounds 6 and 7: (O1.6, concrete) code_for_number_token on concrete spellings: decimal and 0x-hex"
    " limits are read, digit grouping with underscores (1_0) is refused."
    " Added in round 10: (O1.3) the probe of a Decimal range has digits after the point of its own (0 or 3): a"
    " value within the limits is accepted however many digits it has."
)
TRUSTED = ["token.EXACT_TOKEN_TYPES of the pinned interpreter as the oracle for 'is one token'"]
ASSUMPTIONS = [
    "the Python tokenizer splits well-formed descriptions into NAME/NUMBER/STRING/operator tokens as documented",
    "int(text, 0) and decimal.Decimal(text) denote the number the text spells; Decimal ordering is a total order on finite values",
]

RANGE = "cutplace.ranges.Range"
DECIMAL_RANGE = "cutplace.ranges.DecimalRange"
SPELLINGS = ["...", ":", "…"]


class _Captured(Exception):
    def __init__(self, text):
        self.text = text


# ------------------------------------------------------------------------------- O1.1 / O1.2
def transported_lexemes(ctx, class_qualname):
    """{spelling: text handed to the tokenizer} obtained by interpreting the constructor up to the tokenizer call."""
    model = ctx.model
    result = {}
    for spelling in SPELLINGS:
        from ..absint import Chooser

        captured = []

        @stub
        def capture(interp, args, kwargs):
            captured.append(args[0])
            raise _Captured(args[0])

        interp = Interp(model, Chooser(), stubs={"cutplace._tools.tokenize_without_space": capture,
                                                  "cutplace._tools.generated_tokens": capture})
        cls = model.cls(class_qualname)
        init = model.lookup_method(cls, "__init__")
        try:
            interp.call_function(init, [Obj(cls), spelling], {}, None)
        except _Captured:
            pass
        except AbsRaise as raised:
            raise AnalysisError("constructor of %s raised %s before tokenizing %r" % (class_qualname, exc_name(raised.value), spelling))
        if not captured or not isinstance(captured[0], str):
            raise AnalysisError("tokenizer input of %s for %r not found" % (class_qualname, spelling))
        result[spelling] = captured[0]
    return result


def rule_spellings(ctx):
    ctx.res.minimum("O1.1", 6)
    for class_qualname in (RANGE, DECIMAL_RANGE):
        lexemes = transported_lexemes(ctx, class_qualname)
        for spelling, lexeme in lexemes.items():
            what = "%s: spelling %r reaches the tokenizer as %r" % (class_qualname.rsplit(".", 1)[-1], spelling, lexeme)
            if lexeme in _token.EXACT_TOKEN_TYPES:
                ctx.res.ok("O1.1", what, True, {"lexeme": lexeme, "token": _token.tok_name[_token.EXACT_TOKEN_TYPES[lexeme]]})
            else:
                ctx.res.fail(
                    "O1.1",
                    what,
                    "%s.__init__:O1.1:spelling %s" % (class_qualname.replace("cutplace.", ""), ascii(spelling)),
                    where_of(ctx.model, class_qualname + ".__init__"),
                    "ellipsis spelling %s is handed to the tokenizer as %s, which the pinned tokenizer does not emit as "
                    "one operator token (CPython >= 3.12 glues non-ASCII characters to neighbouring names/digits): "
                    "every range using it is rejected" % (ascii(spelling), ascii(lexeme)),
                    {"lexeme": lexeme},
                )


def _reference_tokenizable(description, spellings, token_text):
    """Reference for the rewriting before tokenizing: every ellipsis spelling OUTSIDE quoted text becomes the one-token
    spelling; quoted text (either quote kind, backslash escapes as in Python literals) is kept verbatim."""
    result = []
    position = 0
    while position < len(description):
        character = description[position]
        if character in "\"'":
            end = position + 1
            while end < len(description) and description[end] != character:
                end += 2 if description[end] == "\\" else 1
            end = min(end + 1, len(description))
            result.append(description[position:end])
            position = end
            continue
        for spelling in spellings:
            if description.startswith(spelling, position):
                result.append(token_text)
                position += len(spelling)
                break
        else:
            result.append(character)
            position += 1
    return "".join(result)


def rule_ellipsis_rewriting(ctx):
    """O1.1b: the text handed to the tokenizer - _tokenizable_description is interpreted (its regular expression is a
    constant of the module, evaluated by the interpreter's regex support) on descriptions whose quoted limits contain
    ellipsis characters, the other quote kind and ESCAPED quotes, and compared with the reference scanner."""
    model = ctx.model
    ctx.res.minimum("O1.1b", 1)
    if "cutplace.ranges._tokenizable_description" not in model.functions:
        raise AnalysisError("cutplace.ranges._tokenizable_description not found")
    interp0 = Interp(model, __import__("cpsa.absint", fromlist=["Chooser"]).Chooser())
    token_text = interp0.global_lookup(model.module("cutplace.ranges"), "_ELLIPSIS_TOKEN_TEXT")
    ellipsis = interp0.global_lookup(model.module("cutplace.ranges"), "ELLIPSIS")
    if not isinstance(token_text, str) or not isinstance(ellipsis, str):
        raise AnalysisError("ELLIPSIS / _ELLIPSIS_TOKEN_TEXT do not fold to texts")
    spellings = ["...", ellipsis]
    quoted = ['"a"', "'a'", '"."', "'...'", '"' + ellipsis + '"', '"\\""', "'\\''", '"\\\\"', '"\'"', "'\"'", '"\\x41"', '":"']
    separators = ["...", ellipsis, ":"]
    pool = []
    for left in quoted:
        for separator in separators:
            pool.append(left + separator + '"z"')
            pool.append("1" + separator + left)
            pool.append(left + ", " + '"a"' + separator + '"z"')
    pool += ["1...2", "1" + ellipsis + "2", "...5", "5...", "1...2, 4" + ellipsis + "6", "tab...'a'"]

    def cell(ch):
        description = ch.choose("description", pool)
        interp, outcome = run_call(model, ch, "cutplace.ranges._tokenizable_description", [description])
        actual = outcome[1] if outcome[0] == "return" else "raise " + exc_name(outcome[1])
        return (ascii(description), actual, _reference_tokenizable(description, spellings, token_text))

    decide(ctx, "O1.1b", "ellipsis spellings outside quoted text become one token", "cutplace.ranges._tokenizable_description", cell,
           min_cells=len(pool))


# ------------------------------------------------------------------------------- O1.3
def _membership_oracle(interp, items, probe):
    """accepted iff inside some item (limits inclusive, None = unbounded); evaluated on the same order store."""
    for lower, upper in items:
        lower_ok = lower is None or interp.order.sign(("s", lower.key()), ("s", probe.key())) <= 0
        if not lower_ok:
            continue
        upper_ok = upper is None or interp.order.sign(("s", probe.key()), ("s", upper.key())) <= 0
        if upper_ok:
            return True
    return False


def _item_shapes(ch, index):
    shape = ch.choose(("shape", index), ["closed", "open-left", "open-right"])
    lower = None if shape == "open-left" else Sym("l%d" % index)
    upper = None if shape == "open-right" else Sym("u%d" % index)
    return shape, lower, upper


def _rounded(probe):
    """A probe that went through round() / quantize() is another number: nothing relates it to the limits."""
    result = Sym("rounded(%s)" % probe.name)
    result.is_decimal = getattr(probe, "is_decimal", False)
    result.methods = getattr(probe, "methods", None)
    return result


def _round_hook(interp, args, kwargs):
    if args and isinstance(args[0], Sym):
        return _rounded(args[0])
    raise Undecided("round(%r)" % (args[0] if args else None,))


def _validate_sequence_table(ctx, qualname, class_qualname, decimal=False):
    """validate() is an observer: the verdict on a value must not depend on the values validated before on the same
    range object.  Two closed items l0<=u0<l1<=u1, two probes one after the other."""
    model = ctx.model
    cls = model.cls(class_qualname)

    def cell(ch):
        items = [(Sym("l0"), Sym("u0")), (Sym("l1"), Sym("u1"))]
        probes = [Sym("v"), Sym("w")]
        if decimal:
            for probe in probes:
                probe.is_decimal = True
                import decimal as _decimal

                # as few digits after the point as a value can have: what this table decides is the independence of calls
                probe.methods = {"is_nan": stub(lambda i, a, k: False), "is_finite": stub(lambda i, a, k: True),
                                 "as_tuple": stub(lambda i, a, k: _decimal.DecimalTuple(0, (Opaque("digit"),), 0))}
        interp = Interp(model, ch, externals={"builtins.round": _round_hook})
        for (lower, upper) in items:
            interp.order.declare(("s", lower.key()), "<=", ("s", upper.key()))
        interp.order.declare(("s", "u0"), "<", ("s", "l1"))
        attrs = init_literal_attrs(model, cls)
        attrs.update({"_items": list(items), "_precision": 0, "_scale": 0})
        self_obj = Obj(cls, attrs, label="range")
        verdicts = []
        for probe in probes:
            try:
                interp.call_function(model.func(qualname), [self_obj, "name", probe], {}, None)
                verdicts.append("accept")
            except AbsRaise as raised:
                verdicts.append("raise " + exc_name(raised.value))
        expected = ["accept" if _membership_oracle(interp, items, probe) else "raise RangeValueError" for probe in probes]
        facts = ", ".join("%s%s%s" % (a[1], rel, b[1]) for a, rel, b in interp.order.facts)
        return ("validate(v) then validate(w) order[%s]" % facts, tuple(verdicts), tuple(expected))

    decide(ctx, "O1.3", "membership is independent of earlier calls", qualname, cell, min_cells=9)


def _validate_table(ctx, qualname, class_qualname, item_counts, decimal=False, infinity=False):
    """``infinity``: also probe with +-Infinity, which is no number "written with the data format's separators" (C02) and
    must be refused like NaN; C01 itself does not decide whether an infinite value lies inside an open item."""
    model = ctx.model
    cls = model.cls(class_qualname)

    def cell(ch):
        count = ch.choose("items", item_counts)
        items = []
        shapes = []
        if count is None:
            items_value = None
        else:
            for index in range(count):
                shape, lower, upper = _item_shapes(ch, index)
                shapes.append(shape)
                items.append((lower, upper))
            items_value = list(items)
        probe = Sym("v")
        probe_digits = []
        not_a_number = False
        probe_kind = "finite"
        pending_facts = []
        if decimal:
            probe.is_decimal = True
            probe_kind = ch.choose("probe", ["finite", "NaN"] + (["Infinity"] if infinity else []))
            not_a_number = probe_kind != "finite"
            if probe_kind == "Infinity":
                # larger than every limit
                for lower, upper in items:
                    for limit in (lower, upper):
                        if limit is not None:
                            pending_facts.append((("s", "v"), ">", ("s", limit.key())))

            @stub
            def is_nan(interp_, args, kwargs):
                return probe_kind == "NaN"

            @stub
            def is_finite(interp_, args, kwargs):
                return probe_kind == "finite"

            @stub
            def is_infinite(interp_, args, kwargs):
                return probe_kind == "Infinity"

            @stub
            def as_tuple(interp_, args, kwargs):
                # a value may have more digits after the point than any limit of the range (1.5 within 1...2)
                import decimal as _decimal

                if probe_kind != "finite":
                    return _decimal.DecimalTuple(0, (), "n" if probe_kind == "NaN" else "F")
                after = ch.choose("digits after the point of the probe", [0, 3])
                probe_digits.append(after)
                return _decimal.DecimalTuple(0, (Opaque("digit"),) * (1 + after), -after)

            probe.methods = {"is_nan": is_nan, "is_finite": is_finite, "is_infinite": is_infinite, "as_tuple": as_tuple,
                             "quantize": stub(lambda i, a, k: _rounded(probe)),
                             "__round__": stub(lambda i, a, k: _rounded(probe)), "normalize": stub(lambda i, a, k: probe)}

        def setup(interp):
            for lower, upper in items:
                if lower is not None and upper is not None:
                    interp.order.declare(("s", lower.key()), "<=", ("s", upper.key()))
            for left, relation, right in pending_facts:
                interp.order.declare(left, relation, right)
            attrs = init_literal_attrs(model, cls)
            attrs.update({"_items": items_value, "_precision": 0, "_scale": 0})
            self_obj = Obj(cls, attrs, label="range")
            return [self_obj, "name", probe], {}

        interp, outcome = run_call(model, ch, qualname, None, setup=setup, externals={"builtins.round": _round_hook})
        if outcome[0] == "raise":
            actual = "raise " + exc_name(outcome[1])
        else:
            actual = "accept" if outcome[1] is None else ("return", outcome[1])
        if not_a_number:
            # a NaN is not a decimal value: it must be refused as a range error (never an internal error), C10
            expected = "raise RangeValueError"
        elif items_value is None:
            expected = "accept"
        else:
            expected = "accept" if _membership_oracle(interp, items, probe) else "raise RangeValueError"
        facts = ", ".join("%s%s%s" % (a[1], rel, b[1]) for a, rel, b in interp.order.facts)
        return ("items=%s%s%s order[%s]" % ("none" if items_value is None else "+".join(shapes), " probe=" + probe_kind if not_a_number else "",
                                            " probe digits after the point=%d" % probe_digits[0] if probe_digits else "", facts),
                actual, expected)

    decide(ctx, "O1.3", "membership", qualname, cell, min_cells=10)


def _item_contains_table(ctx):
    model = ctx.model
    qualname = RANGE + "._item_contains"
    cls = model.cls(RANGE)

    def cell(ch):
        shape, lower, upper = _item_shapes(ch, 0)
        probe = ch.choose("probe", ["none", "value"])
        value = None if probe == "none" else Sym("v")

        def setup(interp):
            if lower is not None and upper is not None:
                interp.order.declare(("s", lower.key()), "<=", ("s", upper.key()))
            return [Obj(cls, {}), (lower, upper), value], {}

        interp, outcome = run_call(model, ch, qualname, None, setup=setup)
        actual = ("raise " + exc_name(outcome[1])) if outcome[0] == "raise" else outcome[1]
        expected = False if value is None else _membership_oracle(interp, [(lower, upper)], value)
        facts = ", ".join("%s%s%s" % (a[1], rel, b[1]) for a, rel, b in interp.order.facts)
        return ("%s probe=%s order[%s]" % (shape, probe, facts), actual, expected)

    decide(ctx, "O1.3", "item-contains", qualname, cell, min_cells=8)


def items_overlap_table(ctx, rule="O1.3"):
    """Range._items_overlap(a, b) answers whether the two items have a value in common - for every shape of the two items
    and every ordering of their limits, whichever of the two is given first."""
    model = ctx.model
    qualname = RANGE + "._items_overlap"
    cls = model.cls(RANGE)

    def cell(ch):
        shape_a, lower_a, upper_a = _item_shapes(ch, 0)
        shape_b, lower_b, upper_b = _item_shapes(ch, 1)

        def setup(interp):
            for lower, upper in ((lower_a, upper_a), (lower_b, upper_b)):
                if lower is not None and upper is not None:
                    interp.order.declare(("s", lower.key()), "<=", ("s", upper.key()))
            return [Obj(cls, {}), (lower_a, upper_a), (lower_b, upper_b)], {}

        interp, outcome = run_call(model, ch, qualname, None, setup=setup)
        actual = ("raise " + exc_name(outcome[1])) if outcome[0] == "raise" else outcome[1]

        def order_sign(a, b):
            return interp.order.sign(("s", a.key()), ("s", b.key()))

        expected = _intersect((lower_a, upper_a), (lower_b, upper_b), order_sign)
        facts = ", ".join("%s%s%s" % (a[1], rel, b[1]) for a, rel, b in interp.order.facts)
        return ("%s against %s order[%s]" % (shape_a, shape_b, facts), actual, expected)

    ctx.res.minimum(rule, 1)
    decide(ctx, rule, "items-overlap", qualname, cell, min_cells=20)


def rule_membership(ctx, infinity=False):
    ctx.res.minimum("O1.3", 5)
    counts = [None, 1, 2] + ([3] if ctx.thorough else [])
    _validate_table(ctx, RANGE + ".validate", RANGE, counts)
    _validate_table(ctx, DECIMAL_RANGE + ".validate", DECIMAL_RANGE, counts, decimal=True, infinity=infinity)
    _item_contains_table(ctx)
    items_overlap_table(ctx)
    _validate_sequence_table(ctx, RANGE + ".validate", RANGE)
    _validate_sequence_table(ctx, DECIMAL_RANGE + ".validate", DECIMAL_RANGE, decimal=True)
    # SIBLING side condition: the Decimal probe is converted exactly once, through decimal.Decimal, and a
    # conversion failure becomes RangeValueError.
    info = ctx.model.func(DECIMAL_RANGE + ".validate")
    conversions = [n for n in walk_own(info.node) if isinstance(n, ast.Call) and dotted(n.func) == "decimal.Decimal"]
    if len(conversions) != 1:
        ctx.res.fail("O1.3", "DecimalRange.validate converts the probe once via decimal.Decimal",
                     "ranges.DecimalRange.validate:O1.3:conversion", where_of(ctx.model, DECIMAL_RANGE + ".validate"),
                     "expected exactly one decimal.Decimal(value) conversion, found %d" % len(conversions))
    else:
        ctx.res.ok("O1.3", "DecimalRange.validate converts a non-Decimal probe exactly once via decimal.Decimal", True)


# ------------------------------------------------------------------------------- O1.4 / O1.5 / O1.7
NAME, NUMBER, STRING, OP, END = _token.NAME, _token.NUMBER, _token.STRING, _token.OP, _token.ENDMARKER


class TokText(AText):
    """Symbolic text of a limit token."""

    def __init__(self, label):
        AText.__init__(self, AText.TEXT, label)
        self.label = label


class DescriptionText(AText):
    """The abstract description: rewriting it (str.replace, regex substitution) yields an abstract description."""

    def __init__(self, folded=False):
        AText.__init__(self, AText.TEXT, "description" + (" (characters inside quotes rewritten)" if folded else ""))
        text = self
        self.folded = folded

        @stub
        def replace(interp, args, kwargs):
            # str.replace does not know about quotes: replacing ONE character also replaces it where it is a quoted limit
            # (replace(":", ELLIPSIS) turns the limit ':' into another character); longer texts cannot be a quoted limit
            if args and isinstance(args[0], str) and len(args[0]) == 1 and len(args) > 1 and args[1] != args[0]:
                return DescriptionText(folded=True)
            return text

        @stub
        def fold(interp, args, kwargs):
            # names and (hexadecimal) numbers mean the same in any case, a quoted character does not
            return DescriptionText(folded=True)

        @stub
        def strip(interp, args, kwargs):
            return text

        self.methods = {"replace": replace, "lower": fold, "upper": fold, "casefold": fold, "swapcase": fold, "strip": strip}


def _resub_hook(interp, args, kwargs):
    text = args[-1]
    if isinstance(text, DescriptionText):
        return text
    raise Undecided("regex substitution on %r" % (text,))


def _token_alphabet(ellipsis_lexemes, decimal):
    alphabet = [("NUM", NUMBER), ("HYPHEN", OP), ("COMMA", OP), ("OTHER", OP), ("END", END)]
    for lexeme in ellipsis_lexemes:
        alphabet.append(("ELL" + lexeme, OP))
    alphabet.append(("NAME", NAME))
    alphabet.append(("STRING", STRING))
    return alphabet


_BAD = object()


def reference_parse(tokens, order_sign):
    """
    Reference reading of the documented grammar on an abstract token list (kinds with symbolic limits).
    Returns ("ok", items) | ("malformed", reason) | ("dontcare", reason).
    ``tokens``: list of (kind, symbol) ending with ("END", None).
    """
    items = []
    position = 0
    saw_empty_item = False

    def limit(pos):
        kind, symbol = tokens[pos]
        if kind in ("NAME", "STRING", "NUM"):
            return symbol, pos + 1
        if kind == "HYPHEN":
            next_kind, next_symbol = tokens[pos + 1] if pos + 1 < len(tokens) else ("END", None)
            if next_kind == "NUM":
                return Sym(next_symbol.name, not next_symbol.neg), pos + 2
            return _BAD, pos
        return None, pos

    while True:
        lower, position = limit(position)
        if lower is _BAD:
            return ("malformed", "hyphen not followed by number")
        upper = None
        has_ellipsis = False
        if tokens[position][0].startswith("ELL"):
            has_ellipsis = True
            position += 1
            upper, position = limit(position)
            if upper is _BAD:
                return ("malformed", "hyphen not followed by number")
        kind = tokens[position][0]
        if kind not in ("COMMA", "END"):
            return ("malformed", "unexpected token %s" % kind)
        if lower is None and upper is None:
            if has_ellipsis:
                return ("malformed", "lone ellipsis")
            saw_empty_item = True
        else:
            if has_ellipsis:
                if lower is not None and upper is not None and order_sign(lower, upper) > 0:
                    return ("malformed", "lower > upper")
                items.append((lower, upper))
            else:
                items.append((lower, lower))
        if kind == "END":
            break
        position += 1
    if saw_empty_item:
        return ("dontcare", "empty item is outside the documented grammar")
    # overlapping items are outside the property
    for i in range(len(items)):
        for j in range(i + 1, len(items)):
            if _intersect(items[i], items[j], order_sign):
                return ("dontcare", "overlapping items")
    return ("ok", items)


def _intersect(a, b, order_sign):
    (al, au), (bl, bu) = a, b
    # intervals intersect iff al <= bu and bl <= au (None = unbounded)
    first = al is None or bu is None or order_sign(al, bu) <= 0
    second = bl is None or au is None or order_sign(bl, au) <= 0
    return first and second


def _limit_oracle(items, order_sign, lower_side):
    index = 0 if lower_side else 1
    values = [item[index] for item in items]
    if any(value is None for value in values):
        return None
    best = values[0]
    for value in values[1:]:
        sign = order_sign(value, best)
        if (lower_side and sign < 0) or (not lower_side and sign > 0):
            best = value
    return best


def _same_symbol(interp, a, b):
    if a is None or b is None:
        return a is None and b is None
    if isinstance(a, Sym) and isinstance(b, Sym):
        return a.key() == b.key() or interp.order.sign(("s", a.key()), ("s", b.key())) == 0
    return False


# digits before and after the point of the n-th number of a description (constructor tables with digits=True): the
# most digits before the point, the most digits after it and the last number are three different numbers
DIGIT_SHAPES = [(2, 1), (4, 0), (1, 3), (3, 2), (1, 0), (2, 2), (1, 1)]


def _digit_shape(symbol):
    index = int("".join(c for c in symbol.name if c.isdigit()) or 1) - 1
    return DIGIT_SHAPES[index % len(DIGIT_SHAPES)]


def constructor_table(ctx, rule, class_qualname, max_tokens, mode="wellformed", result_rule=None, digits=False):
    """
    mode "wellformed": compare accepted items / limits on well-formed, non-overlapping sequences (C01).
    mode "errors": every sequence must end in acceptance or InterfaceError (C10).
    mode "refusal": malformed sequences (and sequences without any item) must end in InterfaceError (C09, C03).
    """
    model = ctx.model
    decimal = class_qualname == DECIMAL_RANGE
    lexemes = sorted(set(transported_lexemes(ctx, class_qualname).values()))
    exact = [lexeme for lexeme in lexemes if lexeme in _token.EXACT_TOKEN_TYPES]
    if not exact:
        # nothing the tokenizer can deliver reaches the ellipsis action: O1.1 reports it; use the raw lexemes so
        # that the rest of the constructor is still decided.
        exact = lexemes
    alphabet = _token_alphabet(exact, decimal)
    cls = model.cls(class_qualname)
    qualname = class_qualname + ".__init__"
    init = model.lookup_method(cls, "__init__")

    def cell(ch):
        produced = []
        counter = [0]

        def produce(index):
            if produced and produced[-1][0] == "END":
                return AbsIter.STOP
            options = alphabet if len(produced) < max_tokens else [a for a in alphabet if a[0] == "END"]
            kind, type_code = ch.choose(("token", index), options)
            symbol = None
            if kind in ("NUM", "NAME", "STRING"):
                counter[0] += 1
                symbol = Sym("%s%d" % (kind[0].lower(), counter[0]))
                if decimal:
                    symbol.is_decimal = True
                text = TokText(symbol.name)
                text.symbol = symbol
                if kind == "STRING" and folded[0]:
                    # the description was case-folded or rewritten regardless of quotes before it was read: the quoted character is another one
                    text.symbol = Sym("rewritten(%s)" % symbol.name)
            elif kind == "HYPHEN":
                text = "-"
            elif kind == "COMMA":
                text = ","
            elif kind == "OTHER":
                text = "+"
            elif kind == "END":
                text = ""
            else:
                text = kind[3:]
            produced.append((kind, symbol))
            return (type_code, text, (1, index), (1, index + 1), "")

        folded = [False]

        @stub
        def tokens_stub(interp, args, kwargs):
            folded[0] = bool(args and isinstance(args[0], DescriptionText) and args[0].folded)
            return AbsIter(produce, "tokens")

        def limit_stub(expected_kind):
            @stub
            def handler(interp, args, kwargs):
                value = args[1]
                if not isinstance(value, TokText):
                    raise Undecided("limit helper called with %r" % (value,))
                interp.event("limit", expected_kind, value.label)
                return value.symbol

            return handler

        def decimal_hook(interp, args, kwargs):
            value = args[0]
            if isinstance(value, TokText):
                symbol = value.symbol
                clone = Sym(symbol.name, symbol.neg)
                clone.is_decimal = True
                clone.methods = _decimal_methods(clone)
                return clone
            raise Undecided("decimal.Decimal(%r)" % (value,))

        stubs = {
            # texts of limits for messages: not part of the decision (their escapes are C10's)
            "cutplace.ranges._decimal_as_text": stub(lambda interp_, args_, kwargs_: Opaque("str", True, ["<decimal text>"])),
            "cutplace._tools.tokenize_without_space": tokens_stub,
            "cutplace.ranges.code_for_number_token": limit_stub("NUM"),
            "cutplace.ranges.code_for_symbolic_token": limit_stub("NAME"),
            "cutplace.ranges.code_for_string_token": limit_stub("STRING"),
        }
        interp = Interp(model, ch, stubs=stubs, externals={"decimal.Decimal": decimal_hook, "re.sub": _resub_hook})
        self_obj = Obj(cls, {}, label="range")
        try:
            interp.call_function(init, [self_obj, DescriptionText()], {}, None)
            outcome = "accept"
        except AbsRaise as raised:
            outcome = "raise " + exc_name(raised.value)
        tokens = list(produced)
        if not tokens or tokens[-1][0] != "END":
            # the constructor stopped reading before the end of the description
            tokens_for_oracle = tokens + [("END", None)]
            read_all = False
        else:
            tokens_for_oracle = tokens
            read_all = True

        def order_sign(a, b):
            return interp.order.sign(("s", a.key()), ("s", b.key()))

        if decimal and any(kind in ("NAME", "STRING") for kind, _ in tokens_for_oracle):
            verdict = ("malformed", "decimal ranges take numbers only")
        else:
            verdict = reference_parse(tokens_for_oracle, order_sign)
        sequence = " ".join(kind for kind, _ in tokens)
        if not read_all and outcome == "accept":
            return (sequence, "accepted without reading the whole description", "reads every token")
        if mode == "errors":
            # C10: whatever the description, the constructor accepts it or raises InterfaceError - nothing else
            actual = outcome if outcome not in ("accept", "raise InterfaceError") else "accept-or-InterfaceError"
            return (sequence, actual, "accept-or-InterfaceError")
        if mode == "refusal":
            # C09 "a well-formed length and rule": a description that is no list of items of at most two limits around
            # one ellipsis, or that holds no item at all, is refused - not silently read as something else
            no_item = verdict[0] == "dontcare" and verdict[1].startswith("empty item") and not any(
                kind in ("NUM", "NAME", "STRING") for kind, _ in tokens_for_oracle)
            if verdict[0] == "malformed" or no_item:
                if outcome == "raise InterfaceError":
                    return (sequence, None, None)
                reason = "no item at all" if no_item else verdict[1]
                return (sequence, "%s is not refused: %s" % (reason, "accepted" if outcome == "accept" else outcome), sequence)
            return None
        # mode wellformed
        if verdict[0] != "ok":
            return None
        if not read_all:
            # an error was raised before the end: complete the verdict over the tokens seen so far is not
            # meaningful; the remaining tokens were never chosen, so this prefix is also explored completed.
            return None
        if outcome != "accept":
            return (sequence, outcome, "accept")
        expected_items = verdict[1]
        actual_items = self_obj.attrs.get("_items")
        same = isinstance(actual_items, list) and len(actual_items) == len(expected_items)
        if same:
            for actual_item, expected_item in zip(actual_items, expected_items):
                if not (isinstance(actual_item, tuple) and len(actual_item) == 2
                        and _same_symbol(interp, actual_item[0], expected_item[0])
                        and _same_symbol(interp, actual_item[1], expected_item[1])):
                    same = False
        facts = ", ".join("%s%s%s" % (a[1], rel, b[1]) for a, rel, b in interp.order.facts)
        key = "%s order[%s]" % (sequence, facts)
        if not same:
            return (key, ("items", _show_items(actual_items)), ("items", _show_items(expected_items)))
        if not expected_items:
            return (key, "accept", "accept")
        expected_lower = _limit_oracle(expected_items, order_sign, True)
        expected_upper = _limit_oracle(expected_items, order_sign, False)
        actual_lower = self_obj.attrs.get("_lower_limit", "missing")
        actual_upper = self_obj.attrs.get("_upper_limit", "missing")
        limits_ok = _same_symbol(interp, actual_lower, expected_lower) and _same_symbol(interp, actual_upper, expected_upper)
        if not limits_ok:
            return (key, ("limits", _show(actual_lower), _show(actual_upper)), ("limits", _show(expected_lower), _show(expected_upper)))
        if digits and decimal:
            # C19: total digits and digits after the point are those of ALL numbers of the rule
            shapes = [_digit_shape(symbol) for kind, symbol in tokens if kind == "NUM"]
            after = max(shape[1] for shape in shapes)
            expected_digits = ("digits", max(shape[0] for shape in shapes) + after, after)
            actual_digits = ("digits", self_obj.attrs.get("_scale", "missing"), self_obj.attrs.get("_precision", "missing"))
            return (key + " shapes%s" % shapes, actual_digits, expected_digits)
        return (key, "ok", "ok")

    if mode == "refusal":
        from ..tablekit import decide_kinds

        return decide_kinds(ctx, rule, "constructor(<=%d tokens,%s)" % (max_tokens, mode), qualname, cell, min_cells=20,
                            key_name="constructor(%s)" % mode)
    return decide(ctx, rule, "constructor(<=%d tokens,%s)" % (max_tokens, mode), qualname, cell, min_cells=20,
                  key_name="constructor(%s)" % mode)


def _decimal_methods(symbol):
    @stub
    def as_tuple(interp, args, kwargs):
        # digits/exponent only feed precision and scale (C19 compares them, see DIGIT_SHAPES)
        before, after = _digit_shape(symbol)
        import decimal as _decimal

        return _decimal.DecimalTuple(0, (Opaque("digit"),) * (before + after), -after)

    @stub
    def copy_negate(interp, args, kwargs):
        clone = Sym(symbol.name, not symbol.neg)
        clone.is_decimal = True
        clone.methods = _decimal_methods(clone)
        return clone

    return {"as_tuple": as_tuple, "copy_negate": copy_negate}


def _show(value):
    if isinstance(value, Sym):
        return value.key()
    return repr(value)


def _show_items(items):
    if not isinstance(items, list):
        return repr(items)
    return "[" + ", ".join("(%s, %s)" % (_show(a), _show(b)) if isinstance(item, tuple) and len(item) == 2 else repr(item)
                           for item in items for a, b in [item if isinstance(item, tuple) and len(item) == 2 else (item, item)]) + "]"


def rule_constructors(ctx):
    ctx.res.minimum("O1.5", 2)
    bound = 7 if ctx.thorough else 5
    constructor_table(ctx, "O1.5", RANGE, bound)
    constructor_table(ctx, "O1.5", DECIMAL_RANGE, bound)


# ------------------------------------------------------------------------------- O1.6
def rule_limit_spellings(ctx):
    model = ctx.model
    ctx.res.minimum("O1.6", 6)
    from ..absint import Chooser

    interp = Interp(model, Chooser())
    # symbolic names: folded table equals the ASCII codes of the named controls
    table = interp.global_lookup(model.module("cutplace.errors"), "NAME_TO_ASCII_CODE_MAP")
    expected = {"cr": 13, "ff": 12, "lf": 10, "tab": 9, "vt": 11}
    where = "cutplace/errors.py (NAME_TO_ASCII_CODE_MAP)"
    if table == expected:
        ctx.res.ok("O1.6", "symbolic-name table folds to cr/ff/lf/tab/vt with their ASCII codes", True, {"table": table})
    else:
        ctx.res.fail("O1.6", "symbolic-name table", "errors.NAME_TO_ASCII_CODE_MAP:O1.6:table", where,
                     "symbolic names fold to %r, documented: %r" % (table, expected))

    # code_for_number_token: int(value, 0) with folded base 0, ValueError -> InterfaceError
    info = model.func("cutplace.ranges.code_for_number_token")
    int_calls = [n for n in walk_own(info.node) if isinstance(n, ast.Call) and dotted(n.func) == "int"]
    ok = len(int_calls) == 1 and len(int_calls[0].args) == 2 and isinstance(int_calls[0].args[1], ast.Constant) \
        and int_calls[0].args[1].value == 0 and isinstance(int_calls[0].args[0], ast.Name) \
        and int_calls[0].args[0].id == info.node.args.args[1].arg
    if ok:
        ctx.res.ok("O1.6", "code_for_number_token parses its text with int(text, 0) (decimal and 0x-hex)", True)
    else:
        ctx.res.fail("O1.6", "number limits use int(text, 0)", "ranges.code_for_number_token:O1.6:base0",
                     where_of(model, info.qualname), "number limits are not parsed by a single int(<text>, 0) call")

    # decision tables of the three helpers over stubbed library outcomes
    def number_cell(ch):
        outcome_choice = ch.choose("int()", ["value", "ValueError"])
        result_symbol = Sym("n")

        def int_hook(interp, args, kwargs):
            if not (len(args) == 2 and args[1] == 0 and isinstance(args[0], AText)):
                raise Undecided("int called with %r" % (args,))
            if outcome_choice == "ValueError":
                interp.raise_("builtins.ValueError", "invalid literal")
            return result_symbol

        number_text = AText(AText.TEXT, "number")
        asked = {}

        def contains_hook(interp, args, kwargs):
            # "decimal or 0x-hex integers": the text may be asked for an underscore (digit grouping of Python source)
            container, item = args
            if container is number_text and item == "_":
                if "underscore" not in asked:
                    asked["underscore"] = ch.choose("text contains an underscore", [False, True])
                return asked["underscore"]
            raise Undecided("membership test %r in %r" % (item, container))

        interp, outcome = run_call(model, ch, info.qualname, ["name", number_text, None], externals={"int": int_hook, "contains": contains_hook})
        actual = ("raise " + exc_name(outcome[1])) if outcome[0] == "raise" else ("value" if outcome[1] is result_symbol else repr(outcome[1]))
        if asked.get("underscore"):
            return (outcome_choice + ", text with an underscore", actual, "raise InterfaceError")
        return (outcome_choice, actual, "value" if outcome_choice == "value" else "raise InterfaceError")

    decide(ctx, "O1.6", "number-limit", info.qualname, number_cell, min_cells=2)

    # concrete spellings: "limits written as decimal or 0x-hex integers" - not with the digit grouping of Python source
    def concrete_number_cell(ch):
        text, value = ch.choose("limit text", [("10", 10), ("0x1f", 31), ("0X1F", 31), ("007", None), ("1_0", None), ("0x1_0", None), ("1__0", None)])
        interp, outcome = run_call(model, ch, info.qualname, ["name", text, None])
        actual = ("raise " + exc_name(outcome[1])) if outcome[0] == "raise" else outcome[1]
        if text == "007":
            return None  # int('007', 0) is refused by Python although int('007') is not; either reading is a decimal integer
        return (text, actual, value if value is not None else "raise InterfaceError")

    decide(ctx, "O1.6", "number-limit (concrete spellings)", info.qualname, concrete_number_cell, min_cells=6)

    symbolic = model.func("cutplace.ranges.code_for_symbolic_token")

    def symbolic_cell(ch):
        name = ch.choose("name", ["tab", "TAB", "Lf", "vt", "cr", "ff", "unknown"])
        interp, outcome = run_call(model, ch, symbolic.qualname, ["name", name, None])
        actual = ("raise " + exc_name(outcome[1])) if outcome[0] == "raise" else outcome[1]
        expected_value = expected.get(name.lower())
        return (name, actual, expected_value if expected_value is not None else "raise InterfaceError")

    decide(ctx, "O1.6", "symbolic-limit(case-insensitive look-up in the folded table)", symbolic.qualname, symbolic_cell, min_cells=7)

    string_info = model.func("cutplace.ranges.code_for_string_token")

    def string_cell(ch):
        # the body between the quotes is abstract: its length class and the length after un-escaping are chosen
        body_length = ch.choose("len(body)", ["one", "other"])
        unescaped_length = ch.choose("len(unescaped)", ["one", "other"])
        body = AText(AText.TEXT, "body")
        unescaped = AText(AText.TEXT, "unescaped")
        code_of_body, code_of_unescaped = Sym("code(body)"), Sym("code(unescaped)")
        quoted = AText(AText.TEXT, "quoted")
        # the text between the quotes may itself begin or end with (an escaped) quote character, so removing "all
        # quote characters at both ends" is a different text than removing exactly the first and last character
        overstripped = AText(AText.TEXT, "quoted.strip(quote)")
        overstripped.methods = {"encode": stub(lambda i, a, k: (_ for _ in ()).throw(Undecided("over-stripped text used")))}

        @stub
        def strip_method(interp, args, kwargs):
            return overstripped

        quoted.methods = {"strip": strip_method, "lstrip": strip_method, "rstrip": strip_method}

        def text_subscript(interp, args, kwargs):
            text, index = args
            if text is quoted and index in (0, -1):
                return '"'
            if text is quoted and isinstance(index, slice) and (index.start, index.stop, index.step) == (1, -1, None):
                return body
            raise Undecided("subscript %r of %r" % (index, text))

        def text_len(interp, args, kwargs):
            (text,) = args
            if text is quoted:
                return 3
            if text is body:
                return 1 if body_length == "one" else 2
            if text is unescaped:
                return 1 if unescaped_length == "one" else 2
            if text is overstripped:
                return 1
            raise Undecided("len of %r" % (text,))

        @stub
        def encode(interp, args, kwargs):
            if args != ["utf-8"]:
                raise Undecided("encode(%r)" % (args,))
            encoded = Opaque("bytes")

            @stub
            def decode(interp2, args2, kwargs2):
                if args2 != ["unicode_escape"]:
                    raise Undecided("decode(%r)" % (args2,))
                return unescaped

            encoded.methods = {"decode": decode}
            return encoded

        body.methods = {"encode": encode}

        code_of_overstripped = Sym("code(text with all edge quotes removed)")

        def ord_hook(interp, args, kwargs):
            if args[0] is body and body_length == "one":
                return code_of_body
            if args[0] is unescaped and unescaped_length == "one":
                return code_of_unescaped
            if args[0] is overstripped:
                return code_of_overstripped
            raise Undecided("ord(%r)" % (args[0],))

        interp, outcome = run_call(
            model, ch, string_info.qualname, ["name", quoted, None],
            externals={"text_subscript": text_subscript, "text_len": text_len, "ord": ord_hook, "in_str": lambda i, a, k: True},
        )
        if outcome[0] == "raise":
            actual = "raise " + exc_name(outcome[1])
        else:
            actual = {id(code_of_body): "code of the character", id(code_of_unescaped): "code of the un-escaped text",
                      id(code_of_overstripped): "code of the text with ALL quote characters at its ends removed"}.get(id(outcome[1]), repr(outcome[1]))
        # one character between the quotes denotes itself (un-escaping a non-ASCII character through Latin-1 would
        # change it); longer text is un-escaped first and must then be one character
        if body_length == "one":
            expected = "code of the character"
        elif unescaped_length == "one":
            expected = "code of the un-escaped text"
        else:
            expected = "raise InterfaceError"
        return ("body=%s unescaped=%s" % (body_length, unescaped_length), actual, expected)

    decide(ctx, "O1.6", "string-limit(one character, escapes un-escaped first)", string_info.qualname, string_cell, min_cells=4)

    # token-kind dispatch of Range.__init__: which helper receives which token kind (events of the constructor table)
    _dispatch_rule(ctx)


def _dispatch_rule(ctx):
    """NAME -> symbolic, NUMBER -> number (+ sign), STRING -> string: checked on one-token descriptions."""
    model = ctx.model
    cls = model.cls(RANGE)
    init = model.lookup_method(cls, "__init__")
    from ..absint import Chooser

    wrong = []
    for kind, type_code, expected_helper in (("NAME", NAME, "NAME"), ("NUM", NUMBER, "NUM"), ("STRING", STRING, "STRING")):
        sequence = [(type_code, kind), (END, "END")]
        position = [0]
        text = TokText("t")
        text.symbol = Sym("t")

        def produce(index, sequence=sequence, text=text):
            if index >= len(sequence):
                return AbsIter.STOP
            type_code_, kind_ = sequence[index]
            return (type_code_, text if kind_ != "END" else "", (1, 0), (1, 1), "")

        seen = []

        def limit_stub(helper_kind, seen=seen):
            @stub
            def handler(interp, args, kwargs):
                seen.append(helper_kind)
                return args[1].symbol

            return handler

        @stub
        def tokens_stub(interp, args, kwargs, produce=produce):
            return AbsIter(produce, "tokens")

        interp = Interp(model, Chooser(), externals={"re.sub": _resub_hook}, stubs={
            "cutplace._tools.tokenize_without_space": tokens_stub,
            "cutplace.ranges.code_for_number_token": limit_stub("NUM"),
            "cutplace.ranges.code_for_symbolic_token": limit_stub("NAME"),
            "cutplace.ranges.code_for_string_token": limit_stub("STRING"),
        })
        try:
            interp.call_function(init, [Obj(cls, {}), DescriptionText()], {}, None)
        except AbsRaise as raised:
            seen.append("raise " + exc_name(raised.value))
        if seen != [expected_helper]:
            wrong.append((kind, seen))
    if wrong:
        ctx.res.fail("O1.6", "token kinds reach their limit helper", "ranges.Range.__init__:O1.6:dispatch",
                     where_of(model, RANGE + ".__init__"), "token kind dispatch is %r" % (wrong,))
    else:
        ctx.res.ok("O1.6", "Range.__init__ sends NAME/NUMBER/STRING tokens to the symbolic/number/string helper", True)


from .common import rule_module_state  # noqa: E402

RULES = [rule_spellings, rule_ellipsis_rewriting, rule_membership, rule_constructors, rule_limit_spellings, rule_module_state]
