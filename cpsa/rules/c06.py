"""
C06 - error-handling modes agree with each other and account for every row.
"""
from . import protocol
from .c04 import rule_location_copies

EXPLANATION = (
    "Static decision of C06: Reader.rows and validio.rows are interpreted from source for 0..3 raw rows x every "
    "header/limit ordering x the three modes x every outcome of validate_row x a container fault injected at every "
    "row boundary. Per run the oracle requires: an accepted data row is returned as the same object and counted as "
    "accepted; a rejected row is counted as rejected and produces its own error object in 'yield', nothing in "
    "'continue', and is re-raised (same object, no counter touched) in 'raise'; the counters add up to the number of "
    "data rows after a complete pass; a DataFormatError raised by the raw-row source stops reading in every mode "
    "(it is never counted, yielded or swallowed). Errors keep copies of the cursor (O6.4), so a yielded error keeps "
    "its own location after iteration moved on. The relational statement 'modes differ only in presentation' follows "
    "because all three modes are compared against the same per-row oracle."
)
ASSUMPTIONS = ["csv / xlrd / ElementTree detect malformed containers (not decided here); which exceptions the raw readers convert is C10's escape analysis"]


def rule_modes(ctx):
    ctx.res.minimum("O6.1", 2)
    protocol.reader_rows_table(ctx, "O6.1", {"modes", "faults", "window"}, "Reader.rows")
    protocol.reader_rows_table(ctx, "O6.1", {"modes", "faults", "window"}, "rows()")


def rule_copies(ctx):
    rule_location_copies(ctx)
    ctx.res.rule_instances["O6.4"] = ctx.res.rule_instances.get("O4.3", 0)


RULES = [rule_modes, rule_copies]
