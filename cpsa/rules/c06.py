"""
C06 - error-handling modes agree with each other and account for every row.
"""
from . import protocol
from .c04 import rule_location_copies

EXPLANATION = (
    "Static decision of C06: Reader.rows and validio.rows are interpreted from source for 0..3 raw rows x every "
    "header/limit ordering x the three modes x every outcome of validate_row x a container fault injected at every "
    "row boundary. Per run the oracle requires: an accepted data row is returned as the same object and counted as "
    "accepted; a rejected row is counted as rejected and produces its own error object in 'yield', nothing in "
    "'continue', and is re-raised (same object, no counter touched) in 'raise'; every row - also one after a rejected row - "
    "is validated with the cursor on its own line, so the error of row k is the same in every mode; the counters add up to the number of "
    "data rows after a complete pass; a DataFormatError raised by the raw-row source stops reading in every mode "
    "(it is never counted, yielded or swallowed). Errors keep copies of the cursor (O6.4), so a yielded error keeps "
    "its own location after iteration moved on. The relational statement 'modes differ only in presentation' follows "
    "because all three modes are compared against the same per-row oracle."
    " Added in rounds 6 and 7: The Reader.rows table also compares the cursor line of every validated row, so the"
    " error of row k is the same in every mode. (O6.5) an ODS file that is empty, no archive, lacks content.xml or"
    " holds malformed XML ends in DataFormatError before any row (C15's table)."
    " Added in round 10: (O6.6) validate_row raises nothing but data errors - another exception is neither"
    " collected by 'yield' nor skipped by 'continue'."
)
ASSUMPTIONS = ["csv / xlrd / ElementTree detect malformed containers (not decided here); which exceptions the raw readers convert is C10's escape analysis"]


def rule_modes(ctx):
    ctx.res.minimum("O6.1", 2)
    protocol.reader_rows_table(ctx, "O6.1", {"modes", "faults", "lines"}, "Reader.rows")
    protocol.reader_rows_table(ctx, "O6.1", {"modes", "faults"}, "rows()")


def rule_modes_on_a_shared_cid(ctx):
    """O6.7 (round 11): "for the same CID and data" - readers of different modes created on one CID object (also up
    front, before any of them reads) each start from reset checks; otherwise the second mode sees the first one's
    uniqueness bookkeeping and the modes disagree (C08's history table)."""
    ctx.res.minimum("O6.7", 1)
    protocol.history_table(ctx, "O6.7", 2, overlapping=False)


def rule_copies(ctx):
    rule_location_copies(ctx)
    ctx.res.rule_instances["O6.4"] = ctx.res.rule_instances.get("O4.3", 0)


def rule_raw_reader_escapes(ctx):
    """O6.3: whatever is wrong with the container, a raw reader raises DataFormatError (or OSError for the file itself)."""
    from .c10 import DATA_FORMAT, OSERROR, _chain_text, analysis, text_encoding_guard

    model = ctx.model
    escape, _ = analysis(model)
    ctx.res.minimum("O6.3", 4)
    for reader in ("cutplace.rowio.delimited_rows", "cutplace.rowio.fixed_rows", "cutplace.rowio.ods_rows", "cutplace.rowio.excel_rows"):
        info = model.func(reader)
        guarded = text_encoding_guard(model)  # set_property refuses encodings that are no text encodings (C10)
        bad = [item for item in escape.escapes(reader)
               if not (escape.lattice.is_subclass(item.cls, DATA_FORMAT) or escape.lattice.is_subclass(item.cls, OSERROR))
               and not (guarded and item.cls == "builtins.LookupError" and item.origin[2].startswith(("io.open(", "open(")))]
        what = "%s raises nothing but DataFormatError / OSError" % reader.replace("cutplace.", "")
        if not bad:
            ctx.res.ok("O6.3", what, True, {"escaping": sorted({item.cls for item in escape.escapes(reader)})})
        for item in bad:
            ctx.res.fail("O6.3", what, "%s:O6.3:%s:%s" % (item.origin[0].replace("cutplace.", ""), item.cls, " ".join(item.origin[2].split())[:80]),
                         "%s:%d (%s)" % (info.module.relpath, item.origin[1], item.origin[0].replace("cutplace.", "")),
                         "%s raised at %s leaves %s: a malformed container does not stop reading with a data-format error; chain: %s"
                         % (item.cls.replace("builtins.", ""), item.origin[2], reader.replace("cutplace.", ""), _chain_text(item)))


def rule_rejected_rows_are_data_errors(ctx):
    """O6.6: "one data error per rejected row": whatever a cell holds, validate_row ends in acceptance or in a DataError - an
    exception of another kind (decimal.InvalidOperation for NaN, ...) is not collected by 'yield', not skipped by 'continue',
    and ends the pass with the counters short.  The hooks of the abstract bases raise NotImplementedError; the maps types
    are resolved through never hold the bases (O20.2)."""
    from .c10 import _chain_text, analysis

    model = ctx.model
    escape, _ = analysis(model)
    ctx.res.minimum("O6.6", 1)
    entry = "cutplace.validio.BaseValidator.validate_row"
    info = model.func(entry)
    items = escape.escapes(entry)
    bad = [item for item in items if not escape.lattice.is_subclass(item.cls, "cutplace.errors.DataError")
           and not (item.cls == "builtins.NotImplementedError" and ".Abstract" in item.origin[0])]
    what = "validate_row raises nothing but data errors"
    if len(items) < 10:
        raise AnalysisError("only %d raise sites reach validate_row (expected the field formats' and checks')" % len(items))
    if not bad:
        ctx.res.ok("O6.6", what, True, {"raise sites": len(items), "classes": sorted({item.cls for item in items})})
    for item in bad:
        ctx.res.fail("O6.6", what, "%s:O6.6:%s:%s" % (item.origin[0].replace("cutplace.", ""), item.cls, " ".join(item.origin[2].split())[:80]),
                     "%s:%d (%s)" % (info.module.relpath, item.origin[1], item.origin[0].replace("cutplace.", "")),
                     "%s raised at %s leaves validate_row: the row is neither accepted nor reported as a data error in any mode; chain: %s"
                     % (item.cls.replace("builtins.", ""), item.origin[2], _chain_text(item)))


def rule_csv_fault_conversion(ctx):
    from .c10 import rule_delimited_error_helper

    rule_delimited_error_helper(ctx)
    ctx.res.rule_instances["O6.3b"] = ctx.res.rule_instances.get("O10.csv-error", 0)


def rule_strict_csv_reader(ctx):
    """O6.3c: malformed quoting can only be reported if the csv reader is strict - for every delimited configuration."""
    from ..absint import AbsRaise, exc_name
    from ..tablekit import decide
    from .c11 import ESCAPE_VALUES, QUOTE_VALUES
    from .c12 import _run_reader_writer

    ctx.res.minimum("O6.3c", 1)

    def cell(ch):
        attributes = {
            "_item_delimiter": ch.choose("item", [",", ";"]),
            "_quote_character": ch.choose("quote", QUOTE_VALUES),
            "_escape_character": ch.choose("escape", ESCAPE_VALUES),
            "_quoting": ch.choose("quoting", [0, 1]),
            "_skip_initial_space": ch.choose("skip", [False, True]),
            "_line_delimiter": "any",
        }
        key = " ".join("%s=%r" % (k[1:], v) for k, v in sorted(attributes.items()))
        try:
            seen, _ = _run_reader_writer(ctx.model, ch, attributes)
        except AbsRaise as raised:
            return (key, "raise " + exc_name(raised.value), "strict reader")
        keywords = dict(seen["reader"][1]) if "reader" in seen else {}
        return (key, "strict reader" if keywords.get("strict") is True else "csv.reader(strict=%r): an unterminated quote swallows the rest of the data" % (keywords.get("strict"),),
                "strict reader")

    decide(ctx, "O6.3c", "csv.reader is strict", "cutplace.rowio._as_delimited_keywords", cell, min_cells=20)


from .common import rule_module_state  # noqa: E402


def rule_fixed_reader_reports_malformed_streams(ctx):
    """O13.6 (shared with C13): the fixed-width reader is cutplace's own code; that a stream which is not a sequence of
    full-width records is reported with DataFormatError - in particular a record cut short at the end of the data - is
    C13's table and an obligation of C06's "broken data stops reading in every mode"."""
    from .c13 import rule_fixed_rows

    rule_fixed_rows(ctx)


def rule_ods_container_faults(ctx):
    """O6.5: an ODS file that is empty, no archive, lacks content.xml or holds malformed XML stops reading with a
    data-format error and delivers no row (C15's table); the mode plays no part because the raw reader fails."""
    from .c15 import rule_container_faults

    rule_container_faults(ctx, "O6.5")


RULES = [rule_rejected_rows_are_data_errors, rule_modes, rule_modes_on_a_shared_cid, rule_copies, rule_raw_reader_escapes, rule_csv_fault_conversion, rule_strict_csv_reader, rule_fixed_reader_reports_malformed_streams, rule_ods_container_faults, rule_module_state]
