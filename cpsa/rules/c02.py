"""
C02 - each field type accepts exactly the values its rule describes.
"""
import ast
import token as _token

from ..absint import AbsIter, AbsRaise, AText, Atom, Chooser, ClassRef, Interp, Obj, Opaque, ReObj, Sym, Undecided, exc_name
from ..model import dotted, walk_own
from ..tablekit import decide, decide_kinds, stub, where_of
from ..world import World

EXPLANATION = (
    "Static decision of the per-type decision structure of C02 (library calls trusted): (O2.1) IntegerFieldFormat.__init__ "
    "is interpreted for length x rule x fixed?: the valid range is the rule's range, else the range derived from the "
    "length, else the folded 32-bit default; (O2.2) Integer cells go through int() and the valid range, failures become "
    "FieldValueError and the int is returned; (O2.3) the Decimal separator translation is interpreted on every string up "
    "to length 4 (5 thorough) over the character classes {decimal separator, thousands separator, digit} for three "
    "separator conventions against the statement (one decimal separator -> '.', thousands separators only before it and "
    "dropped, everything else copied; then Decimal and the valid range); (O2.4) Choice/Constant compare the cell "
    "unchanged (no case folding) with the listed values; (O2.5) the DateTime layout table is order-safe and maps "
    "DD/MM/YYYY/YY/hh/mm/ss as documented, the rewritten layout reaches time.strptime, the Excel ' 00:00:00' suffix is "
    "removed only for date-only rules of Excel data; (O2.6) RegEx/Pattern compile with IGNORECASE and use match (from "
    "the first character), Pattern through fnmatch.translate (whole value); (O2.7) accepted cells are returned in "
    "their native type; (O2.8) ranges.create_range_from_length is interpreted on region representatives of "
    "(lower, upper) length - its repetition counts are affine in the lengths, two points per region pin them - against "
    "'all integers whose text has between lower and upper characters'; (O2.9) Choice and Constant rule automata on "
    "every abstract token sequence up to a bound."
    " Added in rounds 6 and 7: (O2.1) a length that is open on one side still selects the range derived from the"
    " length. (O2.9) the text of a rule token: a quoted token loses exactly its two enclosing quotes. (O2.10) the"
    " Integer / Decimal value hooks on concrete cells through the real int() / Decimal(): digit grouping with"
    " underscores is no number in data."
    " Added in rounds 8 and 9: (O2.5) adjacent place holders of a DateTime layout are translated in one pass."
    " (O2.8, second clause) an integer has a text of n characters as soon as its shortest text has at most n: the"
    " length-derived range must not exclude zero-padded numbers (known finding). (O2.11) every pair of distinct"
    " separators can be declared with every representable delimiter configuration (C11's exact consistency"
    " matrix)."
    " Added in round 10: (O2.6) a Pattern field that matches with fnmatch.fnmatch / fnmatchcase is seen as"
    " such (no case folding on POSIX); (O1.3) as in C01."
)
ASSUMPTIONS = ["int(), decimal.Decimal(), time.strptime, re and fnmatch implement their documented semantics"]

FIELDS = "cutplace.fields."
NAME, NUMBER, STRING, OP, END = _token.NAME, _token.NUMBER, _token.STRING, _token.OP, _token.ENDMARKER


# ------------------------------------------------------------------------------------------ O2.1 / O2.2
def rule_integer(ctx):
    model = ctx.model
    ctx.res.minimum("O2.1", 2)
    default_text = Interp(model, Chooser()).global_lookup(model.module("cutplace.ranges"), "DEFAULT_INTEGER_RANGE_TEXT")
    if default_text == "-2147483648...2147483647":
        ctx.res.ok("O2.1", "default integer range folds to the signed 32 bit range", True, {"text": default_text})
    else:
        ctx.res.fail("O2.1", "32 bit default", "ranges.DEFAULT_INTEGER_RANGE_TEXT:O2.1:default", "cutplace/ranges.py",
                     "default integer range folds to %r" % (default_text,))

    def init_cell(ch):
        has_length = ch.choose("length", [False, True])
        has_rule = ch.choose("rule", [False, True])
        format_name = ch.choose("format", ["delimited", "fixed"])
        # with both a length and a rule every limit of the rule must fit the length
        limits_fit = ch.choose("rule limits fit the length", [True, False]) if (has_length and has_rule) else True
        # an open length ("1...") gives a range without limits; it still is the range to use
        length_is_open = ch.choose("length is open", [False, True]) if (has_length and not has_rule) else False
        made = {}
        fit_checks = []

        @stub
        def range_stub(interp_, args, kwargs):
            description = args[0]
            obj = Obj(model.cls("cutplace.ranges.Range"), {"_description": description, "_items": [(1, 5)] if description else None,
                                                          "_lower_limit": 3 if description else None, "_upper_limit": 3 if description else None},
                      label="Range(%r)" % (description,))
            @stub
            def validate(interp2, args2, kwargs2):
                fit_checks.append(args2[1])
                if not limits_fit and len(fit_checks) == 2:
                    interp2.raise_("cutplace.errors.RangeValueError", Opaque("str", True))

            obj.attrs["validate"] = validate
            made.setdefault("ranges", []).append(obj)
            return obj

        @stub
        def from_length(interp_, args, kwargs):
            obj = Obj(model.cls("cutplace.ranges.Range"), {"_description": "from-length", "_from": args[0],
                                                          "_items": None if length_is_open else [(1, 5)],
                                                          "_lower_limit": None if length_is_open else 3,
                                                          "_upper_limit": None if length_is_open else 3}, label="from-length")
            made["from_length"] = obj
            return obj

        interp = Interp(model, ch, stubs={"cutplace.ranges.Range": range_stub, "cutplace.ranges.create_range_from_length": from_length,
                                          "cutplace._tools.length_of_int": stub(lambda i, a, k: 1)})
        world = World(model, interp, ch)
        data_format = world.data_format(format_name)
        length_text = "3" if has_length else ""
        rule_text = "1...5" if has_rule else ""
        try:
            field = interp.instantiate(ClassRef(model.cls(FIELDS + "IntegerFieldFormat")), ["n", False, length_text, rule_text, data_format], {})
        except AbsRaise as raised:
            return ("length=%s rule=%s %s fit=%s" % (has_length, has_rule, format_name, limits_fit), "raise " + exc_name(raised.value),
                    "constructed" if limits_fit else "raise InterfaceError")
        if not limits_fit:
            return ("length=%s rule=%s %s fit=%s" % (has_length, has_rule, format_name, limits_fit), "constructed", "raise InterfaceError")
        if has_length and has_rule and len(fit_checks) != 2:
            return ("length=%s rule=%s %s" % (has_length, has_rule, format_name), "%d of the rule's 2 limits checked against the length" % len(fit_checks),
                    "both limits checked")
        valid_range = field.attrs.get("valid_range")
        if has_rule:
            expected = "Range('1...5')"
        elif has_length:
            expected = "from-length"
        else:
            expected = "Range(%r)" % default_text
        actual = valid_range.label if isinstance(valid_range, Obj) else repr(valid_range)
        if expected == "from-length" and isinstance(valid_range, Obj) and valid_range is made.get("from_length"):
            source = valid_range.attrs.get("_from")
            # delimited: the declared length itself; fixed: 1...width (blanks may be missing)
            source_text = source.attrs.get("_description") if isinstance(source, Obj) else repr(source)
            wanted = "3" if format_name == "delimited" else "1...3"
            if source_text != wanted:
                actual = "from-length of %r" % (source_text,)
                expected = "from-length of %r" % (wanted,)
        return ("length=%s%s rule=%s %s" % (has_length, " (open)" if length_is_open else "", has_rule, format_name), actual, expected)

    decide(ctx, "O2.1", "Integer range selection", FIELDS + "IntegerFieldFormat.__init__", init_cell, min_cells=10)

    def value_cell(ch):
        conversion = ch.choose("int()", ["number", "ValueError"])
        verdict = ch.choose("range", ["inside", "outside"]) if conversion == "number" else None
        number = Sym("n")
        seen = []

        def int_hook(interp_, args, kwargs):
            if len(args) != 1:
                raise Undecided("int%r" % (args,))
            seen.append(args[0])
            if conversion == "ValueError":
                interp_.raise_("builtins.ValueError", "invalid literal")
            return number

        @stub
        def validate(interp_, args, kwargs):
            seen.append(args[1])
            if verdict == "outside":
                interp_.raise_("cutplace.errors.RangeValueError", Opaque("str", True))

        cell_text = AText(AText.TEXT, "cell")
        asked = {}

        def contains_hook(interp_, args, kwargs):
            # the only thing the code may ask about the characters of the cell: does it hold an underscore (PEP 515
            # digit grouping, which int() accepts and data do not use); such a cell is no integer literal
            container, item = args
            if container is cell_text and item == "_":
                if "underscore" not in asked:
                    asked["underscore"] = ch.choose("cell contains an underscore", [False, True])
                return asked["underscore"]
            raise Undecided("membership test %r in %r" % (item, container))

        interp = Interp(model, ch, externals={"int": int_hook, "contains": contains_hook})
        field = Obj(model.cls(FIELDS + "IntegerFieldFormat"), {"valid_range": Obj(model.cls("cutplace.ranges.Range"), {"validate": validate}),
                                                              "_field_name": "n"})
        try:
            result = interp.call_function(model.func(FIELDS + "IntegerFieldFormat.validated_value"), [field, cell_text], {}, None)
            outcome = "number" if result is number else repr(result)
        except AbsRaise as raised:
            outcome = "raise " + exc_name(raised.value)
        if asked.get("underscore"):
            return ("int=%s range=%s, cell with an underscore" % (conversion, verdict), outcome, "raise FieldValueError")
        expected = "number" if (conversion == "number" and verdict == "inside") else "raise FieldValueError"
        if conversion == "number" and (len(seen) != 2 or seen[0] is not cell_text or seen[1] is not number):
            outcome = "int()/range called with %r" % (seen,)
        return ("int=%s range=%s" % (conversion, verdict), outcome, expected)

    decide(ctx, "O2.2", "Integer value", FIELDS + "IntegerFieldFormat.validated_value", value_cell, min_cells=3)


# ------------------------------------------------------------------------------------------ O2.3
def rule_decimal(ctx):
    model = ctx.model
    ctx.res.minimum("O2.3", 1)
    max_length = 5 if ctx.thorough else 4

    def cell(ch):
        decimal_separator, thousands_separator = ch.choose("separators", [(".", ","), (",", "."), (".", ""), (",", "")])
        length = ch.choose("length", list(range(1, max_length + 1)))
        # third character: the thousands separator, or (none declared) the decimal mark of the OTHER convention
        alphabet = [decimal_separator, "7"] + ([thousands_separator] if thousands_separator else ["," if decimal_separator == "." else "."])
        text = "".join(ch.choose(("char", index), alphabet) for index in range(length))
        converted = []
        number = Sym("d")
        number.is_decimal = True
        conversion = ch.choose("Decimal()", ["number", "InvalidOperation"])
        verdict = ch.choose("range", ["inside", "outside"]) if conversion == "number" else None

        def decimal_hook(interp_, args, kwargs):
            converted.append(args[0])
            if conversion != "number":
                interp_.raise_("decimal.InvalidOperation", "x")
            return number

        @stub
        def validate(interp_, args, kwargs):
            if args[1] is not number:
                raise Undecided("range asked about %r" % (args[1],))
            if verdict == "outside":
                interp_.raise_("cutplace.errors.RangeValueError", Opaque("str", True))

        interp = Interp(model, ch, externals={"decimal.Decimal": decimal_hook})
        field = Obj(model.cls(FIELDS + "DecimalFieldFormat"), {
            "decimal_separator": decimal_separator, "thousands_separator": thousands_separator, "_field_name": "d",
            "valid_range": Obj(model.cls("cutplace.ranges.DecimalRange"), {"validate": validate})})
        try:
            result = interp.call_function(model.func(FIELDS + "DecimalFieldFormat.validated_value"), [field, text], {}, None)
            outcome = "number" if result is number else repr(result)
        except AbsRaise as raised:
            outcome = "raise " + exc_name(raised.value)
        # oracle: the statement
        translated = ""
        seen_decimal = False
        refused = False
        for character in text:
            if character == decimal_separator:
                if seen_decimal:
                    refused = True
                    break
                translated += "."
                seen_decimal = True
            elif thousands_separator and character == thousands_separator:
                if seen_decimal:
                    refused = True
                    break
            elif character == ".":
                # "a number written with the data format's decimal and thousands separators": a point that is neither of
                # them is not part of such a number (it must not reach Decimal(), which would read it as decimal point)
                refused = True
                break
            else:
                translated += character
        key = "separators=%r/%r text=%r Decimal=%s range=%s" % (decimal_separator, thousands_separator, text, conversion, verdict)
        if refused:
            if converted:
                return (key, "a malformed number reached decimal.Decimal", key)
            return (key, None, None) if outcome == "raise FieldValueError" else (key, "malformed separators not refused with FieldValueError", outcome)
        if converted != [translated]:
            return (key, "separator translation differs from the documented one", "decimal.Decimal received %r, expected %r" % (converted, translated))
        expected = "number" if (conversion == "number" and verdict == "inside") else "raise FieldValueError"
        if outcome != expected:
            return (key, "wrong verdict after translation", "%s instead of %s" % (outcome, expected))
        return (key, None, None)

    decide_kinds(ctx, "O2.3", "Decimal separator translation", FIELDS + "DecimalFieldFormat.validated_value", cell, min_cells=500)


    # the separators in force are those of the data format for text formats (delimited AND fixed); spreadsheet formats
    # deliver numbers with "." and without grouping
    def separators_cell(ch):
        from ..absint import ClassRef

        format_name = ch.choose("format", ["delimited", "fixed", "excel", "ods"])
        declared = ch.choose("declared separators", [(".", ","), (",", "."), (".", "")])
        interp = Interp(model, ch, stubs={
            "cutplace.ranges.DecimalRange": stub(lambda i, a, k: Obj(model.cls("cutplace.ranges.DecimalRange"), {"_precision": 2, "_scale": 5, "_items": None})),
            "cutplace.ranges.Range": stub(lambda i, a, k: Obj(model.cls("cutplace.ranges.Range"), {"_items": None, "_lower_limit": None, "_upper_limit": None}))})
        world = World(model, interp, ch)
        data_format = world.data_format(format_name)
        if format_name in ("delimited", "fixed"):
            data_format.attrs.update({"_decimal_separator": declared[0], "_thousands_separator": declared[1]})
        key = "%s declared=%r/%r" % (format_name, declared[0], declared[1])
        try:
            field = interp.instantiate(ClassRef(model.cls(FIELDS + "DecimalFieldFormat")), ["d", False, "", "", data_format], {})
        except AbsRaise as raised:
            return (key, "construction raises " + exc_name(raised.value), exc_name(raised.value))
        actual = (field.attrs.get("decimal_separator"), field.attrs.get("thousands_separator"))
        expected = declared if format_name in ("delimited", "fixed") else (".", "")
        if actual != expected:
            return (key, "Decimal field does not use the separators in force for the format", "uses %r, in force: %r" % (actual, expected))
        return (key, None, None)

    decide_kinds(ctx, "O2.3", "Decimal separators in force per format", FIELDS + "DecimalFieldFormat.__init__", separators_cell, min_cells=12)


# ------------------------------------------------------------------------------------------ O2.4 / O2.7
def rule_choice_constant_text(ctx):
    model = ctx.model
    ctx.res.minimum("O2.4", 3)

    def choice_cell(ch):
        value = ch.choose("cell", ["red", "Red", "RED", "green", "blue", " red", "re"])
        interp = Interp(model, ch)
        field = Obj(model.cls(FIELDS + "ChoiceFieldFormat"), {"choices": ["red", "green"], "_field_name": "c"})
        try:
            result = interp.call_function(model.func(FIELDS + "ChoiceFieldFormat.validated_value"), [field, value], {}, None)
        except AbsRaise as raised:
            result = "raise " + exc_name(raised.value)
        return (repr(value), result, value if value in ("red", "green") else "raise FieldValueError")

    decide(ctx, "O2.4", "Choice membership (exact, case-sensitive)", FIELDS + "ChoiceFieldFormat.validated_value", choice_cell, min_cells=7)

    def constant_cell(ch):
        value = ch.choose("cell", ["abc", "Abc", "abc ", "ab", "abcd"])
        interp = Interp(model, ch)
        field = Obj(model.cls(FIELDS + "ConstantFieldFormat"), {"_constant": "abc", "_field_name": "c"})
        try:
            result = interp.call_function(model.func(FIELDS + "ConstantFieldFormat.validated_value"), [field, value], {}, None)
        except AbsRaise as raised:
            result = "raise " + exc_name(raised.value)
        return (repr(value), result, value if value == "abc" else "raise FieldValueError")

    decide(ctx, "O2.4", "Constant equality (exact, case-sensitive)", FIELDS + "ConstantFieldFormat.validated_value", constant_cell, min_cells=5)

    # abstract cells: the cell reaches the comparison unchanged and is returned unchanged (no transform anywhere)
    def abstract_cell(ch):
        field_type = ch.choose("type", ["Choice", "Constant", "Text"])
        member = ch.choose("member", [True, False])
        atom = Atom("cell", "cell")
        listed = Atom("listed", "cell" if member else "other")
        interp = Interp(model, ch)
        attrs = {"choices": [Atom("first", "first"), listed], "_constant": listed, "_field_name": "f", "_rule": ""}
        field = Obj(model.cls(FIELDS + field_type + "FieldFormat"), attrs)
        try:
            result = interp.call_function(model.func(FIELDS + field_type + "FieldFormat.validated_value"), [field, atom], {}, None)
            outcome = "same cell" if result is atom else repr(result)
        except AbsRaise as raised:
            outcome = "raise " + exc_name(raised.value)
        expected = "same cell" if (member or field_type == "Text") else "raise FieldValueError"
        return ("%s member=%s" % (field_type, member), outcome, expected)

    decide(ctx, "O2.4", "Choice/Constant/Text on an abstract cell", FIELDS + "ChoiceFieldFormat.validated_value", abstract_cell, min_cells=6)


# ------------------------------------------------------------------------------------------ O2.5
def rule_datetime(ctx):
    model = ctx.model
    ctx.res.minimum("O2.5", 3)
    cls = model.cls(FIELDS + "DateTimeFieldFormat")
    interp = Interp(model, Chooser())
    table = interp.getattr(ClassRef(cls), "_HUMAN_READABLE_TO_STRPTIME_TUPLES")
    expected_map = {"%": "%%", "DD": "%d", "MM": "%m", "YYYY": "%Y", "YY": "%y", "hh": "%H", "mm": "%M", "ss": "%S"}
    problems = []
    if dict(table) != expected_map or len(table) != len(expected_map):
        problems.append("layout table is %r" % (table,))
    for i, (key_i, out_i) in enumerate(table):
        for j in range(i + 1, len(table)):
            key_j = table[j][0]
            if key_j in out_i:
                problems.append("output %r of %r would be rewritten again by the later key %r" % (out_i, key_i, key_j))
            if key_i in key_j and key_i != key_j:
                problems.append("key %r is replaced before the longer key %r that contains it" % (key_i, key_j))
    if problems:
        ctx.res.fail("O2.5", "DateTime layout table is order-safe", "fields.DateTimeFieldFormat:O2.5:table",
                     "%s:%d (DateTimeFieldFormat)" % (cls.module.relpath, cls.node.lineno), "; ".join(problems))
    else:
        ctx.res.ok("O2.5", "layout table maps DD/MM/YYYY/YY/hh/mm/ss and %, no step rewrites the output of an earlier one or shadows a longer key",
                   True, {"table": [list(pair) for pair in table]})

    def init_cell(ch):
        rule, expected = ch.choose("rule", [("DD.MM.YYYY", "%d.%m.%Y"), ("YY-MM-DD hh:mm:ss", "%y-%m-%d %H:%M:%S"), ("YYYYMMDD", "%Y%m%d"),
                                            ("100% DD", "100%% %d"), ("hh:mm", "%H:%M"), ("DD/MM/YY", "%d/%m/%y"),
                                            # place holders next to each other and next to letters: a translated "%m" followed
                                            # by a literal "m" must not be read as the place holder "mm" ("%%M")
                                            ("YYYYMMDDhhmmss", "%Y%m%d%H%M%S"), ("MMmm", "%m%M"), ("DDd MMm", "%dd %mm"), ("YYYYy", "%Yy")])
        interp_ = Interp(model, ch, stubs={"cutplace.ranges.Range": stub(lambda i, a, k: Obj(model.cls("cutplace.ranges.Range"), {}))})
        world = World(model, interp_, ch)
        field = interp_.instantiate(ClassRef(cls), ["d", False, "", rule, world.data_format("delimited")], {})
        has_time = any(part in expected for part in ("%H", "%M", "%S"))
        return (rule, (field.attrs.get("strptime_format"), field.attrs.get("_has_time")), (expected, has_time))

    decide(ctx, "O2.5", "DateTime rule -> strptime layout", FIELDS + "DateTimeFieldFormat.__init__", init_cell, min_cells=10)

    def value_cell(ch):
        rule = ch.choose("rule", ["YYYY-MM-DD", "YYYY-MM-DD hh:mm:ss", "hh:mm:ss"])
        has_time = "hh" in rule
        format_name = ch.choose("format", ["excel", "delimited", "ods", "fixed"])
        suffix = ch.choose("cell ends with ' 00:00:00'", [False, True])
        parses = ch.choose("strptime", ["ok", "ValueError"])
        value = "2012-04-01 00:00:00" if suffix else "2012-04-01"
        seen = []
        parsed = Atom("time-tuple", "time-tuple", is_str=False)

        def strptime(interp_, args, kwargs):
            seen.append(tuple(args))
            if parses == "ValueError":
                interp_.raise_("builtins.ValueError", "does not match")
            return parsed

        interp_ = Interp(model, ch, externals={"time.strptime": strptime, "sys.exc_info": lambda i, a, k: (None, Opaque("error"), None)},
                         stubs={"cutplace.ranges.Range": stub(lambda i, a, k: Obj(model.cls("cutplace.ranges.Range"), {}))})
        world = World(model, interp_, ch)
        # the field is built by the repository's own constructor, so every attribute the value hook may read exists
        field = interp_.instantiate(ClassRef(cls), ["d", False, "", rule, world.data_format(format_name)], {})
        layout = field.attrs.get("strptime_format")
        try:
            result = interp_.call_function(model.func(FIELDS + "DateTimeFieldFormat.validated_value"), [field, value], {}, None)
            outcome = "time-tuple" if result is parsed else repr(result)
        except AbsRaise as raised:
            outcome = "raise " + exc_name(raised.value)
        strip = (not has_time) and format_name == "excel" and suffix
        wanted_text = "2012-04-01" if strip else value
        if seen != [(wanted_text, layout)]:
            outcome = "strptime called with %r" % (seen,)
        expected = "time-tuple" if parses == "ok" else "raise FieldValueError"
        return ("rule=%r format=%s suffix=%s strptime=%s" % (rule, format_name, suffix, parses), outcome, expected)

    decide(ctx, "O2.5", "DateTime value (Excel midnight suffix, strptime)", FIELDS + "DateTimeFieldFormat.validated_value", value_cell, min_cells=48)


# ------------------------------------------------------------------------------------------ O2.6
def rule_regex_pattern(ctx):
    model = ctx.model
    ctx.res.minimum("O2.6", 2)
    import re

    for field_type in ("RegEx", "Pattern"):
        def cell(ch, field_type=field_type):
            matches = ch.choose("match()", [True, False])
            compiled = {}

            def translate(interp_, args, kwargs):
                compiled["translated_from"] = args[0]
                return "TRANSLATED(%s)" % args[0]

            def compile_hook(interp_, args, kwargs):
                compiled["pattern"] = args[0]
                compiled["flags"] = args[1] if len(args) > 1 else kwargs.get("flags", 0)
                regex = Obj("re.Pattern", {}, label="regex")

                @stub
                def match(interp2, args2, kwargs2):
                    compiled.setdefault("calls", []).append(("match",) + tuple(args2))
                    return Opaque("match", truthy=True) if matches else None

                @stub
                def other(interp2, args2, kwargs2):
                    compiled.setdefault("calls", []).append(("other",) + tuple(args2))
                    return Opaque("match", truthy=True)

                regex.attrs.update({"match": match, "search": other, "fullmatch": other, "findall": other})
                return regex

            def shell_match(interp_, args, kwargs):
                # fnmatch.fnmatch folds case only where os.path.normcase does (not on POSIX); fnmatchcase never does
                compiled.setdefault("calls", []).append(("fnmatch",) + tuple(args))
                return matches

            interp = Interp(model, ch, externals={"re.compile": compile_hook, "fnmatch.translate": translate,
                                                  "fnmatch.fnmatch": shell_match, "fnmatch.fnmatchcase": shell_match},
                            stubs={"cutplace.ranges.Range": stub(lambda i, a, k: Obj(model.cls("cutplace.ranges.Range"), {}))})
            world = World(model, interp, ch)
            # round 11: a rule without any special character is a pattern like every other (a "plain text" shortcut that
            # compares for equality would refuse the longer texts `match` accepts)
            rule = ch.choose("rule", ["a*b", "item"])
            field = interp.instantiate(ClassRef(model.cls(FIELDS + field_type + "FieldFormat")), ["f", False, "", rule, world.data_format()], {})
            cell_text = Atom("cell", "cell")
            try:
                result = interp.call_function(model.func(FIELDS + field_type + "FieldFormat.validated_value"), [field, cell_text], {}, None)
                outcome = "same cell" if result is cell_text else repr(result)
            except AbsRaise as raised:
                outcome = "raise " + exc_name(raised.value)
            problems = []
            flags = compiled.get("flags", 0)
            if not isinstance(flags, int) or not (flags & re.IGNORECASE):
                problems.append("compiled without IGNORECASE (flags %r)" % (flags,))
            wanted_pattern = rule if field_type == "RegEx" else "TRANSLATED(%s)" % rule
            if compiled.get("pattern") != wanted_pattern:
                problems.append("compiled %r instead of %r" % (compiled.get("pattern"), wanted_pattern))
            if compiled.get("calls") != [("match", cell_text)]:
                problems.append("value tested with %r instead of match(cell)" % (compiled.get("calls"),))
            expected = "same cell" if matches else "raise FieldValueError"
            if outcome != expected:
                problems.append("%s instead of %s" % (outcome, expected))
            return ("%s match=%s" % (field_type, matches), "; ".join(problems) if problems else "conforms", "conforms")

        decide(ctx, "O2.6", "%s compile flags and anchoring" % field_type, FIELDS + field_type + "FieldFormat.validated_value", cell, min_cells=2)


# ------------------------------------------------------------------------------------------ O2.8
def _texts_of_length(lower, upper, sample):
    """Is the integer ``sample`` one whose text has between lower and upper characters?"""
    length = len(str(sample))
    return (lower is None or length >= lower) and (upper is None or length <= upper)


def rule_range_from_length(ctx):
    model = ctx.model
    ctx.res.minimum("O2.8", 2)
    info = model.func("cutplace.ranges.create_range_from_length")
    # side condition: repetition counts are affine in the lengths (name or name - constant)
    bad = []
    for node in walk_own(info.node):
        if isinstance(node, ast.BinOp) and isinstance(node.op, ast.Mult):
            count = node.right if isinstance(node.left, ast.Constant) else node.left
            ok = isinstance(count, ast.Name) or (isinstance(count, ast.BinOp) and isinstance(count.op, (ast.Sub, ast.Add))
                                                 and isinstance(count.left, ast.Name) and isinstance(count.right, ast.Constant))
            if not ok:
                bad.append(ast.unparse(node))
    if bad:
        ctx.res.fail("O2.8", "repetition counts are affine in the lengths", "ranges.create_range_from_length:O2.8:affine",
                     where_of(model, info.qualname), "repetition counts %r are not of the form length or length +- constant" % (bad,))
        return
    ctx.res.ok("O2.8", "all repetition counts in create_range_from_length are affine in the item's lengths", True)

    lowers = [None, 0, 1, 2, 3, 4]
    uppers = [None, 1, 2, 3, 4, 5]

    def cell(ch):
        items = []
        count = ch.choose("items", [1, 2])
        for index in range(count):
            # items of a parsed length range do not overlap, but they can be declared in any order: the second item lies
            # entirely after the first one or entirely before it
            if index == 0:
                lower = ch.choose(("lower", index), lowers)
                upper = ch.choose(("upper", index), [u for u in uppers if u is None or lower is None or u >= lower])
            else:
                first_lower, first_upper = items[0]
                side = ch.choose("second item", ["after the first", "before the first"])
                if side == "after the first":
                    if first_upper is None:
                        return None
                    lower_pool = [value for value in lowers if value is not None and value > first_upper]
                    if not lower_pool:
                        return None
                    lower = ch.choose(("lower", index), lower_pool)
                    upper = ch.choose(("upper", index), [u for u in uppers if u is None or u >= lower])
                else:
                    if first_lower is None or first_lower <= 1:
                        return None
                    upper_pool = [value for value in uppers if value is not None and value < first_lower]
                    if not upper_pool:
                        return None
                    upper = ch.choose(("upper", index), upper_pool)
                    lower = ch.choose(("lower", index), [value for value in lowers if value is None or value <= upper])
            if lower is None and upper is None:
                return None
            items.append((lower, upper))
        produced = []

        @stub
        def range_stub(interp_, args, kwargs):
            produced.append(args[0])
            return Obj(model.cls("cutplace.ranges.Range"), {"_description": args[0]})

        interp = Interp(model, ch, stubs={"cutplace.ranges.Range": range_stub})
        length_range = Obj(model.cls("cutplace.ranges.Range"), {"_items": items, "_description": "lengths"})
        key = "lengths=%r" % (items,)
        try:
            interp.call_function(info, [length_range], {}, None)
        except AbsRaise as raised:
            # upper limit 0 / negative lengths are refused; those are not in the pools
            return (key, "raises " + exc_name(raised.value), "")
        if len(produced) != 1 or not isinstance(produced[0], str):
            return (key, "no range description produced", repr(produced))
        # compare the produced description, read with the documented range grammar, on the boundary values of every item
        try:
            produced_items = _parse_integer_range(produced[0])
        except ValueError as error:
            return (key, "malformed description produced", "%r: %s" % (produced[0], error))
        if produced[0].strip() == "":
            produced_items = [(None, None)]  # an empty description accepts every value
        probes = set()
        for lower, upper in items:
            for digits in {lower, upper, (lower or 1) - 1, (upper or 1) + 1, 1, 2}:
                if digits is None or digits < 1:
                    continue
                for sign_digits in (digits, digits - 1):
                    if sign_digits >= 1:
                        probes.update({10 ** (sign_digits - 1), 10 ** sign_digits - 1, 10 ** sign_digits})
                        probes.update({-(10 ** (sign_digits - 1)), -(10 ** sign_digits - 1), -(10 ** sign_digits)})
        probes.update({0, 1, -1, 9, -9, 10, -10})
        for sample in sorted(probes):
            expected = any(_texts_of_length(lower, upper, sample) for lower, upper in items)
            actual = any((low is None or sample >= low) and (high is None or sample <= high) for low, high in produced_items)
            if expected != actual:
                return (key, "length-derived range differs from 'text has between lower and upper characters'",
                        "%r %s %d although its text has %d characters" % (produced[0], "accepts" if actual else "rejects", sample, len(str(sample))))
        # "any integer whose text fits that length": 7 can be written as 007, -7 as -07 - an integer has a text of n characters
        # as soon as its shortest text has at most n, so the lower length must not exclude small magnitudes
        for sample in sorted(probes):
            shortest = len(str(sample))
            writable = any(upper is None or shortest <= upper for lower, upper in items)
            actual = any((low is None or sample >= low) and (high is None or sample <= high) for low, high in produced_items)
            if writable and not actual:
                padded = str(abs(sample)).rjust(max(lower or 1 for lower, upper in items if upper is None or shortest <= upper) - (1 if sample < 0 else 0), "0")
                return (key, "length-derived range rejects integers written with leading zeros to fit the length",
                        "%r rejects %d although %s%s has a fitting number of characters" % (produced[0], sample, "-" if sample < 0 else "", padded))
        return (key, None, None)

    decide_kinds(ctx, "O2.8", "create_range_from_length(region representatives)", info.qualname, cell, min_cells=100)


def _parse_integer_range(text):
    """Reference reading of a description produced from integer literals only (no symbols, no strings)."""
    items = []
    for part in text.split(","):
        part = part.strip()
        if not part:
            continue
        if "..." in part:
            low_text, high_text = part.split("...")
            low = int(low_text) if low_text.strip() else None
            high = int(high_text) if high_text.strip() else None
            if low is None and high is None:
                raise ValueError("lone ellipsis")
            items.append((low, high))
        else:
            items.append((int(part), int(part)))
    return items


# ------------------------------------------------------------------------------------------ O2.9
def rule_choice_constant_rules(ctx):
    model = ctx.model
    ctx.res.minimum("O2.9", 2)
    max_tokens = 6 if ctx.thorough else 5

    def choice_cell(ch):
        allowed_empty = ch.choose("empty allowed", [False, True])
        produced = []

        def produce(index):
            if produced and produced[-1][0] == "END":
                return AbsIter.STOP
            options = ["VALUE", "QUOTED", "EMPTYQUOTED", "COMMA", "END"] if len(produced) < max_tokens else ["END"]
            kind = ch.choose(("token", index), options)
            if kind == "VALUE":
                token = (NAME, "v%d" % index)
            elif kind == "QUOTED":
                token = (STRING, '"q%d"' % index)
            elif kind == "EMPTYQUOTED":
                token = (STRING, '""')
            elif kind == "COMMA":
                token = (OP, ",")
            else:
                token = (END, "")
            produced.append((kind, token[1]))
            return token + ((1, index), (1, index + 1), "")

        stubs = {"cutplace._tools.tokenize_without_space": stub(lambda i, a, k: AbsIter(produce, "tokens")),
                 "cutplace.ranges.Range": stub(lambda i, a, k: Obj(model.cls("cutplace.ranges.Range"), {}))}
        interp = Interp(model, ch, stubs=stubs)
        world = World(model, interp, ch)
        try:
            field = interp.instantiate(ClassRef(model.cls(FIELDS + "ChoiceFieldFormat")), ["c", allowed_empty, "", "RULE", world.data_format()], {})
            outcome = ("choices", field.attrs.get("choices"))
        except AbsRaise as raised:
            outcome = "raise " + exc_name(raised.value)
        kinds = [kind for kind, _ in produced]
        if not kinds or kinds[-1] != "END":
            if outcome == "raise InterfaceError":
                return None  # refused before the end: the completed sequences are explored separately
            return (" ".join(kinds), "stopped reading the rule early: %r" % (outcome,), "reads every token")
        # reference: values separated by single commas
        expected_choices = []
        well_formed = True
        expect_value = True
        for kind, text in produced[:-1]:
            if expect_value:
                if kind in ("VALUE", "QUOTED"):
                    expected_choices.append(text[1:-1] if kind == "QUOTED" else text)
                    expect_value = False
                else:
                    well_formed = False
                    break
            else:
                if kind == "COMMA":
                    expect_value = True
                else:
                    well_formed = False
                    break
        if well_formed and expect_value and expected_choices:
            well_formed = False  # trailing comma
        if well_formed and not expected_choices and not allowed_empty:
            well_formed = False
        expected = ("choices", expected_choices) if well_formed else "raise InterfaceError"
        return ("empty-allowed=%s %s" % (allowed_empty, " ".join(kinds)), outcome, expected)

    decide(ctx, "O2.9", "Choice rule automaton", FIELDS + "ChoiceFieldFormat.__init__", choice_cell, min_cells=30, key_name="Choice rule")

    def constant_cell(ch):
        allowed_empty = ch.choose("empty allowed", [False, True])
        tokens = ch.choose("rule tokens", [[], [(NAME, "abc")], [(STRING, '"a b"')], [(NUMBER, "12")], [(NAME, "a"), (NAME, "b")],
                                           [(NUMBER, "1"), (OP, ","), (NUMBER, "2")]])
        length_verdict = ch.choose("length", ["fits", "does not fit"]) if len(tokens) <= 1 else "fits"
        sequence = list(tokens) + [(END, "")]
        rule_text = "" if not tokens else "RULE"

        @stub
        def validate(interp_, args, kwargs):
            if length_verdict != "fits":
                interp_.raise_("cutplace.errors.RangeValueError", Opaque("str", True))

        stubs = {"cutplace._tools.tokenize_without_space": stub(lambda i, a, k: AbsIter(
            lambda index: sequence[index] + ((1, 0), (1, 1), "") if index < len(sequence) else AbsIter.STOP, "tokens")),
                 "cutplace.ranges.Range": stub(lambda i, a, k: Obj(model.cls("cutplace.ranges.Range"), {"validate": validate}))}
        interp = Interp(model, ch, stubs=stubs)
        world = World(model, interp, ch)
        try:
            field = interp.instantiate(ClassRef(model.cls(FIELDS + "ConstantFieldFormat")), ["c", allowed_empty, "", rule_text, world.data_format()], {})
            outcome = ("constant", field.attrs.get("_constant"))
        except AbsRaise as raised:
            outcome = "raise " + exc_name(raised.value)
        if len(tokens) > 1:
            expected = "raise InterfaceError"
        elif not tokens:
            expected = ("constant", "") if (allowed_empty and length_verdict == "fits") else "raise InterfaceError"
        else:
            text = tokens[0][1][1:-1] if tokens[0][0] == STRING else tokens[0][1]
            expected = ("constant", text) if (not allowed_empty and length_verdict == "fits") else "raise InterfaceError"
        return ("empty-allowed=%s tokens=%r length=%s" % (allowed_empty, [t[1] for t in tokens], length_verdict), outcome, expected)

    decide(ctx, "O2.9", "Constant rule", FIELDS + "ConstantFieldFormat.__init__", constant_cell, min_cells=16)

    # the text a rule token stands for: a quoted token loses exactly its two enclosing quotes (a value may itself begin or
    # end with the other kind of quote), any other token is taken as written
    def token_text_cell(ch):
        kind, text = ch.choose("token", [(STRING, '"abc"'), (STRING, "'abc'"), (STRING, '""'), (STRING, "''"), (STRING, '"\'yes\'"'),
                                         (STRING, "'3\"'"), (STRING, '"\'x"'), (STRING, "'\"'"), (STRING, '" a "'), (STRING, '"a\\"b"'),
                                         (NAME, "abc"), (NUMBER, "12"), (NUMBER, "1.50"), (OP, ","), (OP, "-"), (END, "")])
        interp = Interp(model, ch)
        try:
            result = interp.call_function(model.func("cutplace._tools.token_text"), [(kind, text, (1, 0), (1, len(text)), text)], {}, None)
        except AbsRaise as raised:
            result = "raise " + exc_name(raised.value)
        return ("%s %r" % ("quoted" if kind == STRING else "plain", text), result, text[1:-1] if kind == STRING else text)

    decide(ctx, "O2.9", "text of a rule token", "cutplace._tools.token_text", token_text_cell, min_cells=16)


NUMBER_SPELLINGS = [
    # (field type, cell, the number it denotes or None: "an integer literal" / "a number written with the separators")
    ("Integer", "10", 10), ("Integer", "-5", -5), ("Integer", "+7", 7), ("Integer", "007", 7), ("Integer", "x", None), ("Integer", "1.0", None),
    ("Integer", "0x10", None), ("Integer", "1e3", None),
    # digit grouping with underscores is Python source syntax (PEP 515), no way to write a number in data
    ("Integer", "1_0", None), ("Integer", "+1_2", None), ("Integer", "1_000_000", None),
    ("Decimal", "1.5", "1.5"), ("Decimal", "-0.25", "-0.25"), ("Decimal", "10", "10"), ("Decimal", "x", None),
    ("Decimal", "1_0.5", None), ("Decimal", "1.2_5", None), ("Decimal", "1_000", None),
]


def rule_number_spellings(ctx):
    """O2.10: Integer "an integer literal", Decimal "a number written with the data format's separators": the value hooks
    are interpreted on concrete cell texts with the real int() / Decimal(); what Python accepts beyond numbers as data
    write them (1_0 for 10, PEP 515) is refused."""
    import decimal as _decimal

    model = ctx.model
    ctx.res.minimum("O2.10", 1)

    def decimal_hook(interp_, args, kwargs):
        if len(args) != 1 or not isinstance(args[0], str):
            raise Undecided("Decimal%r" % (tuple(args),))
        try:
            return _decimal.Decimal(args[0])
        except _decimal.InvalidOperation as error:
            interp_.raise_("decimal.InvalidOperation", str(error))

    def cell(ch):
        field_type, text, denotes = ch.choose("cell", NUMBER_SPELLINGS)
        seen = []

        @stub
        def validate(interp_, args, kwargs):
            seen.append(args[1])

        interp = Interp(model, ch, externals={"decimal.Decimal": decimal_hook})
        if field_type == "Integer":
            field = Obj(model.cls(FIELDS + "IntegerFieldFormat"), {"_field_name": "n", "valid_range": Obj(model.cls("cutplace.ranges.Range"), {"validate": validate})})
        else:
            field = Obj(model.cls(FIELDS + "DecimalFieldFormat"), {
                "decimal_separator": ".", "thousands_separator": "", "_field_name": "d",
                "valid_range": Obj(model.cls("cutplace.ranges.DecimalRange"), {"validate": validate})})
        try:
            result = interp.call_function(model.func(FIELDS + field_type + "FieldFormat.validated_value"), [field, text], {}, None)
            outcome = "accepted as %s" % (result,)
        except AbsRaise as raised:
            outcome = "raise " + exc_name(raised.value)
        expected = "raise FieldValueError" if denotes is None else "accepted as %s" % (denotes,)
        return ("%s cell %r" % (field_type, text), outcome, expected)

    decide(ctx, "O2.10", "number spellings (concrete cells)", FIELDS + "IntegerFieldFormat.validated_value", cell, min_cells=len(NUMBER_SPELLINGS))


def rule_separators_can_be_declared(ctx):
    """O2.11: "a number written with the data format's decimal and thousands separators": every pair of distinct separators
    can be declared together with every item delimiter, quote and escape character the csv dialect can represent - comma
    separated data with the thousands separator ',' included, where such numbers are quoted (C11's consistency matrix)."""
    from .c11 import rule_consistency

    rule_consistency(ctx, "O2.11")


def rule_range_membership(ctx):
    """O1.3 (shared with C01): Integer and Decimal fields hand the converted value to Range / DecimalRange.validate; that
    these accept exactly the values inside an item - the value itself, not a rounded one, and whatever was validated
    before - is part of C02's obligations."""
    from .c01 import rule_membership

    # a Decimal cell is "a number written with the data format's decimal and thousands separators": Infinity is none
    rule_membership(ctx, infinity=True)


from .common import rule_module_state  # noqa: E402

RULES = [rule_integer, rule_decimal, rule_number_spellings, rule_separators_can_be_declared, rule_choice_constant_text, rule_datetime, rule_regex_pattern, rule_range_from_length,
         rule_choice_constant_rules, rule_range_membership, rule_module_state]
