"""
C09 - CIDs are accepted iff structurally sound; rejections name the offending row.
"""
import ast
import keyword
import token as _token

from ..absint import AbsIter, AbsRaise, Chooser, ClassRef, Interp, Obj, Opaque, Undecided, exc_name
from ..model import dotted, walk_own
from ..tablekit import decide, decide_kinds, stub, where_of
from ..world import World

EXPLANATION = (
    "Static decision of the individual acceptance guards of C09 by interpreting interface.py from source with stubbed "
    "collaborators: (O9.1) Cid.read on every row marker {d, D, ' f ', C, '', x} and row width (cells beyond the parsed "
    "columns are cut, short rows padded): dispatch to the right add_*_row, unknown marker refused, the cursor advances "
    "exactly once per row; (O9.2) every sequence of up to 4 row kinds {format row, second format row, property row, "
    "field, check, comment}: accepted iff the first data-format row sets Format exactly once, a field follows it and "
    "every check follows a field, refused with an InterfaceError located at the offending row (or at the end for a CID "
    "without format/fields); (O9.3) validated_field_name on a pool of names against 'ASCII letter, then letters / "
    "digits / underscore, not a Python keyword'; duplicate names refused; (O9.4) add_field_format keeps names, formats "
    "and index map parallel and in order; (O9.5) every InterfaceError that can leave Cid.read receives a location, "
    "either at the raise or from the wrapper around field construction; (O9.6) the empty mark accepts exactly '' and "
    "'x' (any case, surrounding blanks), an example is validated by the field's own validated(); (O9.7) the IsUnique "
    "rule automaton on every abstract token sequence; (O9.8) the length ladder: fixed format needs one exact length >= "
    "1, other formats refuse negative limits. Completeness against an external catalogue of defects is not a shape of "
    "the code and is not claimed."
    " Added in rounds 6 and 7: (O9.7c) a DistinctCount rule refers to no name besides the counted field (real"
    " compile / eval on concrete rules, stand-ins for exit()). (O9.12) range descriptions with a second ellipsis"
    " in an item or without any item are refused (C01's constructor table in refusal mode). (O9.13) every valid"
    " value of every data format property is the same value with blanks around it."
    " Added in rounds 8 and 9: (O9.7) a NAME token with white space folded into it stands for the bare name;"
    " (O9.7c) nested scopes of a count expression; (O9.6) no part of a length may carry a negative limit."
)
ASSUMPTIONS = ["field and check constructors reject malformed rules as decided under C01, C02, C05"]

CID = "cutplace.interface.Cid"
NAME, NUMBER, STRING, OP, END = _token.NAME, _token.NUMBER, _token.STRING, _token.OP, _token.ENDMARKER


def _init_of(model, class_qualname):
    """Qualified name of the constructor an instance of the class runs (its own or the one it inherits)."""
    method = model.lookup_method(model.cls(class_qualname), "__init__")
    return method.qualname if method is not None else class_qualname + ".__init__"


def _new_cid(interp, model):
    @stub
    def empty_map(interp_, args, kwargs):
        return {}

    interp.stubs[CID + "._create_name_to_class_map"] = empty_map
    interp.externals.setdefault("traceback.extract_stack", lambda i, a, k: [("caller.py", 10, "caller", "cid = Cid()")])
    interp.externals.setdefault("os.path.basename", lambda i, a, k: "cid")
    cid = interp.instantiate(ClassRef(model.cls(CID)), [], {})
    cid.attrs["_check_name_to_class_map"] = {"IsUniqueCheck": "CHECKCLASS", "DistinctCountCheck": "CHECKCLASS"}
    cid.attrs["_field_format_name_to_class_map"] = {"TextFieldFormat": "FIELDCLASS", "IntegerFieldFormat": "FIELDCLASS"}
    return cid


# ------------------------------------------------------------------------------------------------- O9.1
def rule_row_dispatch(ctx):
    model = ctx.model
    ctx.res.minimum("O9.1", 1)

    def cell(ch):
        marker = ch.choose("marker", ["d", "D", " f ", "F", "c", "C", "", "  ", "x", "dd"])
        width = ch.choose("cells after the marker", [0, 2, 6, 9])
        empty_row = ch.choose("row", ["cells", "empty list"]) if marker == "" else "cells"
        calls = []

        def adder(name):
            @stub
            def handler(interp_, args, kwargs):
                calls.append((name, list(args[1])))

            return handler

        stubs = {CID + ".add_data_format_row": adder("D"), CID + ".add_field_format_row": adder("F"), CID + ".add_check_row": adder("C")}

        @stub
        def validate(interp_, args, kwargs):
            return None

        interp = Interp(model, ch, stubs=stubs)
        cid = _new_cid(interp, model)
        data_format = Obj(model.cls("cutplace.data.DataFormat"), {"validate": validate, "_format": "delimited"})
        cells = ["v%d" % index for index in range(width)]
        row = [] if empty_row == "empty list" else [marker] + cells

        @stub
        def adder_with_state(interp_, args, kwargs):
            calls.append(("D", list(args[1])))
            cid.attrs["_data_format"] = data_format

        @stub
        def field_with_state(interp_, args, kwargs):
            calls.append(("F", list(args[1])))
            cid.attrs["_field_names"].append("f")

        interp.stubs[CID + ".add_data_format_row"] = adder_with_state
        interp.stubs[CID + ".add_field_format_row"] = field_with_state
        rows = [["d", "format", "delimited"], ["f", "a"], row, ["f", "b"]]
        before = len(calls)
        try:
            interp.call_function(model.func(CID + ".read"), [cid, "cid.csv", rows], {}, None)
            outcome = "accepted"
        except AbsRaise as raised:
            outcome = "raise " + exc_name(raised.value)
            if exc_name(raised.value) == "InterfaceError":
                location = raised.value.attrs.get("_location")
                outcome += " at line %s" % (location.attrs.get("_line") if isinstance(location, Obj) else None)
        kind = marker.strip().lower()
        key = "marker=%r width=%d%s" % (marker, width, " (empty list)" if empty_row == "empty list" else "")
        if kind in ("d", "f", "c"):
            expected_call = (kind.upper(), (cells + [""] * 6)[:6])
            middle = calls[2] if len(calls) >= 4 else None
            if outcome != "accepted" or middle != expected_call or len(calls) != 4:
                return (key, (outcome, calls[2:3]), ("accepted", [expected_call]))
            final_line = cid.attrs["_location"].attrs.get("_line")
            return (key, ("accepted", final_line), ("accepted", 4))
        if kind == "":
            if outcome != "accepted" or len(calls) != 3:
                return (key, (outcome, len(calls)), ("accepted", 3))
            return (key, ("accepted", cid.attrs["_location"].attrs.get("_line")), ("accepted", 4))
        return (key, outcome, "raise InterfaceError at line 2")

    decide(ctx, "O9.1", "Cid.read(row markers, widths, cursor)", CID + ".read", cell, min_cells=30)


# ------------------------------------------------------------------------------------------------- O9.2
ROW_KINDS = ["format", "format-again", "property", "field", "check", "comment"]


def rule_row_order(ctx):
    model = ctx.model
    ctx.res.minimum("O9.2", 1)
    # four rows are the least that show "a field row after a check row": format > field > check > field
    max_rows = 5 if ctx.thorough else 4

    def cell(ch):
        count = ch.choose("rows", list(range(0, max_rows + 1)))
        kinds = [ch.choose(("row", index), ROW_KINDS) for index in range(count)]

        @stub
        def field_new(interp_, args, kwargs):
            return Obj(model.cls("cutplace.fields.TextFieldFormat"), {}, label="field")

        @stub
        def check_new(interp_, args, kwargs):
            return Obj(model.cls("cutplace.checks.IsUniqueCheck"), {}, label="check")

        @stub
        def field_init(interp_, args, kwargs):
            field = args[0]
            field.attrs.update({"_field_name": args[1], "_length": Obj(model.cls("cutplace.ranges.Range"), {
                "_items": None, "_lower_limit": None, "_upper_limit": None}), "_example": None})

        @stub
        def check_init(interp_, args, kwargs):
            check = args[0]
            if not args[3]:
                interp_.raise_("cutplace.errors.InterfaceError", "field names must be specified before check", args[4])
            check.attrs.update({"_description": args[1], "_location": args[4]})

        @stub
        def create_class(interp_, args, kwargs):
            return ClassRef(model.cls("cutplace.fields.TextFieldFormat"))

        @stub
        def create_check_class(interp_, args, kwargs):
            return ClassRef(model.cls("cutplace.checks.IsUniqueCheck"))

        stubs = {
            CID + "._create_field_format_class": create_class, CID + "._create_check_class": create_check_class,
            "cutplace.fields.TextFieldFormat.__new__": field_new, "cutplace.checks.IsUniqueCheck.__new__": check_new,
            _init_of(model, "cutplace.fields.TextFieldFormat"): field_init, _init_of(model, "cutplace.checks.IsUniqueCheck"): check_init,
        }
        interp = Interp(model, ch, stubs=stubs, externals={"codecs.lookup": lambda i, a, k: Opaque("codec")})
        interp.externals["logging.getLogger"] = lambda i, a, k: Obj("logging.Logger", {"debug": stub(lambda i2, a2, k2: None)})
        interp.externals["keyword.iskeyword"] = lambda i, a, k: keyword.iskeyword(a[0])
        cid = _new_cid(interp, model)
        rows = []
        for index, kind in enumerate(kinds):
            rows.append({
                "format": ["D", "Format", "Delimited"], "format-again": ["d", "format", "delimited"], "property": ["D", "Header", "1"],
                "field": ["F", "field%d" % index], "check": ["C", "check %d" % index, "IsUnique", "x"], "comment": ["", "remark"],
            }[kind])
        try:
            interp.call_function(model.func(CID + ".read"), [cid, "cid.csv", rows], {}, None)
            outcome = "accepted"
        except AbsRaise as raised:
            outcome = "raise " + exc_name(raised.value)
            if exc_name(raised.value) == "InterfaceError":
                location = raised.value.attrs.get("_location")
                outcome += " at line %s" % (location.attrs.get("_line") if isinstance(location, Obj) else None)
        # reference
        expected = None
        has_format = False
        has_check = False
        field_names = []
        for index, kind in enumerate(kinds):
            if kind in ("format", "format-again"):
                if has_format:
                    expected = "raise InterfaceError at line %d" % index
                    break
                has_format = True
            elif kind == "property":
                if not has_format:
                    expected = "raise InterfaceError at line %d" % index
                    break
            elif kind == "field":
                if not has_format or has_check:
                    # "every check follows the fields": a field row after a check row is refused at that row
                    expected = "raise InterfaceError at line %d" % index
                    break
                field_names.append("field%d" % index)
            elif kind == "check":
                if not field_names:
                    expected = "raise InterfaceError at line %d" % index
                    break
                has_check = True
        if expected is None:
            if not has_format or not field_names:
                expected = "raise InterfaceError at line %d" % len(kinds)
            else:
                expected = "accepted"
        key = " > ".join(kinds) or "(no rows)"
        if expected == "accepted" and outcome == "accepted":
            if cid.attrs.get("_field_names") != field_names:
                return (key, "fields %r" % (cid.attrs.get("_field_names"),), "fields %r" % (field_names,))
        return (key, outcome, expected)

    decide(ctx, "O9.2", "Cid.read(row order)", CID + ".read", cell, min_cells=200, key_name="Cid.read(row order)")


# ------------------------------------------------------------------------------------------------- O9.3 / O9.4
def rule_field_names(ctx):
    model = ctx.model
    ctx.res.minimum("O9.3", 1)
    names = ["a", "A", "a1", "a_b", "customer_id", "_a", "1a", "a-b", "a b", "a.b", "", "  ", " a ", "class", "None", "for", "ä", "aä", "a$", "Z9_",
             " class ", "for ", "\tNone", " a1 ", "Class", "a__", "a\n", "é1"]

    def cell(ch):
        name = ch.choose("name", names)
        interp = Interp(model, ch, externals={"keyword.iskeyword": lambda i, a, k: keyword.iskeyword(a[0])})
        world = World(model, interp, ch)
        try:
            result = interp.call_function(model.func("cutplace.fields.validated_field_name"), [name, world.location()], {}, None)
        except AbsRaise as raised:
            result = "raise " + exc_name(raised.value)
        stripped = name.strip()
        letters = "abcdefghijklmnopqrstuvwxyzABCDEFGHIJKLMNOPQRSTUVWXYZ"
        valid = bool(stripped) and stripped[0] in letters and all(c in letters + "0123456789_" for c in stripped) and not keyword.iskeyword(stripped)
        return (repr(name), result, stripped if valid else "raise InterfaceError")

    decide(ctx, "O9.3", "validated_field_name(alphabet, keywords)", "cutplace.fields.validated_field_name", cell, min_cells=len(names))

    # O9.4: add_field_format keeps the parallel structures in order
    interp = Interp(model, Chooser())
    cid = _new_cid(interp, model)
    cid.attrs["_data_format"] = Obj(model.cls("cutplace.data.DataFormat"), {})
    interp.externals["logging.getLogger"] = lambda i, a, k: Obj("logging.Logger", {"debug": stub(lambda i2, a2, k2: None)})
    fields = [Obj(model.cls("cutplace.fields.TextFieldFormat"), {"_field_name": name}, label=name) for name in ("zeta", "alpha", "mid")]
    for field in fields:
        interp.call_function(model.func(CID + ".add_field_format"), [cid, field], {}, None)
    ok = cid.attrs["_field_names"] == ["zeta", "alpha", "mid"] and all(a is b for a, b in zip(cid.attrs["_field_formats"], fields)) \
        and cid.attrs["_field_name_to_index_map"] == {"zeta": 0, "alpha": 1, "mid": 2} \
        and all(cid.attrs["_field_name_to_format_map"][f.attrs["_field_name"]] is f for f in fields)
    if ok:
        ctx.res.ok("O9.4", "add_field_format keeps names, formats, index map and format map parallel and in declaration order", True)
    else:
        ctx.res.fail("O9.4", "field order preserved", "interface.Cid.add_field_format:O9.4:order", where_of(model, CID + ".add_field_format"),
                     "after adding zeta, alpha, mid: names %r, index map %r" % (cid.attrs["_field_names"], cid.attrs["_field_name_to_index_map"]))


# ------------------------------------------------------------------------------------------------- O9.6 / O9.8
def rule_field_row(ctx, rule="O9.6", mode="values"):
    model = ctx.model
    ctx.res.minimum(rule, 1)

    def cell(ch):
        format_name = ch.choose("format", ["delimited", "fixed"])
        mark = ch.choose("empty mark", ["", "x", "X", " x ", "y", "xx", "0"])
        length_shape = ch.choose("length", ["absent", "exact 3", "exact 0", "exact -1", "range 1-3", "open lower -1", "open upper only -1",
                                            "open upper only 5", "lower 0", "two items open on both ends",
                                            "two items, the open one ends at -1", "two items open on both ends, one ending at -2",
                                            "two exact items 1 and 3"])
        example = ch.choose("example", ["", "good", "bad"])
        duplicate = ch.choose("duplicate name", [False, True])
        construction = ch.choose("construction", ["ok", "InterfaceError"])
        shapes = {
            "absent": (None, None, None), "exact 3": ([(3, 3)], 3, 3), "exact 0": ([(0, 0)], 0, 0), "exact -1": ([(-1, -1)], -1, -1),
            "range 1-3": ([(1, 3)], 1, 3), "open lower -1": ([(-1, None)], -1, None), "open upper only -1": ([(None, -1)], None, -1),
            "open upper only 5": ([(None, 5)], None, 5), "lower 0": ([(0, None)], 0, None),
            "two items open on both ends": ([(None, 3), (5, None)], None, None),
            # a negative limit hidden from the overall limits by an open side of the range
            "two items, the open one ends at -1": ([(None, -1), (3, 3)], None, 3),
            "two items open on both ends, one ending at -2": ([(None, -2), (5, None)], None, None),
            # round 11: every part is a specific number, the length as a whole is not (a fixed field has ONE width)
            "two exact items 1 and 3": ([(1, 1), (3, 3)], 1, 3),
        }
        items, lower, upper = shapes[length_shape]
        # round 11: the type cell - every dot-separated part has to be a Python name, not only the last one (varied on the
        # plainest row only, the dimensions are independent)
        plain = format_name == "delimited" and mark == "" and length_shape == "absent" and example == "" and not duplicate \
            and construction == "ok"
        type_text = ch.choose("type", ["", "Text", "fields.Text", ".Text", "1x.Text", "a b.Text", "fields..Text", "Text.", "fields.1x"]) if plain else ""
        type_ok = type_text == "" or all(part.isidentifier() and not keyword.iskeyword(part) for part in type_text.split("."))
        seen = {}

        @stub
        def field_new(interp_, args, kwargs):
            return Obj(model.cls("cutplace.fields.TextFieldFormat"), {}, label="field")

        @stub
        def field_init(interp_, args, kwargs):
            field = args[0]
            seen["init"] = list(args[1:])
            if construction == "InterfaceError":
                interp_.raise_("cutplace.errors.InterfaceError", "broken rule")

            @stub
            def validated(interp2, args2, kwargs2):
                seen["validated"] = args2[0]
                if format_name == "fixed" and lower is None:
                    # summary of AbstractFieldFormat.validate_length: in the fixed format it compares len(value) with
                    # length.lower_limit - a field whose length has not passed the fixed-length ladder cannot validate
                    interp2.raise_("builtins.TypeError", "'>' not supported between instances of 'int' and 'NoneType'")
                if args2[0] == "bad":
                    interp2.raise_("cutplace.errors.FieldValueError", "bad example")
                return args2[0]

            field.attrs.update({"_field_name": args[1], "_example": None, "validated": validated,
                                "_length": Obj(model.cls("cutplace.ranges.Range"), {"_items": items, "_lower_limit": lower, "_upper_limit": upper})})

        def real_tokens(interp_, args, kwargs):
            # summary of _tools.generated_tokens for a concrete text: the tokens CPython yields, without the NEWLINE it adds
            import io as _io
            import tokenize as _tokenize

            if not isinstance(args[0], str):
                raise Undecided("tokens of %r" % (args[0],))
            try:
                tokens = [tuple(item) for item in _tokenize.generate_tokens(_io.StringIO(args[0]).readline)]
            except (_tokenize.TokenError, SyntaxError) as error:
                interp_.raise_("tokenize.TokenError", str(error))
            if len(tokens) >= 2 and tokens[-2][0] in (_token.NEWLINE, _token.NL) and tokens[-1][0] == _token.ENDMARKER:
                del tokens[-2]
            return AbsIter(lambda index: tokens[index] if index < len(tokens) else AbsIter.STOP, "tokens")

        stubs = {
            "cutplace._tools.generated_tokens": stub(real_tokens),
            CID + "._create_field_format_class": stub(lambda i, a, k: ClassRef(model.cls("cutplace.fields.TextFieldFormat"))),
            "cutplace.fields.TextFieldFormat.__new__": field_new, _init_of(model, "cutplace.fields.TextFieldFormat"): field_init,
        }
        interp = Interp(model, ch, stubs=stubs, externals={"keyword.iskeyword": lambda i, a, k: keyword.iskeyword(a[0])})
        interp.externals["logging.getLogger"] = lambda i, a, k: Obj("logging.Logger", {"debug": stub(lambda i2, a2, k2: None)})
        world = World(model, interp, ch)
        cid = _new_cid(interp, model)
        cid.attrs["_data_format"] = world.data_format(format_name)
        cid.attrs["_location"] = world.location(line=7)
        if duplicate:
            cid.attrs["_field_name_to_format_map"]["name"] = "earlier"
            cid.attrs["_field_names"].append("name")
            cid.attrs["_field_formats"].append("earlier")
            cid.attrs["_field_name_to_index_map"]["name"] = 0
        try:
            interp.call_function(model.func(CID + ".add_field_format_row"), [cid, ["name", example, mark, "LENGTH", type_text, "RULE"]], {}, None)
            outcome = "accepted"
        except AbsRaise as raised:
            outcome = "raise " + exc_name(raised.value)
            if exc_name(raised.value) == "InterfaceError":
                location = raised.value.attrs.get("_location")
                if not isinstance(location, Obj) or location.attrs.get("_line") != 7:
                    outcome += " without the row's location"
        key = "format=%s mark=%r length=%s example=%r duplicate=%s construction=%s" % (format_name, mark, length_shape, example, duplicate, construction)
        if type_text:
            key += " type=%r" % type_text
        if mode == "errors":
            # C10: whatever the cells of a field row, it is accepted or refused with InterfaceError - nothing else
            actual = outcome if not (outcome == "accepted" or outcome.startswith("raise InterfaceError")) else "accepted-or-InterfaceError"
            return (key, actual, "accepted-or-InterfaceError")
        mark_ok = mark.strip().lower() in ("", "x")
        if format_name == "fixed":
            length_ok = items is not None and lower == upper and lower is not None and lower >= 1
        else:
            # no part of the length may have a negative limit (not only the overall limits, which an open part hides)
            length_ok = items is None or all((low is None or low >= 0) and (high is None or high >= 0) for low, high in items)
        accepted = not duplicate and mark_ok and construction == "ok" and length_ok and example != "bad" and type_ok
        if not accepted:
            return (key, outcome, "raise InterfaceError")
        if outcome != "accepted":
            return (key, outcome, "accepted")
        problems = []
        init = seen.get("init")
        if not init or init[0] != "name" or init[1] is not (mark.strip().lower() == "x") or init[2] != "LENGTH" or init[3] != "RULE":
            problems.append("constructor received %r" % (init,))
        if example and seen.get("validated") != example:
            problems.append("example %r was not validated by the field" % example)
        if cid.attrs["_field_names"][-1:] != ["name"]:
            problems.append("field not registered")
        return (key, "; ".join(problems) if problems else "accepted", "accepted")

    decide(ctx, rule, "add_field_format_row(mark, length ladder, example, duplicates)" + ("" if mode == "values" else "[errors]"),
           CID + ".add_field_format_row", cell, min_cells=500, max_report=8)


# ------------------------------------------------------------------------------------------------- O9.6c
def rule_check_row(ctx):
    """
    Check rows: a non-empty unique description, a known type (type + 'Check' in the class map), the rule handed to the
    check's constructor together with the declared field names and the row's location; empty cells between description
    and type are tolerated; every refusal is an InterfaceError located at the row.
    """
    model = ctx.model
    ctx.res.minimum("O9.6c", 1)

    def cell(ch):
        description = ch.choose("description", ["must be unique", ""])
        check_type = ch.choose("type", ["IsUnique", "isunique", "Unknown", "", "IsUnique ", " IsUnique"])
        rule_text = ch.choose("rule", ["a, b", " a, b ", "a, b "])
        padding = ch.choose("empty cells before the type", [0, 1, 2])
        duplicate = ch.choose("description used before", [False, True])
        construction = ch.choose("construction", ["ok", "InterfaceError"])
        seen = {}

        @stub
        def check_new(interp_, args, kwargs):
            return Obj(model.cls("cutplace.checks.IsUniqueCheck"), {}, label="check")

        @stub
        def check_init(interp_, args, kwargs):
            seen["init"] = list(args[1:])
            if construction == "InterfaceError":
                interp_.raise_("cutplace.errors.InterfaceError", "broken rule", args[4])
            args[0].attrs.update({"_description": args[1], "_location": args[4]})

        stubs = {
            CID + "._create_check_class": stub(lambda i, a, k: ClassRef(model.cls("cutplace.checks.IsUniqueCheck"))),
            "cutplace.checks.IsUniqueCheck.__new__": check_new, _init_of(model, "cutplace.checks.IsUniqueCheck"): check_init,
        }
        interp = Interp(model, ch, stubs=stubs)
        interp.externals["logging.getLogger"] = lambda i, a, k: Obj("logging.Logger", {"debug": stub(lambda i2, a2, k2: None)})
        world = World(model, interp, ch)
        cid = _new_cid(interp, model)
        location = world.location(line=9)
        cid.attrs["_location"] = location
        cid.attrs["_field_names"].extend(["a", "b"])
        earlier = Obj(model.cls("cutplace.checks.IsUniqueCheck"), {"_description": description, "_location": world.location(line=2)})
        if duplicate and description:
            cid.attrs["_check_name_to_check_map"][description] = earlier
            cid.attrs["_check_names"].append(description)
        items = [description] + [""] * padding + [check_type, rule_text]
        try:
            interp.call_function(model.func(CID + ".add_check_row"), [cid, (items + [""] * 6)[:6]], {}, None)
            outcome = "accepted"
        except AbsRaise as raised:
            outcome = "raise " + exc_name(raised.value)
            if exc_name(raised.value) == "InterfaceError":
                error_location = raised.value.attrs.get("_location")
                if not isinstance(error_location, Obj) or error_location.attrs.get("_line") != 9:
                    outcome += " without the row's location"
        key = "description=%r type=%r rule=%r padding=%d duplicate=%s construction=%s" % (description, check_type, rule_text, padding, duplicate, construction)
        # surrounding blanks in the cells of a row do not change its meaning (as in field rows)
        accepted = bool(description) and check_type.strip() == "IsUnique" and not duplicate and construction == "ok"
        if not accepted:
            return (key, outcome, "raise InterfaceError")
        if outcome != "accepted":
            return (key, outcome, "accepted")
        init = seen.get("init")
        problems = []
        if not init or init[0] != description or init[1] != "a, b" or init[2] is not cid.attrs["_field_names"] or init[3] is not location:
            # (the rule reaches the check without the blanks around the cell: a leading blank is an INDENT token)
            problems.append("constructor received %r" % (init,))
        if cid.attrs["_check_names"][-1:] != [description] or description not in cid.attrs["_check_name_to_check_map"]:
            problems.append("check not registered in declaration order")
        return (key, "; ".join(problems) if problems else "accepted", "accepted")

    decide(ctx, "O9.6c", "add_check_row(description, type, padding, duplicates)", CID + ".add_check_row", cell, min_cells=200)


# ------------------------------------------------------------------------------------------------- O9.7
def rule_is_unique_rule(ctx):
    model = ctx.model
    ctx.res.minimum("O9.7", 1)
    max_tokens = 6 if ctx.thorough else 5

    def cell(ch):
        produced = []

        def produce(index):
            if produced and produced[-1] == "END":
                return AbsIter.STOP
            # "b~": the name b with white space the 3.12 tokenizer folds into the NAME token (a no-break space after a comma)
            options = ["a", "b", "b~", "unknown", "COMMA", "OTHER", "NUMBER", "END"] if len(produced) < max_tokens else ["END"]
            kind = ch.choose(("token", index), options)
            produced.append(kind)
            if kind == "b~":
                return (NAME, "\u00a0b", (1, index), (1, index + 2), "")
            if kind in ("a", "b", "unknown"):
                return (NAME, kind, (1, index), (1, index + 1), "")
            if kind == "COMMA":
                return (OP, ",", (1, index), (1, index + 1), "")
            if kind == "OTHER":
                return (OP, ";", (1, index), (1, index + 1), "")
            if kind == "NUMBER":
                return (NUMBER, "1", (1, index), (1, index + 1), "")
            return (END, "", (1, index), (1, index), "")

        interp = Interp(model, ch, stubs={"cutplace._tools.generated_tokens": stub(lambda i, a, k: AbsIter(produce, "tokens"))})
        world = World(model, interp, ch)
        check = Obj(model.cls("cutplace.checks.IsUniqueCheck"), {})
        try:
            interp.call_function(model.func("cutplace.checks.IsUniqueCheck.__init__"), [check, "unique", "RULE", ["a", "b"], world.location()], {}, None)
            outcome = ("fields", check.attrs.get("_field_names_to_check"))
        except AbsRaise as raised:
            outcome = "raise " + exc_name(raised.value)
        if not produced or produced[-1] != "END":
            if outcome == "raise InterfaceError":
                return None
            return (" ".join(produced), "stopped reading the rule early: %r" % (outcome,), "reads every token")
        names = []
        ok = True
        expect_name = True
        for kind in produced[:-1]:
            kind = "b" if kind == "b~" else kind  # white space around a name is no part of it
            if expect_name:
                if kind in ("a", "b") and kind not in names:
                    names.append(kind)
                    expect_name = False
                else:
                    ok = False
                    break
            else:
                if kind == "COMMA":
                    expect_name = True
                else:
                    ok = False
                    break
        if ok and (not names or expect_name):
            # empty rule or trailing comma
            ok = bool(names) and not expect_name
        expected = ("fields", names) if ok else "raise InterfaceError"
        if not ok and outcome != "raise InterfaceError" and produced[:-1] and produced[-2] == "COMMA" and names and all(
                kind in ("a", "b", "b~", "COMMA") for kind in produced[:-1]):
            # a trailing comma after valid names: the statement only requires a rule "naming only declared fields"
            return (" ".join(produced), outcome, outcome)
        return (" ".join(produced), outcome, expected)

    decide(ctx, "O9.7", "IsUnique rule automaton", "cutplace.checks.IsUniqueCheck.__init__", cell, min_cells=8, key_name="IsUnique rule")


# ------------------------------------------------------------------------------------------------- O9.7b
def rule_distinct_count_rule(ctx):
    """DistinctCount rule: starts with a declared field name on its first line, the rest must evaluate to a boolean."""
    model = ctx.model
    ctx.res.minimum("O9.7b", 1)
    qualname = "cutplace.checks.DistinctCountCheck.__init__"

    def cell(ch):
        first = ch.choose("first token", ["declared name", "unknown name", "number", "operator", "end"])
        end_line = ch.choose("line where the name ends", [1, 2]) if first in ("declared name", "unknown name") else 1
        evaluation = ch.choose("expression", ["True", "False", "number", "raises"]) if first == "declared name" and end_line == 1 else "True"
        token_of = {"declared name": (NAME, "b"), "unknown name": (NAME, "zz"), "number": (NUMBER, "1"), "operator": (OP, ">"), "end": (END, "")}
        type_code, text = token_of[first]
        sequence = [(type_code, text, (end_line, 0), (end_line, len(text)), ""), (END, "", (end_line, 9), (end_line, 9), "")]

        def eval_hook(interp_, args, kwargs):
            if evaluation == "raises":
                interp_.raise_("builtins.SyntaxError", "invalid syntax")
            return {"True": True, "False": False, "number": 3}[evaluation]

        interp = Interp(model, ch, stubs={"cutplace._tools.generated_tokens": stub(lambda i, a, k: AbsIter(
            lambda index: sequence[index] if index < len(sequence) else AbsIter.STOP, "tokens"))}, externals={"builtins.eval": eval_hook})
        world = World(model, interp, ch)
        check = Obj(model.cls("cutplace.checks.DistinctCountCheck"), {})
        try:
            interp.call_function(model.func(qualname), [check, "distinct", "b >= 2", ["a", "b"], world.location()], {}, None)
            outcome = ("accepted", check.attrs.get("_field_name_to_count"), check.attrs.get("_expression"))
        except AbsRaise as raised:
            outcome = "raise " + exc_name(raised.value)
        ok = first == "declared name" and end_line == 1 and evaluation in ("True", "False")
        expected = ("accepted", "b", "count >= 2") if ok else "raise InterfaceError"
        return ("first=%s line=%d expression=%s" % (first, end_line, evaluation), outcome, expected)

    decide(ctx, "O9.7b", "DistinctCount rule", qualname, cell, min_cells=10)


DISTINCT_COUNT_RULES = [
    # (rule text, column where the field name ends, accepted?)
    ("b >= 2", 1, True), ("b<3", 1, True), ("b == 1", 1, True), ("b >= 2 and b <= 5", 1, False),
    # the test evaluation (count = 0) never reaches the undeclared name: "a rule naming only declared fields"
    ("b < 1 or no_such_field > 3", 1, False), ("b > 0 and no_such_field < 5", 1, False), ("b >= 0 or zz", 1, False),
    ("b if True else nothing", 1, False),
    # ... also when the name hides in a nested scope (a lambda, a comprehension): its names are in a nested code object
    ("b < 1 or (lambda: nope)()", 1, False), ("b >= 0 or [nope for _ in ()]", 1, False),
    # a result that is no truth value is refused whatever it is - also a number too long to be shown (int -> str limit)
    ("b + 10 ** 5000", 1, False),
    # names of builtins are no fields either; called, they can end the process (SystemExit is no Exception)
    ("b < exit()", 1, False), ("b >= 0 or quit()", 1, False), ("b < len(nothing)", 1, False),
]


def rule_distinct_count_names(ctx, rule_id="O9.7c"):
    """DistinctCount: "a rule naming only declared fields" - apart from the counted field the expression refers to no name
    at all (no other field, no undeclared name hidden behind a short-circuit, no builtin).  The constructor is interpreted
    on concrete rule texts; eval / compile are the real ones on a name space with stand-ins for exit() / quit()."""
    import tokenize as _tokenize

    model = ctx.model
    ctx.res.minimum(rule_id, 1)
    qualname = "cutplace.checks.DistinctCountCheck.__init__"

    class _ProcessExit(BaseException):
        pass

    def _exit(*args):
        raise _ProcessExit()

    def run_native(interp_, function, args):
        try:
            return function(*args)
        except _ProcessExit:
            interp_.raise_("builtins.SystemExit")
        except Exception as error:  # what the real call raises is what the analysed code has to deal with
            interp_.raise_("builtins." + type(error).__name__, str(error))

    def environment(globs):
        env = dict(globs) if isinstance(globs, dict) else {}
        if "__builtins__" not in env:
            env["__builtins__"] = {"exit": _exit, "quit": _exit, "len": len, "abs": abs, "True": True, "False": False}
        return env

    def eval_hook(interp_, args, kwargs):
        expression = args[0]
        globs = args[1] if len(args) > 1 else {}
        locs = args[2] if len(args) > 2 else {}
        if not isinstance(expression, (str, type(compile("0", "<x>", "eval")))) or not isinstance(locs, dict):
            raise Undecided("eval%r" % (args,))
        return run_native(interp_, eval, [expression, environment(globs), dict(locs)])

    def compile_hook(interp_, args, kwargs):
        if not all(isinstance(argument, str) for argument in args[:3]):
            raise Undecided("compile%r" % (args,))
        return run_native(interp_, compile, list(args[:3]))

    def getattr_hook(interp_, args, kwargs):
        value, name = args
        if isinstance(value, type(compile("0", "<x>", "eval"))) and name.startswith("co_"):
            return getattr(value, name)
        raise Undecided("attribute %s of %r" % (name, value))

    def cell(ch):
        rule, name_end, acceptable = ch.choose("rule", DISTINCT_COUNT_RULES)
        import io as _io

        tokens = [tuple(token) for token in _tokenize.generate_tokens(_io.StringIO(rule).readline)]
        interp = Interp(model, ch, stubs={"cutplace._tools.generated_tokens": stub(lambda i, a, k: AbsIter(
            lambda index: tokens[index] if index < len(tokens) else AbsIter.STOP, "tokens"))},
            externals={"builtins.eval": eval_hook, "builtins.compile": compile_hook, "getattr": getattr_hook})
        world = World(model, interp, ch)
        check = Obj(model.cls("cutplace.checks.DistinctCountCheck"), {})
        try:
            interp.call_function(model.func(qualname), [check, "distinct", rule, ["a", "b"], world.location()], {}, None)
            outcome = "accepted"
        except AbsRaise as raised:
            outcome = "raise " + exc_name(raised.value)
        if rule == "b >= 2 and b <= 5":
            # the counted field named twice: refusing it is what "field <comparison> n" suggests, accepting it would need b
            # to be known to the evaluation; today it is an InterfaceError (unknown name b) - either way no other exception
            return (rule, "accepted or InterfaceError" if outcome in ("accepted", "raise InterfaceError") else outcome, "accepted or InterfaceError")
        return (rule, outcome, "accepted" if acceptable else "raise InterfaceError")

    decide(ctx, rule_id, "DistinctCount rule: names besides the counted field", qualname, cell, min_cells=len(DISTINCT_COUNT_RULES))


def rule_malformed_ranges_are_refused(ctx, rule_id="O9.12"):
    """O9.12: "a well-formed length and rule": lengths, Integer / Decimal rules and allowed characters are read by the
    Range / DecimalRange constructors; a description that is not a list of items with at most two limits around one
    ellipsis (``1...5...``, ``1......5``) or that holds no item at all (``,``) is an InterfaceError - decided on every
    token sequence up to the bound (C01's constructor table in refusal mode)."""
    from .c01 import DECIMAL_RANGE, RANGE, constructor_table

    ctx.res.minimum(rule_id, 2)
    bound = 6 if ctx.thorough else 5
    constructor_table(ctx, rule_id, RANGE, bound, mode="refusal")
    constructor_table(ctx, rule_id, DECIMAL_RANGE, bound, mode="refusal")


def rule_property_values_with_blanks(ctx):
    """O9.13: "surrounding blanks" are a meaning-preserving rewrite: every valid value of every data format property is the
    same value with blanks before or after it (C11's set_property table, which writes each valid value three ways)."""
    from .c11 import rule_set_property

    ctx.res.minimum("O9.13", 1)
    rule_set_property(ctx, rule="O9.13")


# ------------------------------------------------------------------------------------------------- O9.5
def rule_located_errors(ctx):
    """Every raise of InterfaceError reachable from Cid.read has a location or is wrapped by the field-construction handler."""
    from ..escape import CallGraph

    model = ctx.model
    ctx.res.minimum("O9.5", 60)
    graph = CallGraph(model)
    read = model.func(CID + ".read")
    row = model.func(CID + ".add_field_format_row")
    # calls inside the try of add_field_format_row whose handler adds the row's location to an unlocated InterfaceError
    wrapped_calls = set()
    wrapper_ok = False
    for node in walk_own(row.node):
        if isinstance(node, ast.Try):
            for handler in node.handlers:
                handler_class = dotted(handler.type) if handler.type is not None else None
                resolved = model.resolve_dotted(row.module, handler_class) if handler_class else None
                # (that this handler gives an unlocated error the row's location is decided by the field-row table O9.6:
                # its "construction=InterfaceError" cells raise an unlocated error from the constructor)
                if resolved is not None and getattr(resolved, "qualname", None) in ("cutplace.errors.InterfaceError", "cutplace.errors.CutplaceError"):
                    wrapper_ok = True
                    for inner in node.body:
                        for call in ast.walk(inner):
                            if isinstance(call, ast.Call):
                                wrapped_calls.add(id(call))
    if not wrapper_ok:
        ctx.res.fail("O9.5", "field construction wrapper adds the row's location", "interface.Cid.add_field_format_row:O9.5:wrapper",
                     where_of(model, row.qualname), "no handler around field construction that gives an unlocated InterfaceError the row's location")
        return
    # reachability without passing through the wrapped calls
    def reach(skip=()):
        found = set()
        stack = [read]
        while stack:
            func = stack.pop()
            if func.qualname in found or func.qualname in skip:
                continue
            found.add(func.qualname)
            for node in walk_own(func.node):
                if isinstance(node, ast.Call) and id(node) not in wrapped_calls:
                    for target in graph.resolve_call(func, node):
                        if hasattr(target, "qualname"):
                            stack.append(target)
                elif isinstance(node, ast.Attribute) and isinstance(node.ctx, ast.Store):
                    stack.extend(graph.property_setters(node.attr))
            for other in model.functions.values():
                if other.parent is func:
                    stack.append(other)
        return found

    seen = reach()
    # what is only reached through DataFormat.validate (called once, after the last row) checks the data format as a
    # whole: a contradiction between two property rows has no single row to name
    completion = "cutplace.data.DataFormat.validate"
    only_at_completion = seen - reach(skip=(completion,))
    exempt = {qualname: "contradiction between property rows found when the CID is completed: no single row to name"
              for qualname in only_at_completion}
    for qualname in sorted(seen):
        func = model.functions[qualname]
        for node in walk_own(func.node):
            if not (isinstance(node, ast.Raise) and isinstance(node.exc, ast.Call) and ast.unparse(node.exc.func).endswith("InterfaceError")):
                continue
            call = node.exc
            location = call.args[1] if len(call.args) >= 2 else next((k.value for k in call.keywords if k.arg == "location"), None)
            what = "%s:%d raise InterfaceError carries a location" % (qualname.replace("cutplace.", ""), node.lineno)
            # the whole text of the caught error (str(error), "%s" % error) contains its location; a part of it
            # (error.message, error.args[0]) does not
            embeds_located = False
            if call.args:
                partial = {id(n.value) for n in ast.walk(call.args[0]) if isinstance(n, (ast.Attribute, ast.Subscript))}
                caught = {h.name for h in walk_own(func.node) if isinstance(h, ast.ExceptHandler) and h.name}
                embeds_located = any(isinstance(n, ast.Name) and n.id in caught and id(n) not in partial for n in ast.walk(call.args[0]))
            if location is not None and not (isinstance(location, ast.Constant) and location.value is None):
                text = ast.unparse(location)
                if isinstance(location, ast.Constant):
                    ctx.res.fail("O9.5", what, "%s:O9.5:%s" % (qualname.replace("cutplace.", ""), ast.unparse(call.args[0])[:50]),
                                 "%s (%s)" % (func.loc(node), qualname.replace("cutplace.", "")), "location argument is the constant %s" % text)
                else:
                    ctx.res.ok("O9.5", what + " (%s)" % text, True)
            elif qualname in exempt:
                ctx.res.ok("O9.5", what + " (exempt: %s)" % exempt[qualname], True)
            elif embeds_located:
                ctx.res.ok("O9.5", what + " (embeds the text of a located error)", True)
            else:
                ctx.res.fail("O9.5", what, "%s:O9.5:%s" % (qualname.replace("cutplace.", ""), ast.unparse(call.args[0])[:50] if call.args else "?"),
                             "%s (%s)" % (func.loc(node), qualname.replace("cutplace.", "")),
                             "InterfaceError raised without a location on a path from Cid.read that no handler completes: the rejection does not name the offending row")


from .common import rule_module_state  # noqa: E402

def rule_known_types(ctx):
    """O9.9: "a known type" - every documented field and check type is registered (C20's rule on the class maps)."""
    from .c20 import rule_builtin_types_are_registered

    ctx.res.minimum("O9.9", 10)
    rule_builtin_types_are_registered(ctx, "O9.9")


def rule_overlapping_items(ctx):
    """O9.10: "a well-formed length and rule" - overlapping items are refused whichever comes first (C01's table of
    Range._items_overlap)."""
    from .c01 import items_overlap_table

    items_overlap_table(ctx, "O9.10")


RULES = [rule_row_dispatch, rule_row_order, rule_field_names, rule_field_row, rule_check_row, rule_is_unique_rule, rule_distinct_count_rule, rule_distinct_count_names, rule_malformed_ranges_are_refused, rule_property_values_with_blanks, rule_located_errors, rule_known_types, rule_overlapping_items, rule_module_state]
