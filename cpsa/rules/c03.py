"""
C03 - empty, length and allowed-character guards hold for every field type.
"""
import ast

from ..absint import AbsRaise, AText, Atom, Interp, Obj, Opaque, Sym, Undecided, exc_name
from ..model import dotted, walk_own
from ..tablekit import decide, stub, where_of

EXPLANATION = (
    "Static decision of C03: (O3.1) no field format class of the repository (8 built-in types and the shipped example "
    "plugin) overrides the guard template AbstractFieldFormat.validated / validate_characters / validate_empty / "
    "validate_length; (O3.2) that template is interpreted from source over the abstract cell domain {EMPTY, BLANKS, TEXT "
    "with/without padding} x format {fixed, delimited, excel, ods} x allowed-to-be-empty x per-character verdicts of the "
    "allowed-characters range x length verdict (fixed: every ordering of len and width) x outcome of the type hook, and "
    "every cell is compared with the statement of the property; (O3.3/O3.4) no subclass re-assigns the guard state set by "
    "the base constructor and each forwards its empty flag and length text unchanged; (O3.5) validate_characters visits "
    "every character. The per-type value hooks are C02's."
    " Added in rounds 6 and 7: (O3.4) each type's empty value ('' for the text types, None for the converted ones)"
    " after every constructor. (O3.8) an Excel cell holding 0 or FALSE reaches the guards as the text 0, not as an"
    " empty cell (C16's table). A fixed cell of blanks and other white space is a non-empty cell: it is guarded"
    " and handed to the type without its surrounding blanks only."
    " Added in round 10: (O3.7) the row table hands the checks the cells, not the typed values the fields"
    " return."
)
ASSUMPTIONS = [
    "Range.validate decides membership correctly (C01)",
    "a fixed-width cell longer than its declared width cannot be produced by the fixed reader (C13); such cells are not compared",
]

BASE = "cutplace.fields.AbstractFieldFormat"
GUARD_METHODS = ("validated", "validate_characters", "validate_empty", "validate_length")
GUARD_STATE = ("_length", "_is_allowed_to_be_empty", "_empty_value", "_data_format")


def field_classes(model):
    return model.subclasses(model.cls(BASE))


def rule_template_integrity(ctx):
    model = ctx.model
    classes = field_classes(model)
    ctx.res.minimum("O3.1", 9)
    for cls in classes:
        overridden = [name for name in GUARD_METHODS if name in cls.methods]
        what = "%s inherits the guard template unchanged" % cls.name
        if overridden:
            ctx.res.fail("O3.1", what, "%s:O3.1:%s" % (cls.qualname.replace("cutplace.", ""), ",".join(overridden)),
                         "%s:%d (%s)" % (cls.module.relpath, cls.node.lineno, cls.name),
                         "%s overrides %s: the empty/length/character guards can be bypassed for this type" % (cls.name, ", ".join(overridden)))
        else:
            ctx.res.ok("O3.1", what, True)


class Char:
    def __init__(self, blank, allowed, label):
        self.blank = blank
        self.allowed = allowed
        self.label = label
        self.code = Sym("code(%s)" % label)  # what ord() gives: a number known through its order to the allowed limits
        self.code.char = self

    def __repr__(self):
        return self.label


CELL_SHAPES = {
    # name: (kind, [characters as (blank?, position label)])
    "EMPTY": (AText.EMPTY, []),
    "BLANKS": (AText.BLANKS, ["blank"]),
    "BLANKS2": (AText.BLANKS, ["blank", "blank"]),
    "TEXT": (AText.TEXT, ["char"]),
    "TEXT2": (AText.TEXT, ["char", "char"]),
    "PADDED": (AText.TEXT, ["blank", "char", "blank"]),
    # other white space (a tab, a form feed, a no-break space) between blanks: str.strip() removes it, but it is no blank
    "BLANK-TAB-BLANK": (AText.BLANKS, ["blank", "tab", "blank"]),
}


def validated_run(model, ch, cls_qualname=BASE):
    interp = Interp(model, ch)
    format_name = ch.choose("format", ["fixed", "delimited", "excel", "ods"])
    allowed_empty = ch.choose("empty allowed", [False, True])
    shape = ch.choose("cell", list(CELL_SHAPES))
    kind, char_kinds = CELL_SHAPES[shape]
    has_allowed_characters = ch.choose("allowed characters", ["none", "range"])
    chars = []
    # the allowed characters are a range of two items with a gap, a0..b0 and a1..b1: a character that is not allowed lies
    # below, above or IN THE GAP (so comparing with the overall limits only is not enough)
    limits = [Sym("a0"), Sym("b0"), Sym("a1"), Sym("b1")]
    if has_allowed_characters == "range":
        interp.order.declare(("s", "a0"), "<=", ("s", "b0"))
        interp.order.declare(("s", "b0"), "<", ("s", "a1"))
        interp.order.declare(("s", "a1"), "<=", ("s", "b1"))
    for index, char_kind in enumerate(char_kinds):
        allowed = True
        label = "%s%d" % (char_kind, index)
        char = Char(char_kind == "blank", True, label)
        char.whitespace = char_kind == "tab"
        if has_allowed_characters == "range":
            allowed = ch.choose(("character %d allowed" % index), [True, False])
            code = ("s", char.code.key())
            if allowed:
                interp.order.declare(("s", "a0"), "<=", code)
                interp.order.declare(code, "<=", ("s", "b0"))
            else:
                place = ch.choose(("character %d lies" % index), ["below", "in the gap", "above"])
                if place == "below":
                    interp.order.declare(code, "<", ("s", "a0"))
                elif place == "above":
                    interp.order.declare(code, ">", ("s", "b1"))
                else:
                    interp.order.declare(code, ">", ("s", "b0"))
                    interp.order.declare(code, "<", ("s", "a1"))
        char.allowed = allowed
        chars.append(char)
    value = AText(kind, "cell", chars=chars)
    events = interp.events

    @stub
    def allowed_validate(interp_, args, kwargs):
        name, code = args[0], args[1]
        char = getattr(code, "char", None)
        interp_.event("character-check", char.label if char is not None else repr(code), None)
        if char is None:
            raise Undecided("allowed characters asked about %r" % (code,))
        if not char.allowed:
            interp_.raise_("cutplace.errors.RangeValueError", Opaque("str", True, ["<character not allowed>"]))

    allowed_range = None
    if has_allowed_characters == "range":
        allowed_range = Obj(model.cls("cutplace.ranges.Range"), {
            "validate": allowed_validate, "_items": [(limits[0], limits[1]), (limits[2], limits[3])], "_lower_limit": limits[0],
            "_upper_limit": limits[3], "_description": "allowed characters"}, label="allowed_characters")

    length_verdict = {}

    @stub
    def length_validate(interp_, args, kwargs):
        measured = args[1]
        verdict = ch.choose(("length verdict", len(events)), ["inside", "outside"])
        interp_.event("length-check", repr(measured), verdict)
        length_verdict["measured"] = measured
        length_verdict["verdict"] = verdict
        if verdict == "outside":
            interp_.raise_("cutplace.errors.RangeValueError", Opaque("str", True, ["<length outside>"]))

    width = Sym("width")
    length = Obj(model.cls("cutplace.ranges.Range"), {"validate": length_validate, "_lower_limit": width, "_upper_limit": width,
                                                      "_items": [(width, width)]}, label="length")
    native = Atom("native", "native")
    empty_value = Atom("empty_value", "empty_value")

    @stub
    def hook(interp_, args, kwargs):
        (argument,) = args
        outcome = ch.choose(("hook", len(events)), ["returns", "FieldValueError"])
        interp_.event("validated_value", argument, outcome)
        if outcome == "FieldValueError":
            interp_.raise_("cutplace.errors.FieldValueError", Opaque("str", True, ["<rule>"]))
        return native

    from ..absint import ClassRef
    from ..world import World

    world = World(model, interp, ch)
    # "D,Allowed characters,..." may stand before or after the field rows of a CID: the guard must use the data
    # format's range as it is when the cell is validated
    declared = ch.choose("allowed characters declared", ["before the field", "after the field"]) if has_allowed_characters == "range" else "before the field"
    data_format = world.data_format(format_name, _allowed_characters=allowed_range if declared == "before the field" else None)
    interp.stubs["cutplace.ranges.Range"] = stub(lambda i, a, k: length)
    field = interp.instantiate(ClassRef(model.cls(cls_qualname)), ["f0", allowed_empty, "LENGTH", "", data_format], {"empty_value": empty_value})
    data_format.attrs["_allowed_characters"] = allowed_range
    field.attrs["validated_value"] = hook

    def ord_hook(interp_, args, kwargs):
        return args[0].code if isinstance(args[0], Char) else (_ for _ in ()).throw(Undecided("ord(%r)" % (args[0],)))

    interp.externals["ord"] = ord_hook
    interp.externals["text_len"] = lambda i, a, k: len(a[0].chars)
    try:
        result = interp.call_function(model.func(BASE + ".validated"), [field, value], {}, None)
        outcome = ("return", result)
    except AbsRaise as raised:
        outcome = ("raise", raised.value)
    return {"interp": interp, "format": format_name, "allowed_empty": allowed_empty, "shape": shape, "kind": kind, "chars": chars,
            "value": value, "outcome": outcome, "width": width, "native": native, "empty_value": empty_value,
            "has_allowed_characters": has_allowed_characters, "length_verdict": length_verdict, "declared": declared}


def validated_oracle(run):
    """The statement of C03 (and the hook clause of C20) over one abstract cell."""
    interp = run["interp"]
    outcome = run["outcome"]
    hook_calls = [event for event in interp.events if event[0] == "validated_value"]
    fixed = run["format"] == "fixed"

    def verdict_is(expected):
        if expected == "FieldValueError":
            if outcome[0] != "raise":
                return "accepted (returned %r), expected FieldValueError" % (outcome[1],)
            if exc_name(outcome[1]) != "FieldValueError":
                return "raised %s, expected FieldValueError" % exc_name(outcome[1])
            return None
        if outcome[0] == "raise":
            return "raised %s, expected %s" % (exc_name(outcome[1]), expected)
        if expected == "empty_value" and outcome[1] is not run["empty_value"]:
            return "returned %r, expected the empty value" % (outcome[1],)
        if expected == "native" and outcome[1] is not run["native"]:
            return "returned %r, expected the hook's result" % (outcome[1],)
        return None

    # 1. logically empty cell (fixed-width data: a cell consisting only of blanks) - decided before anything else: the
    #    character guard is stated for NON-EMPTY cells, so a blank fixed cell is empty even if the blank is not among the
    #    allowed characters
    only_blanks = all(char.blank for char in run["chars"])
    logically_empty = run["kind"] == AText.EMPTY or (fixed and only_blanks)
    length = len(run["chars"])
    # blanks and other white space (a tab between blanks): not "a cell consisting only of blanks", so it is a non-empty
    # cell like any other - the guards apply and, if they pass, the value hook decides (str.strip() without argument would
    # make it empty)
    if fixed and length > 0:
        over_width = interp.order.sign(("c", length), ("s", run["width"].key())) > 0
    else:
        over_width = False
    if logically_empty:
        if fixed and over_width:
            return "conforms"  # not compared: blanks wider than the field cannot come from the fixed reader
        if run["allowed_empty"]:
            problem = verdict_is("empty_value")
        else:
            problem = verdict_is("FieldValueError")
        if problem:
            return "empty cell (allowed to be empty: %s): %s" % (run["allowed_empty"], problem)
        if hook_calls:
            return "empty cell reached the value hook"
        return "conforms"
    # 2. a disallowed character anywhere in a non-empty cell rejects it, whatever type and rule say
    if any(not char.allowed for char in run["chars"]):
        problem = verdict_is("FieldValueError")
        if problem:
            return "cell with a disallowed character: " + problem
        if hook_calls:
            return "cell with a disallowed character reached the value hook"
        return "conforms"
    # 3. non-empty cell: length
    if fixed:
        outside = over_width
    else:
        verdict = run["length_verdict"].get("verdict")
        if verdict is None:
            return "length of a non-empty cell was never checked against the declared length"
        if run["length_verdict"].get("measured") != length:
            return "length check measured %r instead of the cell's %d characters" % (run["length_verdict"].get("measured"), length)
        outside = verdict == "outside"
    if outside:
        problem = verdict_is("FieldValueError")
        if problem:
            return "non-empty cell outside the declared length: " + problem
        if hook_calls:
            return "cell outside the declared length reached the value hook"
        return "conforms"
    # 4. the hook decides, exactly once, on the (fixed: stripped) cell
    if len(hook_calls) != 1:
        return "value hook called %d times for a non-empty, allowed, in-length cell" % len(hook_calls)
    argument = hook_calls[0][1]
    if fixed:
        # what is left when the blanks (and only the blanks) around the value are removed
        expected_chars = list(run["chars"])
        while expected_chars and expected_chars[0].blank:
            expected_chars.pop(0)
        while expected_chars and expected_chars[-1].blank:
            expected_chars.pop()
        if not (isinstance(argument, AText) and argument.origin is run["value"] and argument.kind != AText.EMPTY):
            return "fixed format: value hook did not receive the blank-stripped cell"
        if argument.chars is not None and list(argument.chars) != expected_chars:
            return "fixed format: value hook received %r instead of the cell without its surrounding blanks %r" % (argument.chars, expected_chars)
    elif argument is not run["value"]:
        return "value hook did not receive the cell unchanged"
    problem = verdict_is("native" if hook_calls[0][-1] == "returns" else "FieldValueError")
    if problem:
        return "result of the value hook: " + problem
    return "conforms"


def validated_key(run):
    interp = run["interp"]
    facts = ", ".join("%s%s%s" % (a[1], rel, b[1]) for a, rel, b in interp.order.facts)
    marks = "".join("-" if not char.allowed else ("_" if char.blank else "c") for char in run["chars"])
    checks = ",".join("%s:%s" % (event[0], event[-1]) for event in interp.events if event[0] in ("length-check", "validated_value"))
    return "format=%s empty-allowed=%s cell=%s[%s] characters=%s%s order[%s] %s" % (
        run["format"], run["allowed_empty"], run["shape"], marks, run["has_allowed_characters"],
        "(declared after the field)" if run["declared"] != "before the field" else "", facts, checks)


def validated_table(ctx, rule):
    def cell(ch):
        run = validated_run(ctx.model, ch)
        return (validated_key(run), validated_oracle(run), "conforms")

    return decide(ctx, rule, "validated(guards, then hook)", BASE + ".validated", cell, min_cells=300, max_report=8)


def rule_validated(ctx):
    ctx.res.minimum("O3.2", 1)
    validated_table(ctx, "O3.2")


EMPTY_VALUES = {"ChoiceFieldFormat": "", "ConstantFieldFormat": "", "PatternFieldFormat": "", "RegExFieldFormat": "", "TextFieldFormat": "",
                "DateTimeFieldFormat": None, "DecimalFieldFormat": None, "IntegerFieldFormat": None}


def rule_guard_state(ctx):
    """
    O3.3/O3.4: whatever the field type, after its constructor ran the guard state is the declaration's: the length
    range is built from the declared length text, the empty flag and the data format are the ones passed in.  Decided by
    interpreting every field class's own constructor (rule parsing stubbed).  Outside constructors no method of a field
    class assigns the guard attributes.
    """
    import token as _token

    from ..absint import AbsIter, ClassRef
    from ..world import World

    model = ctx.model
    classes = field_classes(model)
    ctx.res.minimum("O3.4", 1)
    ctx.res.minimum("O3.3", 9)
    names = [cls.qualname for cls in classes]

    def cell(ch):
        class_qualname = ch.choose("field class", names)
        flag = ch.choose("empty allowed", [False, True])
        format_name = ch.choose("format", ["delimited", "fixed"])
        cls = model.cls(class_qualname)
        made = []

        @stub
        def range_stub(interp_, args, kwargs):
            obj = Obj(model.cls("cutplace.ranges.Range"), {"_description": args[0] if args else None, "_items": [(2, 2)], "_lower_limit": 2,
                                                          "_upper_limit": 2, "validate": stub(lambda i, a, k: None)}, label="Range(%r)" % (args[0] if args else None,))
            made.append(obj)
            return obj

        @stub
        def decimal_range_stub(interp_, args, kwargs):
            return Obj(model.cls("cutplace.ranges.DecimalRange"), {"_description": args[0] if args else None, "_precision": 2, "_scale": 5,
                                                                  "_items": None}, label="DecimalRange")

        sequence = [(_token.NAME, "ab", (1, 0), (1, 2), "ab"), (_token.ENDMARKER, "", (1, 2), (1, 2), "")]
        stubs = {"cutplace.ranges.Range": range_stub, "cutplace.ranges.DecimalRange": decimal_range_stub,
                 "cutplace.ranges.create_range_from_length": stub(lambda i, a, k: Obj(model.cls("cutplace.ranges.Range"), {"_description": "from length", "_items": [(1, 99)], "_lower_limit": 1, "_upper_limit": 99}, label="from length")),
                 "cutplace._tools.tokenize_without_space": stub(lambda i, a, k: AbsIter(lambda index: sequence[index] if index < len(sequence) else AbsIter.STOP, "tokens")),
                 "cutplace._tools.length_of_int": stub(lambda i, a, k: 2)}
        externals = {"fnmatch.translate": lambda i, a, k: "x", "re.compile": lambda i, a, k: Obj("re.Pattern", {})}
        interp = Interp(model, ch, stubs=stubs, externals=externals)
        world = World(model, interp, ch)
        data_format = world.data_format(format_name)
        rule = {"DateTimeFieldFormat": "DD.MM.YYYY", "ChoiceFieldFormat": "ab", "ConstantFieldFormat": "ab"}.get(cls.name, "")
        key = "%s empty-allowed=%s %s" % (cls.name, flag, format_name)
        try:
            field = interp.instantiate(ClassRef(cls), ["f0", flag, "LENGTH-TEXT", rule, data_format], {})
        except AbsRaise as raised:
            if cls.name == "ConstantFieldFormat" and flag and exc_name(raised.value) == "InterfaceError":
                return None  # a Constant that may be empty is refused by its own rule
            return (key, "constructor raised " + exc_name(raised.value), "conforms")
        problems = []
        length = field.attrs.get("_length")
        if not (isinstance(length, Obj) and length.attrs.get("_description") == "LENGTH-TEXT" and isinstance(length.cls, type(cls))
                and length.cls.qualname == "cutplace.ranges.Range"):
            problems.append("length guard is %r instead of the Range of the declared length" % (length,))
        if field.attrs.get("_is_allowed_to_be_empty") is not flag:
            problems.append("empty flag is %r instead of the declared %r" % (field.attrs.get("_is_allowed_to_be_empty"), flag))
        if field.attrs.get("_data_format") is not data_format:
            problems.append("data format replaced")
        # the type's empty value: types that hand back the cell's text yield the empty text, types that convert the
        # cell (to int, Decimal, time tuple) yield None
        if cls.name in EMPTY_VALUES and field.attrs.get("_empty_value", "<unset>") != EMPTY_VALUES[cls.name] \
                or (cls.name in EMPTY_VALUES and type(field.attrs.get("_empty_value")) is not type(EMPTY_VALUES[cls.name])):
            problems.append("empty value is %r instead of the type's %r" % (field.attrs.get("_empty_value", "<unset>"), EMPTY_VALUES[cls.name]))
        return (key, "; ".join(problems) if problems else "conforms", "conforms")

    decide(ctx, "O3.4", "guard state after each field type's constructor", BASE + ".__init__", cell, min_cells=30)

    for cls in classes:
        assigned = []
        for method in cls.methods.values():
            if method.name == "__init__":
                continue
            for node in walk_own(method.node):
                targets = []
                if isinstance(node, ast.Assign):
                    targets = node.targets
                elif isinstance(node, (ast.AugAssign, ast.AnnAssign)):
                    targets = [node.target]
                for target in targets:
                    if isinstance(target, ast.Attribute) and isinstance(target.value, ast.Name) and target.value.id == "self" \
                            and target.attr in GUARD_STATE:
                        assigned.append((target.attr, method.name, node.lineno))
        what = "%s: no method besides the constructor assigns the guard state" % cls.name
        if assigned:
            for attr, method_name, line in assigned:
                ctx.res.fail("O3.3", what, "%s.%s:O3.3:self.%s" % (cls.qualname.replace("cutplace.", ""), method_name, attr),
                             "%s:%d (%s.%s)" % (cls.module.relpath, line, cls.name, method_name),
                             "%s.%s re-assigns self.%s: the %s guard of this type no longer follows the declaration"
                             % (cls.name, method_name, attr, attr.strip("_")))
        else:
            ctx.res.ok("O3.3", what, True)


def rule_characters(ctx):
    """O3.5 is part of the table (two-character cells with the second character disallowed); here: no early exit."""
    model = ctx.model
    info = model.func(BASE + ".validate_characters")
    # only exits that leave a *loop* early count (round 11: a guard `if allowed is None: return` before the loop and
    # `continue` after a passed test were reported on a refactoring - false alarm); the table decides the rest
    exits = [n for loop in walk_own(info.node) if isinstance(loop, (ast.For, ast.While))
             for statement in loop.body for n in ast.walk(statement) if isinstance(n, (ast.Break, ast.Return))]
    if exits:
        ctx.res.fail("O3.5", "validate_characters visits every character", "fields.AbstractFieldFormat.validate_characters:O3.5:exit",
                     where_of(model, info.qualname), "loop over the cell's characters contains %s" % type(exits[0]).__name__.lower())
    else:
        ctx.res.ok("O3.5", "validate_characters has no break/return/continue in its character loop", True)


def rule_length_membership(ctx):
    """O1.3 (shared with C01, round 11): the length guard *is* Range.validate - "rejected when its number of characters
    lies outside the declared length" holds only if membership is decided for every limit, zero included."""
    from .c01 import rule_membership

    rule_membership(ctx)


def rule_ods_cell_texts(ctx):
    """O3.6: ODS cells reach the length and character checks with every character they hold (blanks stored as text:s, tabs, line breaks, spans) (C15's table)."""
    from .c15 import rule_cell_texts

    rule_cell_texts(ctx, "O3.6")


def rule_excel_cell_texts(ctx):
    """O3.8: an Excel cell reaches the guards as empty only if it is empty - a stored 0 or FALSE is the text "0" (C16's table)."""
    from .c16 import rule_cell_values

    rule_cell_values(ctx, "O3.8")


from .common import rule_module_state  # noqa: E402

def rule_every_cell_reaches_its_field(ctx):
    """O3.7: the guards sit in the field's validated(); validate_row must hand EVERY cell of a row to the validated() of its
    field - also for a Text field that may be empty and has neither length nor rule (the allowed characters still apply)."""
    from . import protocol

    ctx.res.minimum("O3.7", 1)
    protocol.validate_row_table(ctx, "O3.7", aspects=())


RULES = [rule_template_integrity, rule_validated, rule_guard_state, rule_characters, rule_length_membership, rule_ods_cell_texts, rule_excel_cell_texts, rule_every_cell_reaches_its_field, rule_module_state]
