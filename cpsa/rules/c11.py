"""
C11 - data-format properties mean what the CID says; contradictions are refused.
"""
import ast
import codecs
import os
import re
import token as _token

from ..absint import AbsIter, AbsRaise, AText, Chooser, ClassRef, Interp, Obj, Opaque, Sym, Undecided, exc_name
from ..model import AnalysisError
from ..tablekit import decide, decide_kinds, stub, where_of

EXPLANATION = (
    "Static decision of C11 from cutplace/data.py: (O11.1/O11.2) DataFormat.__init__ and set_property, with the property "
    "setters and the _validated_* helpers, are interpreted from source for every format x every property name (all "
    "KEY_* constants, the internal attribute names and an unknown name) x a value pool built from the module's own folded "
    "constant sets plus invalid values; the outcome must be: InterfaceError for a property that does not apply to the "
    "format or for an invalid value, otherwise the documented internal value - never another exception (the setters' "
    "asserts are thereby discharged or reported). (O11.3) the defaults after construction are header 0, sheet 1, decimal "
    "separator '.', no thousands separator, item delimiter ',', quote and escape '\"', line delimiter any, encoding "
    "cp1252. (O11.4) _validated_character is decided over abstract first-token kinds x 'a further token follows' with the "
    "limit helpers of C01 (same helpers as Range, hence the same character for every spelling); the single-character "
    "shortcut excludes digits. (O11.5) DataFormat.validate is interpreted on every combination of representative values "
    "of item delimiter, quote, escape, line delimiter, decimal and thousands separator: refused iff item delimiter = "
    "quote character or line delimiter, or decimal = thousands separator. (O11.6) every property indexed in "
    "docs/writing-an-icd.rst is a settable key. Valid character sets are compared with the documentation's lists."
    " Added in rounds 6 and 7: The set_property table writes every valid value three ways (plain, blanks before,"
    " blanks after) and reads multi-character item delimiter spellings through the real tokenizer; header, sheet"
    " and item delimiter codes with underscores are refused."
    " Added in rounds 8 and 9: (O11.5) the consistency matrix is exact: a refusal is accepted only where the csv"
    " dialect cannot represent the configuration."
    " Added in round 10: Item delimiters given literally include characters Unicode files under the digits"
    " (superscript two, Arabic-Indic three); Header / Sheet are also probed with Infinity, NaN and 1e999."
)
ASSUMPTIONS = ["codecs.lookup decides which encodings the runtime knows", "documented sets are those of docs/writing-an-icd.rst"]

DATA_FORMAT = "cutplace.data.DataFormat"
FORMATS = ["delimited", "fixed", "excel", "ods", "csv"]
APPLICABLE = {
    "allowed_characters": {"delimited", "fixed", "excel", "ods"},
    "encoding": {"delimited", "fixed", "excel", "ods"},
    "header": {"delimited", "fixed", "excel", "ods"},
    "escape_character": {"delimited"},
    "item_delimiter": {"delimited"},
    "quote_character": {"delimited"},
    "quoting": {"delimited"},
    "skip_initial_space": {"delimited"},
    "decimal_separator": {"delimited", "fixed"},
    "line_delimiter": {"delimited", "fixed"},
    "thousands_separator": {"delimited", "fixed"},
    "sheet": {"excel", "ods"},
}
DOCUMENTED_QUOTE_CHARACTERS = sorted("!\"#$%&'*+-/:;=?\\^_`~")


def _codecs_lookup(interp, args, kwargs):
    try:
        codecs.lookup(args[0])
    except LookupError as error:
        interp.raise_("builtins.LookupError", str(error))
    except ValueError as error:  # embedded NUL, lone surrogate
        interp.raise_("builtins.ValueError", str(error))
    except TypeError:
        raise Undecided("codecs.lookup(%r)" % (args[0],))
    return Opaque("codec-info")


def _new_format(interp, model, format_name):
    return interp.instantiate(ClassRef(model.cls(DATA_FORMAT)), [format_name], {})


def value_pool(interp, model, name):
    """(value text, expected internal value or 'invalid')."""
    module = model.module("cutplace.data")
    fold = lambda constant: interp.global_lookup(module, constant)  # noqa: E731
    if name == "encoding":
        # codecs that are not text encodings and names the codec registry cannot even look up are not encodings of data
        return [("utf-8", "utf-8"), ("cp1252", "cp1252"), ("no-such-encoding", "invalid"), ("hex", "invalid"), ("rot13", "invalid"),
                ("base64", "invalid"), ("utf-8\0", "invalid")]
    if name == "header":
        return [("0", 0), ("3", 3), ("-1", "invalid"), ("x", "invalid"), ("1_0", "invalid"), ("Infinity", "invalid"), ("1e999", "invalid"), ("NaN", "invalid")]
    if name == "sheet":
        return [("1", 1), ("2", 2), ("0", "invalid"), ("-1", "invalid"), ("x", "invalid"), ("1_0", "invalid"), ("Infinity", "invalid"), ("NaN", "invalid")]
    if name == "decimal_separator":
        return [(v, v) for v in fold("_VALID_DECIMAL_SEPARATORS")] + [(";", "invalid"), ("", "invalid")]
    if name == "thousands_separator":
        return [(v, v) for v in fold("_VALID_THOUSANDS_SEPARATORS")] + [(";", "invalid")]
    if name == "escape_character":
        return [(v, v) for v in fold("_VALID_ESCAPE_CHARACTERS")] + [("x", "invalid")]
    if name == "quote_character":
        return [(v, v) for v in fold("_VALID_QUOTE_CHARACTERS")] + [("x", "invalid"), (",", "invalid"), ("", "invalid")]
    if name == "quoting":
        mapping = fold("QUOTING_TO_CSV_QUOTE_MAP")
        return [(k, v) for k, v in mapping.items()] + [(k.upper(), v) for k, v in mapping.items()] + [("none", "invalid")]
    if name == "skip_initial_space":
        return [("true", True), ("False", False), ("TRUE", True), ("maybe", "invalid")]
    if name == "line_delimiter":
        return [("lf", "\n"), ("CR", "\r"), ("CrLf", "\r\n"), ("any", "any"), ("none", "none-special"), ("foo", "invalid")]
    if name == "item_delimiter":
        return [(";", ";"), ("|", "|"), ("a", "a"), ("59", ";"), ("0x3b", ";"), ("Tab", "\t"), ('";"', ";"), ("4_4", "invalid"), ("0x2_c", "invalid"),
                # "given literally": one character that is no ASCII digit is itself - also when Unicode files it under the digits
                ("\u00b2", "\u00b2"), ("\u0663", "\u0663"), ("7", "\x07")]
    if name == "allowed_characters":
        return [("<range>", "range"), ("<broken range>", "invalid")]
    return [("x", "invalid")]


def set_property_cell(model, ch, mode="values"):
    format_name = ch.choose("format", FORMATS)
    effective_format = "delimited" if format_name == "csv" else format_name
    names = sorted(APPLICABLE) + ["is_valid", "valid_line_delimiter_texts", "no_such_property", "item delimiter", "line delimiter"]
    name = ch.choose("property", names)
    key = name.replace(" ", "_")

    @stub
    def range_stub(interp_, args, kwargs):
        if args[0] == "<broken range>":
            interp_.raise_("cutplace.errors.InterfaceError", Opaque("str", True))
        return Obj(model.cls("cutplace.ranges.Range"), {"_description": args[0]}, label="allowed")

    def real_tokens(interp_, args, kwargs):
        """tokenize.generate_tokens on the concrete text handed to _compat.token_io_readline."""
        import io
        import tokenize

        source = args[0]
        if not (isinstance(source, tuple) and len(source) == 2 and source[0] == "readline of" and isinstance(source[1], str)):
            raise Undecided("generate_tokens(%r)" % (source,))
        try:
            return [tuple(item) for item in tokenize.generate_tokens(io.StringIO(source[1]).readline)]
        except tokenize.TokenError as error:
            interp_.raise_("tokenize.TokenError", str(error))
        except SyntaxError as error:
            interp_.raise_("builtins." + type(error).__name__, str(error))

    interp = Interp(model, ch, externals={"codecs.lookup": _codecs_lookup, "tokenize.generate_tokens": real_tokens},
                    stubs={"cutplace.ranges.Range": range_stub,
                           "cutplace._compat.token_io_readline": stub(lambda i, a, k: ("readline of", a[0]))})
    data_format = _new_format(interp, model, format_name)
    pool = value_pool(interp, model, key)
    text, expected_value = ch.choose("value", pool)
    # "surrounding blanks" are a meaning-preserving rewrite of a CID (C09): a valid value stays the same value
    blanks = ch.choose("blanks around the value", ["none", "before", "after"]) \
        if expected_value != "invalid" and not text.startswith("<") and text.strip() == text and text != "" else "none"
    written = {"none": text, "before": "  " + text, "after": text + " "}[blanks]
    if expected_value in ("utf-8", "cp1252"):
        expected_value = "encoding " + expected_value
    from ..world import World

    location = World(model, interp, ch).location()
    try:
        interp.call_function(model.func(DATA_FORMAT + ".set_property"), [data_format, name, written, location], {}, None)
        outcome = "set"
    except AbsRaise as raised:
        outcome = "raise " + exc_name(raised.value)
        if exc_name(raised.value) == "InterfaceError":
            error_location = raised.value.attrs.get("_location")
            if not (isinstance(error_location, Obj) and getattr(error_location, "copied_from", None) is location):
                outcome = "raise InterfaceError without the location of the property row"
    cell_key = "format=%s property=%r value=%r" % (format_name, name, written)
    if mode == "errors":
        # C10: whatever name and value, the property is set or refused with InterfaceError - nothing else
        actual = outcome if not (outcome == "set" or outcome.startswith("raise InterfaceError")) else "set-or-InterfaceError"
        return (cell_key, actual, "set-or-InterfaceError")
    applicable = key in APPLICABLE and effective_format in APPLICABLE[key]
    if not applicable:
        return (cell_key, outcome, "raise InterfaceError")
    if expected_value == "invalid":
        return (cell_key, outcome, "raise InterfaceError")
    if expected_value == "none-special":
        # "none" (no line delimiter) exists for fixed data only
        if effective_format == "fixed":
            return (cell_key, (outcome, data_format.attrs.get("_line_delimiter")), ("set", None))
        return (cell_key, outcome, "raise InterfaceError")
    if outcome != "set":
        return (cell_key, outcome, "set")
    actual = data_format.attrs.get("_" + key)
    if expected_value == "range":
        ok = isinstance(actual, Obj) and actual.attrs.get("_description") == "<range>"
        return (cell_key, "set" if ok else ("set", repr(actual)), "set")
    if isinstance(expected_value, str) and expected_value.startswith("encoding "):
        # the name of the encoding may be kept as written; it has to denote the same codec
        try:
            same = isinstance(actual, str) and codecs.lookup(actual).name == codecs.lookup(expected_value[9:]).name
        except LookupError:
            same = False
        return (cell_key, "set" if same else ("set", actual), "set")
    return (cell_key, ("set", actual), ("set", expected_value))


def rule_set_property(ctx, rule="O11.1", mode="values"):
    ctx.res.minimum(rule, 1)
    return decide(ctx, rule, "set_property(format x property x value pool)" + ("" if mode == "values" else "[errors]"),
                  DATA_FORMAT + ".set_property", lambda ch: set_property_cell(ctx.model, ch, mode), min_cells=300, max_report=10)


def rule_defaults(ctx):
    model = ctx.model
    ctx.res.minimum("O11.3", 5)
    expected = {
        "delimited": {"_header": 0, "_decimal_separator": ".", "_thousands_separator": "", "_item_delimiter": ",", "_quote_character": '"',
                      "_escape_character": '"', "_line_delimiter": "any", "_encoding": "cp1252", "_allowed_characters": None,
                      "_skip_initial_space": False, "_quoting": 0, "_format": "delimited", "_is_valid": False},
        "fixed": {"_header": 0, "_decimal_separator": ".", "_thousands_separator": "", "_line_delimiter": "any", "_encoding": "cp1252",
                  "_allowed_characters": None, "_format": "fixed", "_is_valid": False},
        "excel": {"_header": 0, "_sheet": 1, "_encoding": "cp1252", "_allowed_characters": None, "_format": "excel", "_is_valid": False},
        "ods": {"_header": 0, "_sheet": 1, "_encoding": "cp1252", "_allowed_characters": None, "_format": "ods", "_is_valid": False},
    }
    expected["csv"] = dict(expected["delimited"])
    for format_name in FORMATS:
        interp = Interp(model, Chooser())
        data_format = _new_format(interp, model, format_name)
        actual = {key: value for key, value in data_format.attrs.items() if not key.startswith("_VALID")}
        what = "defaults of format %s" % format_name
        if actual == expected[format_name]:
            ctx.res.ok("O11.3", what, True, {"defaults": {k: repr(v) for k, v in actual.items()}})
        else:
            differing = {k: (actual.get(k, "<absent>"), expected[format_name].get(k, "<absent>"))
                         for k in set(actual) | set(expected[format_name]) if actual.get(k, "<absent>") != expected[format_name].get(k, "<absent>")}
            ctx.res.fail("O11.3", what, "data.DataFormat.__init__:O11.3:%s:%s" % (format_name, ",".join(sorted(differing))),
                         where_of(model, DATA_FORMAT + ".__init__"),
                         "defaults of format %s differ from the documented ones (actual, documented): %r" % (format_name, differing))
    # an unknown format is refused
    interp = Interp(model, Chooser(), externals={"traceback.extract_stack": lambda i, a, k: []})
    try:
        from ..world import World

        interp.instantiate(ClassRef(model.cls(DATA_FORMAT)), ["xml", World(model, interp, Chooser()).location()], {})
        outcome = "accepted"
    except AbsRaise as raised:
        outcome = exc_name(raised.value)
    if outcome == "InterfaceError":
        ctx.res.ok("O11.3", "an unknown format name is refused with InterfaceError", True)
    else:
        ctx.res.fail("O11.3", "unknown format refused", "data.DataFormat.__init__:O11.3:unknown-format", where_of(model, DATA_FORMAT + ".__init__"),
                     "format 'xml' gives %s" % outcome)


NAME, NUMBER, STRING, OP, END = _token.NAME, _token.NUMBER, _token.STRING, _token.OP, _token.ENDMARKER


def rule_validated_character(ctx):
    model = ctx.model
    ctx.res.minimum("O11.4", 2)
    qualname = DATA_FORMAT + "._validated_character"

    def cell(ch):
        first = ch.choose("first token", ["NAME", "NUMBER", "STRING", "OP1", "OP2", "END", "tokenizer-error"])
        more = ch.choose("further token", [False, True]) if first not in ("END", "tokenizer-error") else False
        code = Sym("code")
        codes = {"NAME": 9, "NUMBER": 59, "STRING": 124}
        value = AText(AText.TEXT, "value")
        stripped = AText(AText.TEXT, "stripped")

        @stub
        def strip(interp_, args, kwargs):
            return stripped

        value.methods = {"strip": strip}

        @stub
        def tokens_stub(interp_, args, kwargs):
            if args[0] is not value and args[0] is not stripped:
                # the value or the value without its surrounding blanks: the same tokens but for an indentation
                raise Undecided("tokenised %r instead of the value" % (args[0],))
            if first == "tokenizer-error":
                interp_.raise_("tokenize.TokenError", "EOF in multi-line statement")
            sequence = []
            if first == "NAME":
                sequence.append((NAME, "name-text"))
            elif first == "NUMBER":
                sequence.append((NUMBER, "number-text"))
            elif first == "STRING":
                sequence.append((STRING, "string-text"))
            elif first == "OP1":
                sequence.append((OP, ";"))
            elif first == "OP2":
                sequence.append((OP, "**"))
            if more:
                sequence.append((NAME, "more"))
            sequence.append((END, ""))
            return AbsIter(lambda index: sequence[index] + ((1, 0), (1, 1), "") if index < len(sequence) else AbsIter.STOP, "tokens")

        def helper(kind):
            @stub
            def handler(interp_, args, kwargs):
                interp_.event("helper", kind, args[1])
                return codes[kind]

            return handler

        stubs = {
            "cutplace._tools.generated_tokens": tokens_stub,
            "cutplace.ranges.code_for_symbolic_token": helper("NAME"),
            "cutplace.ranges.code_for_number_token": helper("NUMBER"),
            "cutplace.ranges.code_for_string_token": helper("STRING"),
        }
        interp = Interp(model, ch, stubs=stubs, externals={"text_len": lambda i, a, k: 2, "in_str": lambda i, a, k: False})
        from ..world import World

        location = World(model, interp, ch).location()
        try:
            result = interp.call_function(model.func(qualname), ["item_delimiter", value, location], {}, None)
            outcome = result
        except AbsRaise as raised:
            outcome = "raise " + exc_name(raised.value)
        expected = "raise InterfaceError"
        if not more:
            if first in codes:
                expected = chr(codes[first])
            elif first == "OP1":
                expected = ";"
        if first in codes and not more:
            helpers = [(event[1], event[2]) for event in interp.events if event[0] == "helper"]
            if helpers != [(first, {"NAME": "name-text", "NUMBER": "number-text", "STRING": "string-text"}[first])]:
                outcome = ("helpers called", helpers)
        return ("first=%s further=%s" % (first, more), outcome, expected)

    decide(ctx, "O11.4", "_validated_character(token kinds)", qualname, cell, min_cells=10)

    # single-character shortcut: one stripped character that is not a digit denotes itself; a digit is a code
    def shortcut_cell(ch):
        text = ch.choose("value", [";", " ; ", "\t", "7", "x", "\\", '"', "é", "|"])
        interp = Interp(model, ch, externals=_real_tokenizer_externals())
        try:
            result = interp.call_function(model.func(qualname), ["item_delimiter", text, None], {}, None)
        except AbsRaise as raised:
            result = "raise " + exc_name(raised.value)
        stripped = text.strip()
        if stripped == "7":
            expected = chr(7)
        elif stripped == "":
            expected = "raise InterfaceError"
        elif stripped in ("\\", '"'):
            expected = stripped
        else:
            expected = stripped
        return (repr(text), result, expected)

    decide(ctx, "O11.4", "_validated_character(single character)", qualname, shortcut_cell, min_cells=9)


def _real_tokenizer_externals():
    """Constant folding of tokenize.generate_tokens on constant texts of the specification (standard library only)."""
    import io
    import tokenize

    def string_io(interp, args, kwargs):
        if not isinstance(args[0], str):
            raise Undecided("io.StringIO(%r)" % (args[0],))
        stream = io.StringIO(args[0])
        return Obj("io.StringIO", {"readline": _Readline(stream)}, label="constant text")

    def generate_tokens(interp, args, kwargs):
        readline = args[0]
        if not isinstance(readline, _Readline):
            raise Undecided("generate_tokens(%r)" % (readline,))
        try:
            return [tuple(info) for info in tokenize.generate_tokens(readline.stream.readline)]
        except tokenize.TokenError as error:
            interp.raise_("tokenize.TokenError", str(error))
        except SyntaxError as error:
            interp.raise_("builtins.SyntaxError", str(error))

    return {"io.StringIO": string_io, "tokenize.generate_tokens": generate_tokens}


class _Readline:
    def __init__(self, stream):
        self.stream = stream


ITEM_VALUES = [",", ";", '"', "\n", "\r", "\\"]
QUOTE_VALUES = ['"', "'"]
ESCAPE_VALUES = ['"', "\\"]
LINE_VALUES = ["any", "\n", "\r", "\r\n"]
DECIMAL_VALUES = [".", ","]
THOUSANDS_VALUES = [",", ".", ""]


def validate_cell(model, ch):
    format_name = ch.choose("format", ["delimited", "fixed", "excel"])
    interp = Interp(model, ch)
    data_format = _new_format(interp, model, format_name)
    chosen = {}
    if format_name == "delimited":
        for key, values in (("_item_delimiter", ITEM_VALUES), ("_quote_character", QUOTE_VALUES), ("_escape_character", ESCAPE_VALUES)):
            chosen[key] = ch.choose(key, values)
    if format_name in ("delimited", "fixed"):
        for key, values in (("_line_delimiter", LINE_VALUES + ([None] if format_name == "fixed" else [])),
                            ("_decimal_separator", DECIMAL_VALUES), ("_thousands_separator", THOUSANDS_VALUES)):
            chosen[key] = ch.choose(key, values)
    data_format.attrs.update(chosen)
    try:
        interp.call_function(model.func(DATA_FORMAT + ".validate"), [data_format], {}, None)
        outcome = "valid" if data_format.attrs.get("_is_valid") is True else "returned without marking the format valid"
    except AbsRaise as raised:
        outcome = "raise " + exc_name(raised.value)
    return format_name, chosen, outcome


def rule_consistency(ctx, rule_id="O11.5"):
    model = ctx.model
    ctx.res.minimum(rule_id, 1)

    def cell(ch):
        format_name, chosen, outcome = validate_cell(model, ch)
        contradictions = []
        if format_name == "delimited":
            if chosen["_item_delimiter"] == chosen["_quote_character"]:
                contradictions.append("item delimiter = quote character")
            if chosen["_item_delimiter"] == chosen["_line_delimiter"]:
                contradictions.append("item delimiter = line delimiter")
        if format_name in ("delimited", "fixed") and chosen["_decimal_separator"] == chosen["_thousands_separator"]:
            contradictions.append("decimal separator = thousands separator")
        key = "%s %s" % (format_name, " ".join("%s=%r" % (k[1:], v) for k, v in sorted(chosen.items())))
        if contradictions:
            if outcome == "raise InterfaceError":
                return (key, None, None)
            return (key, "contradiction accepted: " + contradictions[0], outcome)
        if outcome == "valid":
            return (key, None, None)
        if outcome == "raise InterfaceError":
            # stricter than documented is permitted where the csv dialect cannot represent the configuration: a special
            # character that is also the line delimiter, the escape character (when it is not the quote character) as item
            # delimiter, a line break as item delimiter.  Any other refusal takes a documented setting away (for example
            # thousands separator ',' in comma separated data, where such numbers are quoted).
            unrepresentable = False
            if format_name == "delimited":
                item, quote, escape, line = (chosen[k] for k in ("_item_delimiter", "_quote_character", "_escape_character", "_line_delimiter"))
                unrepresentable = line in (item, quote, escape) or (escape != quote and escape == item) or item in ("\n", "\r")
            if unrepresentable:
                return (key, None, None)
            return (key, "consistent settings refused", outcome)
        return (key, "consistent settings give " + outcome, outcome)

    decide_kinds(ctx, rule_id, "validate(consistency matrix)", DATA_FORMAT + ".validate", cell, min_cells=400)


def rule_documentation(ctx):
    model = ctx.model
    ctx.res.minimum("O11.6", 11)
    path = os.path.join(model.repo_root, "docs", "writing-an-icd.rst")
    if not os.path.exists(path):
        raise AnalysisError("docs/writing-an-icd.rst not found")
    with open(path, "r", encoding="utf-8") as docs_file:
        text = docs_file.read()
    documented = re.findall(r"^\.\. index:: pair: data format property; (.+)$", text, re.MULTILINE)
    interp = Interp(model, Chooser())
    module = model.module("cutplace.data")
    keys = {interp.global_lookup(module, name) for name in module.assigns if name.startswith("KEY_")}
    for name in documented:
        key = name.strip().replace(" ", "_")
        what = "documented property %r is a settable key" % name
        if key in keys and key in APPLICABLE:
            ctx.res.ok("O11.6", what, True)
        else:
            ctx.res.fail("O11.6", what, "docs/writing-an-icd.rst:O11.6:%s" % key, "docs/writing-an-icd.rst",
                         "the documentation describes data format property %r, which no format can set" % name)
    quote_characters = interp.global_lookup(module, "_VALID_QUOTE_CHARACTERS")
    match = re.search(r"Valid characters are \(sorted ASCII-betically\): ``(.+?)``\n", text)
    documented_quotes = sorted(match.group(1)) if match else None
    if documented_quotes is not None and sorted(quote_characters) == documented_quotes == DOCUMENTED_QUOTE_CHARACTERS:
        ctx.res.ok("O11.6", "valid quote characters equal the documented list", True, {"characters": "".join(documented_quotes)})
    else:
        ctx.res.fail("O11.6", "quote characters as documented", "data._VALID_QUOTE_CHARACTERS:O11.6:set", "cutplace/data.py",
                     "valid quote characters %r differ from the documented %r" % ("".join(sorted(quote_characters)), documented_quotes and "".join(documented_quotes)))


def rule_property_row(ctx):
    """
    O11.7: a data-format row of the CID hands its cells to DataFormat / set_property faithfully - the property name
    and the format name case-folded (they are case-insensitive), the VALUE cell unchanged (an item delimiter 'X' is
    not 'x') - together with the row's location.
    """
    model = ctx.model
    ctx.res.minimum("O11.7", 1)
    cid_qualname = "cutplace.interface.Cid"

    def cell(ch):
        first = ch.choose("first data-format row", [True, False])
        name = ch.choose("name cell", ["Item delimiter", "ITEM DELIMITER", "item delimiter", "Format", "format", "FORMAT", "",
                                       " Item delimiter", "Format ", "  "])
        value = ch.choose("value cell", ["X", "Delimited", "\"X\"", "Ä", "lf", "CRLF", " Delimited "])
        seen = []

        @stub
        def data_format_stub(interp_, args, kwargs):
            seen.append(("DataFormat", args[0], args[1] if len(args) > 1 else kwargs.get("location")))
            return Obj(model.cls(DATA_FORMAT), {"_format": args[0]}, label="data_format")

        @stub
        def set_property_stub(interp_, args, kwargs):
            seen.append(("set_property", args[1], args[2], args[3] if len(args) > 3 else kwargs.get("location")))

        interp = Interp(model, ch, stubs={DATA_FORMAT: data_format_stub, DATA_FORMAT + ".set_property": set_property_stub})
        from ..world import World

        world = World(model, interp, ch)
        location = world.location(line=3)
        cid = Obj(model.cls(cid_qualname), {"_location": location,
                                            "_data_format": None if first else Obj(model.cls(DATA_FORMAT), {"_format": "delimited"})})
        try:
            interp.call_function(model.func(cid_qualname + ".add_data_format_row"), [cid, [name, value, "", "", "", ""]], {}, None)
            outcome = "accepted"
        except AbsRaise as raised:
            outcome = "raise " + exc_name(raised.value)
        key = "first=%s name=%r value=%r" % (first, name, value)
        # blanks around the name of a property (and around the name of the format) do not change its meaning
        is_format = name.strip().lower() == "format"
        if name.strip() == "" or (first and not is_format) or (not first and is_format):
            return (key, outcome, "raise InterfaceError")
        if first:
            expected = [("DataFormat", value.strip().lower())]
            actual = [entry[:2] for entry in seen]
        else:
            expected = [("set_property", name.strip().lower(), value)]
            actual = [entry[:3] for entry in seen]
        located = all(entry[-1] is location for entry in seen)
        return (key, (outcome, actual, "located" if located else "without the row's location"), ("accepted", expected, "located"))

    decide(ctx, "O11.7", "add_data_format_row(cells reach DataFormat unchanged)", cid_qualname + ".add_data_format_row", cell, min_cells=60)


def rule_set_property_main(ctx):
    rule_set_property(ctx, "O11.1")


def rule_character_spellings(ctx):
    """O1.6 (shared with C01): validated_character reads a character given as number, symbolic name or quoted text through
    the helpers of cutplace.ranges; their decision tables are part of C11's obligations."""
    from .c01 import rule_limit_spellings

    rule_limit_spellings(ctx)


from .common import rule_module_state  # noqa: E402

RULES = [rule_character_spellings, rule_set_property_main, rule_defaults, rule_validated_character, rule_consistency, rule_documentation, rule_property_row, rule_module_state]
