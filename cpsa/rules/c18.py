"""
C18 - the command line's exit code reflects the validation outcome.
"""
from ..absint import AbsRaise, Interp, Obj, Opaque, RInt, exc_name
from ..tablekit import decide, stub, where_of

EXPLANATION = (
    "Static decision of C18 from cutplace/applications.py: (O18.1) main() is interpreted from source with process() "
    "replaced by every outcome class {returns 0, returns 1, OSError, EnvironmentError, InterfaceError, DataError, an "
    "unexpected Exception, SystemExit}: the result must be {0, 1, 3, 3, 1, 1, 4, propagated}. (O18.2) process() with "
    "CutplaceApp.validate is interpreted on every list of 0..3 data files whose Reader outcome is one of {accepted, "
    "rejected while reading, rejected by an end check, cannot be read (OSError)}: every file is attempted in order with a "
    "fresh Reader on the shared CID and the command's validate_until, the result is 1 iff some file was rejected, and an "
    "unreadable file surfaces as EnvironmentError (exit 3). (O18.4) the --until mapping is decided over the regions "
    "{< -1, -1, 0, > 0}: -1 means no limit, n >= 0 means n, anything else is a usage error (exit 2), and the value "
    "reaches the Reader. The programmatic side (what 'accepted by the API' means) is C04-C08's."
    " Added in rounds 6 and 7: (O18.5) the argument parser declares two positionals of variable length and"
    " therefore parses intermixed: options may stand between CID-FILE and DATA-FILE."
)
ASSUMPTIONS = ["argparse's own behaviour (type=int conversion, parser.error exits with status 2)"]

APP = "cutplace.applications.CutplaceApp"


def log_externals():
    @stub
    def log_method(interp, args, kwargs):
        return None

    logger = Obj("logging.Logger", {name: log_method for name in ("debug", "info", "warning", "error", "exception", "critical", "setLevel")},
                 label="logger")
    return {"logging.getLogger": lambda interp, args, kwargs: logger}


def rule_main(ctx):
    model = ctx.model
    ctx.res.minimum("O18.1", 1)
    outcomes = {
        "returns 0": 0, "returns 1": 1, "OSError": 3, "EnvironmentError": 3, "FileNotFoundError": 3, "InterfaceError": 1, "DataError": 1,
        "CheckError": 1, "ValueError": 4, "AssertionError": 4, "SystemExit": "raise SystemExit",
    }

    def cell(ch):
        outcome = ch.choose("process()", list(outcomes))

        @stub
        def process_stub(interp, args, kwargs):
            if outcome.startswith("returns"):
                return int(outcome.split()[1])
            if outcome in ("InterfaceError", "DataError", "CheckError"):
                interp.raise_("cutplace.errors." + outcome, Opaque("str", True))
            interp.raise_("builtins." + outcome, "x")

        interp = Interp(model, ch, stubs={"cutplace.applications.process": process_stub}, externals=log_externals())
        try:
            result = interp.call_function(model.func("cutplace.applications.main"), [["cutplace", "cid", "data"]], {}, None)
        except AbsRaise as raised:
            result = "raise " + exc_name(raised.value)
        return (outcome, result, outcomes[outcome])

    decide(ctx, "O18.1", "main() exit code", "cutplace.applications.main", cell, min_cells=len(outcomes))


FILE_OUTCOMES = ["accepted", "rejected-row", "rejected-at-end", "unreadable"]


def rule_process(ctx):
    model = ctx.model
    ctx.res.minimum("O18.2", 1)

    def cell(ch):
        count = ch.choose("data files", [0, 1, 2, 3])
        planned = [ch.choose(("file", index), FILE_OUTCOMES) for index in range(count)]
        until = ch.choose("until", [None, 5])
        cid = Obj(model.cls("cutplace.interface.Cid"), {"_check_names": [], "_check_name_to_check_map": {}}, label="cid")
        constructed = []

        @stub
        def reader_stub(interp, args, kwargs):
            path = args[1]
            index = int(path[4:])
            constructed.append((args[0], path, kwargs.get("validate_until", args[3] if len(args) > 3 else "missing")))
            behaviour = planned[index]
            if behaviour == "unreadable":
                # readers open the file lazily or eagerly: both must end as exit code 3
                if ch.choose(("unreadable when", index), ["constructing", "reading"]) == "constructing":
                    interp.raise_("builtins.FileNotFoundError", path)

            @stub
            def validate_rows(interp_, args_, kwargs_):
                interp_.event("validate_rows", path, behaviour)
                if behaviour == "rejected-row":
                    interp_.raise_("cutplace.errors.FieldValueError", Opaque("str", True))
                if behaviour == "unreadable":
                    interp_.raise_("builtins.FileNotFoundError", path)

            @stub
            def close(interp_, args_, kwargs_):
                interp_.event("close", path, behaviour)
                if behaviour == "rejected-at-end":
                    interp_.raise_("cutplace.errors.CheckError", Opaque("str", True))
                if behaviour == "unreadable" and ch.choose(("end checks on no rows", index), ["pass", "fail"]) == "fail":
                    # a check such as "DistinctCount >= 1" fails on the zero rows of a file that could not be read: the
                    # file is still unreadable (exit code 3), not rejected
                    interp_.raise_("cutplace.errors.CheckError", Opaque("str", True))

            return Obj(model.cls("cutplace.validio.Reader"), {"validate_rows": validate_rows, "close": close, "accepted_rows_count": 1,
                                                              "_cid": cid, "_is_closed": False},
                       label="reader%d" % index)

        @stub
        def set_options(interp, args, kwargs):
            app = args[0]
            app.attrs.update({"cid": cid, "cid_path": "cid", "data_paths": ["data%d" % index for index in range(count)],
                              "validate_until": until})

        interp = Interp(model, ch, stubs={APP + ".set_options": set_options, "cutplace.validio.Reader": reader_stub},
                        externals=log_externals())
        try:
            result = interp.call_function(model.func("cutplace.applications.process"), [["cutplace", "cid"]], {}, None)
        except AbsRaise as raised:
            result = "raise " + exc_name(raised.value)
        # oracle
        problems = []
        expected_result = 0
        attempted = 0
        for index, behaviour in enumerate(planned):
            attempted += 1
            if behaviour == "unreadable":
                expected_result = "raise OSError"
                break
            if behaviour != "accepted":
                expected_result = 1
        if result != expected_result and not (expected_result == "raise OSError" and result in ("raise OSError", "raise EnvironmentError", "raise FileNotFoundError")):
            problems.append("process() gives %r, expected %r" % (result, expected_result))
        if len(constructed) != attempted:
            problems.append("%d Reader(s) constructed for %d file(s) to attempt" % (len(constructed), attempted))
        for index, (reader_cid, path, reader_until) in enumerate(constructed):
            if reader_cid is not cid or path != "data%d" % index or reader_until != until:
                problems.append("Reader %d constructed with (%r, %r, validate_until=%r)" % (index, reader_cid, path, reader_until))
        closes = [event for event in interp.events if event[0] == "close"]
        validated = [event for event in interp.events if event[0] == "validate_rows"]
        if len(closes) != len(validated):
            problems.append("a Reader was not closed (%d validate_rows, %d close)" % (len(validated), len(closes)))
        key = "files=[%s] until=%s" % (",".join(planned), until)
        return (key, "; ".join(problems) if problems else "conforms", "conforms")

    decide(ctx, "O18.2", "process() over data files", "cutplace.applications.process", cell, min_cells=80)


def rule_until(ctx):
    model = ctx.model
    ctx.res.minimum("O18.4", 1)

    def cell(ch):
        region = ch.choose("--until", ["default", -5, -2, -1, 0, 1, 7])
        # an empty file name (a quoted unset shell variable) is an unusable argument, not a program error
        names = ch.choose("file names", [("cid", ["data"]), ("", ["data"]), ("cid", [""]), ("cid", ["data", ""])])
        # round 11: the application object may have served an earlier command line; "no limit" means no limit then too
        earlier = ch.choose("limit left by an earlier set_options", ["none", 3])

        @stub
        def parser_error(interp, args, kwargs):
            interp.event("parser.error", None, None)
            interp.raise_("builtins.SystemExit", 2)

        def argument_parser(interp, args, kwargs):
            defaults = {}

            @stub
            def add_argument(interp_, args_, kwargs_):
                if "dest" in kwargs_ and "default" in kwargs_:
                    defaults[kwargs_["dest"]] = kwargs_["default"]
                return None

            @stub
            def parse_args(interp_, args_, kwargs_):
                value = defaults.get("validate_until", "no-default") if region == "default" else region
                if isinstance(value, int):
                    value = RInt(value)
                return Obj("argparse.Namespace", {"log_level": "info", "is_create_sql": False, "is_gui": False, "validate_until": value,
                                                  "plugins_folder": None, "data_paths": list(names[1]), "cid_path": names[0]})

            return Obj("argparse.ArgumentParser", {"add_argument": add_argument, "parse_args": parse_args, "parse_intermixed_args": parse_args, "error": parser_error})

        @stub
        def set_cid(interp, args, kwargs):
            return None

        externals = log_externals()
        externals["argparse.ArgumentParser"] = argument_parser
        interp = Interp(model, ch, stubs={APP + ".set_cid_from_path": set_cid}, externals=externals)
        from ..absint import ClassRef

        try:
            interp.global_lookup(model.module("cutplace.applications"), "__version__")
        except Exception:
            interp.module_globals.setdefault("cutplace.applications", {})["__version__"] = "0"
        app = interp.instantiate(ClassRef(model.cls(APP)), [], {})
        if earlier != "none":
            app.attrs["validate_until"] = RInt(earlier)
        try:
            interp.call_function(model.func(APP + ".set_options"), [app, ["cutplace", "cid", "data"]], {}, None)
            value = app.attrs.get("validate_until")
            actual = value.value if isinstance(value, RInt) else value
        except AbsRaise as raised:
            actual = "raise " + exc_name(raised.value)
        number = -1 if region == "default" else region
        expected = None if number == -1 else (number if number >= 0 else "raise SystemExit")
        if names[0] == "" or "" in names[1]:
            expected = "raise SystemExit"
        return ("--until %s, CID %r, data files %r, earlier limit %s" % (region, names[0], names[1], earlier), actual, expected)

    decide(ctx, "O18.4", "--until mapping and file names", APP + ".set_options", cell, min_cells=56)


def rule_oserror(ctx):
    from .c10 import rule_oserror_stays_oserror

    rule_oserror_stays_oserror(ctx)


def rule_validate_rows(ctx):
    """
    O18.5: Reader.validate_rows (what the command line runs per file) reads the whole file whatever the limit, so an
    unreadable file or a broken container is noticed (exit 3 / 1) even with --until 0, and judges rows like rows().
    """
    from . import protocol

    ctx.res.minimum("O18.5", 1)
    protocol.reader_rows_table(ctx, "O18.5", {"window", "modes", "faults"}, "validate_rows")


def rule_options_at_any_position(ctx):
    """
    O18.5: "2 for unusable arguments" - and only for those.  argparse matches ALL positional arguments against the first
    run of non-option words; with an optional positional (nargs '?') followed by a list (nargs '*' or '+') the list is
    matched empty as soon as an option follows the first word, and the data files after the option are "unrecognized
    arguments" (exit 2) although the command line is usable: ``cutplace cid.ods --until 5 data.csv``.  A parser that
    declares more than one positional of variable length therefore has to parse with parse_intermixed_args (frozen fact
    about argparse, Python 3.7+; the declarations are read from the source).
    """
    import ast

    from ..model import AnalysisError, walk_own

    model = ctx.model
    ctx.res.minimum("O18.5", 1)
    from ..model import FuncInfo
    from .c10 import analysis

    graph = analysis(model)[0].graph
    info = model.func("cutplace.applications.CutplaceApp.set_options")
    positionals = []
    parse_calls = []
    # the declarations may sit in helpers of the same module (a parser factory): follow them
    bodies, seen = [info], {info.qualname}
    for current in bodies:
        for node in walk_own(current.node):
            if isinstance(node, ast.Call):
                for target in graph.resolve_call(current, node):
                    if isinstance(target, FuncInfo) and target.module is info.module and target.qualname not in seen and len(bodies) < 12:
                        seen.add(target.qualname)
                        bodies.append(target)
    for node in [n for body in bodies for n in walk_own(body.node)]:
        if isinstance(node, ast.Call) and isinstance(node.func, ast.Attribute):
            if node.func.attr == "add_argument" and node.args and isinstance(node.args[0], ast.Constant) and isinstance(node.args[0].value, str) \
                    and not node.args[0].value.startswith("-"):
                nargs = next((k.value.value for k in node.keywords if k.arg == "nargs" and isinstance(k.value, ast.Constant)), None)
                positionals.append((node.args[0].value, nargs))
            elif node.func.attr in ("parse_args", "parse_known_args", "parse_intermixed_args", "parse_known_intermixed_args"):
                parse_calls.append(node)
    if not positionals or len(parse_calls) != 1:
        raise AnalysisError("O18.5: set_options declares %d positional argument(s) and has %d parse call(s)" % (len(positionals), len(parse_calls)))
    variable = [name for name, nargs in positionals if nargs in ("?", "*", "+")]
    what = "options may stand between the positional arguments %s" % ", ".join("%s (nargs %r)" % item for item in positionals)
    call = parse_calls[0]
    if len(variable) >= 2 and "intermixed" not in call.func.attr:
        ctx.res.fail("O18.5", what, "applications.CutplaceApp.set_options:O18.5:%s" % call.func.attr,
                     "%s:%d (applications.CutplaceApp.set_options)" % (info.module.relpath, call.lineno),
                     "%s() matches %s against the first run of words only: 'CID --until 5 DATA' is answered with exit code 2 "
                     "(unrecognized arguments) although CID and DATA are usable" % (call.func.attr, " and ".join(variable)))
    else:
        ctx.res.ok("O18.5", what + " (%s)" % call.func.attr, True)


from .common import rule_module_state  # noqa: E402

RULES = [rule_main, rule_process, rule_until, rule_oserror, rule_validate_rows, rule_options_at_any_position, rule_module_state]
