"""
C08 - validation outcomes do not depend on what the CID was used for before.
"""
import ast

from ..model import walk_own
from ..tablekit import where_of
from . import protocol
from .c05 import check_classes, rule_reset_completeness

EXPLANATION = (
    "Static decision of C08 as the typestate rule 'reset before use, per run': per-run state lives only in check objects "
    "owned by the CID (O8.3: no mutable class-level or module-level state in check and field-format classes), a reset "
    "restores a fresh state (O8.2 = reset completeness: every attribute a check mutates while checking is re-initialised "
    "by its reset), and (O8.1) every sequence of up to 2 (thorough: 3) operations from {read and close, read and abandon "
    "after one row, read without close, construct a Reader and only close it, write and close, write without close, "
    "validio.rows, validio.validate, validate_rows + close} on ONE CID is interpreted from source with recording checks: "
    "within each operation every check must be reset before its first check_row / check_at_end of that operation. "
    "Together these give 'each run equals the run on a freshly loaded CID' for the shipped checks."
    " Added in rounds 6 and 7: (O5.4c) cleanup() of a check leaves the bookkeeping alone: a late close() of an"
    " abandoned validator must not wipe the state of the run in progress."
    " Added in round 10: map() is modelled as lazy: a reset loop written as an unconsumed map() resets"
    " nothing."
)
ASSUMPTIONS = ["third-party plugin checks implement reset() completely (the shipped example is checked)"]


def rule_histories(ctx):
    ctx.res.minimum("O8.1", 1)
    protocol.history_table(ctx, "O8.1", 3 if ctx.thorough else 2)


def rule_run_resets(ctx):
    """O8.5 (round 11): every run of a Reader resets the checks before it looks at the data - also a run over an empty
    or header-only data set, whose end-of-data checks would otherwise judge the previous data set (C20's run table)."""
    ctx.res.minimum("O8.5", 3)
    protocol.reader_rows_table(ctx, "O8.5", {"reset", "window"}, "Reader.rows")
    protocol.reader_rows_table(ctx, "O8.5", {"reset", "window"}, "rows()")
    protocol.reader_rows_table(ctx, "O8.5", {"reset", "window"}, "validate()")


def rule_reset_complete(ctx):
    from .c05 import rule_cleanup_keeps_bookkeeping, rule_reset_restores_fresh_state

    rule_reset_completeness(ctx)
    rule_reset_restores_fresh_state(ctx)
    rule_cleanup_keeps_bookkeeping(ctx)
    ctx.res.rule_instances["O8.2"] = ctx.res.rule_instances.get("O5.4", 0)


def rule_no_shared_state(ctx):
    """O8.3: check / field format classes keep no mutable class-level attribute that their methods write."""
    model = ctx.model
    ctx.res.minimum("O8.3", 12)
    classes = list(check_classes(model)) + list(model.subclasses(model.cls("cutplace.fields.AbstractFieldFormat")))
    classes += [model.cls("cutplace.checks.AbstractCheck"), model.cls("cutplace.fields.AbstractFieldFormat")]
    for cls in classes:
        mutable = []
        for name, value in cls.class_assigns.items():
            if isinstance(value, (ast.List, ast.Dict, ast.Set, ast.ListComp, ast.DictComp, ast.SetComp)) or (
                    isinstance(value, ast.Call) and isinstance(value.func, ast.Name) and value.func.id in ("list", "dict", "set")):
                mutable.append(name)
        # writes to class attributes through the class name or type(self)
        class_writes = []
        for method in cls.methods.values():
            for node in walk_own(method.node):
                targets = node.targets if isinstance(node, ast.Assign) else ([node.target] if isinstance(node, ast.AugAssign) else [])
                for target in targets:
                    base = target
                    while isinstance(base, ast.Subscript):
                        base = base.value
                    if isinstance(base, ast.Attribute) and isinstance(base.value, ast.Name) and base.value.id == cls.name:
                        class_writes.append("%s.%s" % (method.name, base.attr))
                if isinstance(node, ast.Global):
                    class_writes.append("%s: global %s" % (method.name, ",".join(node.names)))
        what = "%s keeps no shared mutable state" % cls.name
        if mutable or class_writes:
            ctx.res.fail("O8.3", what, "%s:O8.3:%s" % (cls.qualname.replace("cutplace.", ""), ",".join(mutable + class_writes)),
                         "%s:%d (%s)" % (cls.module.relpath, cls.node.lineno, cls.name),
                         "class-level mutable state %s is shared by every CID and survives from one data set to the next" % (mutable + class_writes))
        else:
            ctx.res.ok("O8.3", what, True)


def rule_command_line_reader_per_file(ctx):
    """O8.4: the command line builds a fresh Reader on the shared CID for each data path (C18's process table)."""
    from .c18 import rule_process

    rule_process(ctx)
    ctx.res.rule_instances["O8.4"] = ctx.res.rule_instances.get("O18.2", 0)
    ctx.res.minimum("O8.4", 1)


from .common import rule_module_state  # noqa: E402

RULES = [rule_histories, rule_run_resets, rule_reset_complete, rule_no_shared_state, rule_command_line_reader_per_file, rule_module_state]
